"""
C19 — routing knowledge stays coherent: one next hop per destination, newest wins.

Model = lean/Drv/C19.lean over Model.RouterCache (the two indexes of
RouterInfoCache, every public operation; the node's learning paths).

Correspondence streams (canonical digest of BOTH indexes compared with the model)
  corpus        : minimised past failures (pre-fix witnesses), replayed first
  enum          : every operation sequence of length <= 4 (quick) / <= 5 (thorough)
                  over the 40-letter alphabet  learn(s,r,[d]) | forget router(s,r) |
                  forget destinations(s,[d]) | renumber(s,s')  with 2 source networks x
                  3 routers x 4 destinations, on a fresh real RouterInfoCache each
                  (sharded; the model enumerates the same tree in one request per shard)
  wide          : all sequences <= 2 (quick) / <= 3 (thorough) over a wider alphabet
                  (several destinations at once, router+destinations deletion, status
                  updates, unknown network None, empty lists, refused call)
  random        : random sequences of length 300, lockstep after every operation
  random-get    : one get_router_info lookup after every operation of those sequences
                  (router address + its dnets), against the model's getRouterInfo
  node-enum     : the same alphabet delivered as real NPDUs (I-Am-Router-To-Network,
                  routed traffic with SADR, Network-Number-Is) and
                  delete_router_references calls into a real
                  NetworkServiceAccessPoint + NetworkServiceElement between stubs,
                  all histories <= 2 over 66 letters and <= 3 (thorough <= 4) over 40;
                  after each history the node sends to every destination and the next
                  hop of the emitted frames is read
  node-random   : random histories of length 300 on nodes of three configurations
  vlan-burst-pairs / vlan-bursts / vlan-longrun (wave 4): the same node on REAL vlan.Network
                  LANs, routers as raw vlan.Node stations, every frame through the REAL
                  TaskManager and core.run() under harness/vt.py virtual time.  Frames are
                  submitted in BURSTS (same instant, scheduler run afterwards); model and
                  oracle apply a burst in submission order (a LAN delivers in order of
                  sending).  pairs: every ordered pair of the 48 frame letters as one burst
                  (thorough: after every one-letter prefix) + next-hop probes; bursts: random
                  length-300 histories with bursts of 1..4; longrun: ONE long-lived process,
                  >= 70 000 (thorough 140 000) scheduled vlan deliveries, competing
                  announcements "x1 announces d; x2 announces d[; x3 …]" back-to-back all the
                  way and aligned (harness counts TaskManager.install_task calls) so that a
                  burst straddles every power of two >= 2^8 and every multiple of 2^16 of the
                  scheduler's life; after every burst the next hop must be the LAST sender and
                  traffic sent afterwards must arrive at that router's station.
  bip-simple / bip-foreign / bip-random-* (wave 5): the same NSAP+NSE attached through BACnet/IP:
                  (a) BIPSimple on the routers' subnet, (b) BIPForeign on another subnet,
                  registered with a real BIPBBMD on the routers' subnet (vlan.IPNetwork/IPNode +
                  IPRouter + AnnexJCodec as in tests/test_bvll/helpers.py; routers 1..3 are
                  BIPSimple stations 192.168.6.11-13).  I-Am-Router-To-Network and routed
                  broadcasts revealing a source network reach the foreign device as
                  Forwarded-NPDUs.  Every ordered pair of the 24 frame letters (burst or
                  sequence), then "forget the first router by its B/IP address", then the next
                  hop of every destination read at the receiving station; random length-300
                  burst histories.  Oracle/model as in the vlan streams: the next hop is the
                  ROUTER that announced (its own address, never the relaying BBMD), newest wins,
                  traffic afterwards is unicast to that router.
  wave 6:         (a) direct-call streams (enum, wide, random): in HALF of the histories the destination
                  lists are long-lived caller-owned objects, one per router, refilled in place
                  (slice assignment / del+extend / pop+append), passed, and changed again after the
                  call (append / remove / clear): results must equal the model's for the contents at
                  call time (a cache that keeps the argument by reference is caught);
                  (b) boundary network numbers {1, 255, 256, 32767, 32768, 40000, 65534} as
                  hand-encoded octets in every real-message rig: deterministic boundary-* histories
                  (stub wires, vlan, B/IP simple, B/IP foreign) and half of the random node / vlan /
                  bip histories draw their destinations from that set.
                  The debug-flags pass of harness/core.py runs all streams, enum one level
                  shallower (<=3) and node-enum40 <=2.

Implementation-side oracle (independent of the model), after every operation:
  * Coherent, evaluated on the real object by identity:
      path_info[(s,d)] is routers[s][a]  <=>  d in routers[s][a].dnets
    (hence at most one router per (s,d)); keys agree with RouterInfo.address
  * abstract map: the real path table equals a plain dict (s,d)->router driven by
    the three obvious rules (learn = overwrite, forget = remove exactly that,
    renumber = move, the moved entry wins); get_router_info(s,d) returns exactly it
  * no exception other than the documented refusal RuntimeError("inconsistent parameters")
  * node level: after every event the same two checks on sap.router_info_cache (the
    expected step on the abstract map is derived from the adapter table as it was
    before the event); frames the node originates go to the router the routers-index
    credits with the destination, on the adapter of that source network, else a
    Who-Is-Router-To-Network is broadcast on every adapter; packets waiting for a
    path are released to the router that announces it.
"""
import itertools, json, os, glob
from . import core

LEAN_TARGETS = ["BacVerif.Props.C19", "drv_c19"]
LEANCHECKER = ["BacVerif.Props.C19"]
LEVEL = "proof"
RULE = ("cache: all op sequences <=4 (quick) / <=5 (thorough) over 40 letters {learn(s,r,[d]) 24, forget "
        "router(s,r) 6, forget destinations(s,[d]) 8, renumber 2} with 2 source nets x 3 routers x 4 "
        "destinations, exhaustively, every one on a fresh real RouterInfoCache; wide alphabet (multi-dnet, "
        "router+dnets deletion, status, None network, empty lists, refused call) <=2/<=3; random length-300 "
        "lockstep sequences; node level: histories <=2 over 66 letters and <=3/<=4 over 40 letters as real "
        "NPDUs into NetworkServiceAccessPoint+NetworkServiceElement with next-hop probes, random length-300 "
        "histories over three adapter configurations; the same node on real vlan LANs through the real "
        "TaskManager under virtual time: all ordered pairs of 48 frame letters as same-instant bursts, random "
        "burst histories, one long-lived process (>=70k / >=140k scheduled deliveries) with competing "
        "announcements straddling every 2^k>=256 and every multiple of 2^16 of the task counter; the same node "
        "attached through BIPSimple and through BIPForeign+real BIPBBMD (IP vlan): all ordered pairs of 24 "
        "frame letters + forget-by-address + next-hop probes, random burst histories. distinct = distinct (stream, op-kind word or model "
        "branch path, final shape class #routers/#paths) signatures; trivial = empty history")
TRUSTED = ["lean/BacVerif/Model/RouterCache.lean is a hand transcription of RouterInfoCache and of the "
           "learning paths in NetworkServiceAccessPoint/NetworkServiceElement (after the two C19 fixes); "
           "tied by the digest-after-every-operation correspondence streams",
           "RouterInfo objects are identified with their key (snet, address): exact in coherent states; "
           "the oracle checks object identity on the real cache after every operation",
           "Address hashing/equality (property C18) for router addresses used as dict keys"]
ASSUMPTIONS = ["router addresses are local stations; at node level no WhatIsNetworkNumber timer is pending "
               "(network_number_is_task is None) and the adapters have distinct network numbers initially"]

SNETS = [5, 6]
ROUTERS = [1, 2, 3]
DNETS = [10, 11, 12, 13]
PROBE_DST = 9
# boundary network numbers (wave 6): one/two-octet edges and both sides of the sign bit of the 16-bit
# field; real messages carry them as hand-encoded octets, so the library's decoders are exercised
BDNETS = [1, 255, 256, 32767, 32768, 40000, 65534]

# ------------------------------------------------------------------ alphabets
# cache op:  ["u",s,a,[ds],st] | ["s",s,a,st] | ["d",s,a|None,[ds]|None] | ["r",old,new]


def alphabet40():
    al = []
    for s in SNETS:
        for a in ROUTERS:
            for d in DNETS:
                al.append(["u", s, a, [d], 0])
    for s in SNETS:
        for a in ROUTERS:
            al.append(["d", s, a, None])
    for s in SNETS:
        for d in DNETS:
            al.append(["d", s, None, [d]])
    al.append(["r", SNETS[0], SNETS[1]])
    al.append(["r", SNETS[1], SNETS[0]])
    return al


def alphabet_wide():
    al = []
    for s in [5, 6, None]:
        for a in [1, 2]:
            al.append(["u", s, a, [10], 0])
            al.append(["u", s, a, [10, 11], 1])
            al.append(["u", s, a, [11, 12, 11], 0])
            al.append(["u", s, a, [], 0])
            al.append(["d", s, a, None])
            al.append(["d", s, a, [10]])
            al.append(["d", s, a, [11, 13]])
            al.append(["d", s, a, []])
            al.append(["s", s, a, 2])
        al.append(["d", s, None, [10]])
        al.append(["d", s, None, [11, 12, 11]])
        al.append(["d", s, None, []])
        al.append(["d", s, None, None])
    for o, n in [(5, 6), (6, 5), (None, 5), (None, 6), (5, 5), (6, 7), (7, 5)]:
        al.append(["r", o, n])
    return al


# node event: ["iam",port,src,[nets]] | ["routed",port,src,snet] | ["nni",port,net,flag,bcast]
#             | ["forget",snet,a|None,[ds]|None] | ["orig",dnet,dst]

def node_alphabet(with_routed):
    al = []
    for p in (0, 1):
        for a in ROUTERS:
            for d in DNETS:
                al.append(["iam", p, a, [d]])
    if with_routed:
        for p in (0, 1):
            for a in ROUTERS:
                for d in DNETS:
                    al.append(["routed", p, a, d])
    for s in SNETS:
        for a in ROUTERS:
            al.append(["forget", s, a, None])
    for s in SNETS:
        for d in DNETS:
            al.append(["forget", s, None, [d]])
    for p in (0, 1):
        for n in SNETS:
            al.append(["nni", p, n, 0, 1])
    return al


NODE_CFGS = {
    # two adapters whose networks were learned (renumbering allowed)
    "learned": {"ports": [[5, 0], [6, 0]], "adapters": [[5, 0], [6, 1]], "local": 0},
    # configured + not yet known (first learning through Network-Number-Is)
    "unknown": {"ports": [[5, 1], [None, None]], "adapters": [[5, 0], [None, 1]], "local": 0},
    # a plain (non-router) node with a learned network
    "single": {"ports": [[5, 0]], "adapters": [[5, 0]], "local": 0},
    # a plain node with a configured network (the BACnet/IP attachments)
    "bip": {"ports": [[5, 1]], "adapters": [[5, 0]], "local": 0},
}

# ------------------------------------------------------------------ real cache side

_ADDR = {}


def addr(i):
    a = _ADDR.get(i)
    if a is None:
        from bacpypes.pdu import Address
        a = _ADDR[i] = Address(i)
    return a


def aid(address):
    """router id: the MAC of a one-octet station, or (last octet of the IPv4 address - 10) of a
    B/IP station (routers 1..3 live at 192.168.6.11-13; anything else - e.g. the BBMD - maps to
    an id no model reply ever contains)"""
    b = address.addrAddr
    return b[0] if len(b) == 1 else b[3] - 10


def ipaddr(i, subnet=6):
    key = ("ip", subnet, i)
    a = _ADDR.get(key)
    if a is None:
        from bacpypes.pdu import Address
        a = _ADDR[key] = Address("192.168.%d.%d/24" % (subnet, i + 10))
    return a


def nkey(s):
    return 0 if s is None else s + 1


def nstr(s):
    return "-" if s is None else str(s)


def err_kind(e):
    if isinstance(e, RuntimeError) and "inconsistent parameters" in str(e):
        return "inconsistent"
    if isinstance(e, RuntimeError) and "no adapter for network" in str(e):
        return "noAdapter"
    if isinstance(e, TypeError) and "%d format" in str(e):
        # the same refusal for snet=None: building the message "no adapter for network: %d" fails
        return "noAdapter"
    if isinstance(e, KeyError):
        return "keyError"
    return "python:" + type(e).__name__


ALIAS_JUNK = 4242          # put into a caller-owned list AFTER the call: the cache must not see it


def alias_call(lists, key, ds, call):
    """the caller keeps ONE list object per router, refills it IN PLACE, passes it, and goes on changing it
    afterwards (a cache that remembers the argument by reference instead of copying what it needs sees
    those changes).  `lists`: {key: [list object, number of calls so far]}"""
    ent = lists.get(key)
    if ent is None:
        ent = lists[key] = [[], 0]
    lst, n = ent
    ent[1] = n + 1
    # refill in place, three ways
    if n % 3 == 0:
        lst[:] = ds
    elif n % 3 == 1:
        del lst[:]
        lst.extend(ds)
    else:
        while lst:
            lst.pop()
        for d in ds:
            lst.append(d)
    try:
        call(lst)
    finally:
        # ... and keep using the list: append / remove / clear
        if n % 3 == 0:
            lst.append(ALIAS_JUNK)
        elif n % 3 == 1 and lst:
            lst.remove(lst[0])
        else:
            del lst[:]


def apply_op(cache, op, lists=None):
    """one public call; with `lists` the destination lists are long-lived caller-owned objects (alias_call)"""
    k = op[0]
    if k == "u":
        if lists is None:
            cache.update_router_info(op[1], addr(op[2]), list(op[3]), op[4])
        else:
            alias_call(lists, ("u", op[2]), op[3],
                       lambda lst: cache.update_router_info(op[1], addr(op[2]), lst, op[4]))
    elif k == "s":
        cache.update_router_status(op[1], addr(op[2]), op[3])
    elif k == "d":
        if lists is None or op[3] is None:
            cache.delete_router_info(op[1], None if op[2] is None else addr(op[2]),
                                     None if op[3] is None else list(op[3]))
        else:
            alias_call(lists, ("d", op[2]), op[3],
                       lambda lst: cache.delete_router_info(op[1], None if op[2] is None else addr(op[2]), lst))
    elif k == "r":
        cache.update_source_network(op[1], op[2])
    else:
        raise core.Infra("bad cache op %r" % (op,))


def cache_digest(c):
    parts = []
    routers = c.routers
    for s in (sorted(routers, key=nkey) if len(routers) > 1 else routers):
        rs = routers[s]
        items = []
        for a in (sorted(rs, key=aid) if len(rs) > 1 else rs):
            ri = rs[a]
            dn = ri.dnets
            body = ",".join(["%d=%d" % (d, dn[d]) for d in (sorted(dn) if len(dn) > 1 else dn)])
            st = ri.__dict__.get("status")
            b = a.addrAddr
            items.append("%d(%s)%s" % (b[0] if len(b) == 1 else b[3] - 10, body, "" if st is None else "~%d" % st))
        parts.append(nstr(s) + "{" + ";".join(items) + "}")
    pi = c.path_info
    if len(pi) > 1:
        ps = sorted([(nkey(k[0]), k[1], k[0], ri) for k, ri in pi.items()], key=lambda t: t[:2])
    else:
        ps = [(0, k[1], k[0], ri) for k, ri in pi.items()]
    return "".join(parts) + "|" + ",".join(["%s/%d>%d" % (nstr(s), d, aid(ri.address))
                                            for _k, d, s, ri in ps])


def real_map(c):
    return {k: aid(ri.address) for k, ri in c.path_info.items()}


def coherence_problem(c):
    """None, or a description of how the two indexes disagree (evaluated by identity)"""
    for (s, d), ri in c.path_info.items():
        rs = c.routers.get(s)
        if rs is None or rs.get(ri.address) is not ri:
            return "path (%s,%d) names a router that is not in routers[%s]" % (nstr(s), d, nstr(s))
        if d not in ri.dnets:
            return "path (%s,%d) names router %d which is not credited with %d" % (nstr(s), d, aid(ri.address), d)
    for s, rs in c.routers.items():
        for a, ri in rs.items():
            if ri.address != a:
                return "router stored under %d calls itself %d" % (aid(a), aid(ri.address))
            for d in ri.dnets:
                if c.path_info.get((s, d)) is not ri:
                    return "router %d on %s is credited with %d but the path table does not lead to it" % (
                        aid(a), nstr(s), d)
    return None


# abstract map (s,d) -> router: the reference semantics of the property

def abs_apply(m, op, has_net=None):
    k = op[0]
    if k == "u":
        for d in op[3]:
            m[(op[1], d)] = op[2]
    elif k == "d":
        s, a, ds = op[1], op[2], op[3]
        if a is None and ds is None:
            return
        if a is not None:
            if ds:
                for d in ds:
                    if m.get((s, d)) == a:
                        del m[(s, d)]
            else:
                for key in [key for key, r in m.items() if key[0] == s and r == a]:
                    del m[key]
        else:
            for d in ds:
                m.pop((s, d), None)
    elif k == "r":
        old, new = op[1], op[2]
        if old != new:
            moved = [(key[1], r) for key, r in m.items() if key[0] == old]
            for d, _r in moved:
                del m[(old, d)]
            for d, r in moved:
                m[(new, d)] = r


MAX_FAILS_PER_SHARD = 40      # a broken tree fails everywhere: keep the run short, the verdict is the same


def check_state(ctx, case, cache, m, where):
    """Coherent + abstract map + lookups on the real object; returns False after ctx.fail"""
    if len(ctx.failures) >= MAX_FAILS_PER_SHARD:
        return True
    why = coherence_problem(cache)
    if why:
        ctx.fail("incoherent", case, "%s: %s" % (where, why), digest=cache_digest(cache))
        return False
    got = real_map(cache)
    if got != m:
        diff = sorted(set(got.items()) ^ set(m.items()), key=lambda kv: (nkey(kv[0][0]), kv[0][1], kv[1]))
        ctx.fail("abstract-map", case, "%s: path table differs from the reference map at %r" % (
            where, [[nstr(k[0]), k[1], r] for k, r in diff[:6]]), digest=cache_digest(cache))
        return False
    return True


def check_lookups(ctx, case, cache, m, nets, dnets, where):
    if len(ctx.failures) >= MAX_FAILS_PER_SHARD:
        return True
    for s in nets:
        for d in dnets:
            ri = cache.get_router_info(s, d)
            got = None if ri is None else aid(ri.address)
            if got != m.get((s, d)):
                ctx.fail("lookup", case, "%s: get_router_info(%s,%d) -> %r, reference says %r" % (
                    where, nstr(s), d, got, m.get((s, d))))
                return False
            if ri is not None and d not in ri.dnets:
                ctx.fail("lookup", case, "%s: get_router_info(%s,%d) returns a router not credited with it" % (
                    where, nstr(s), d))
                return False
    return True


def lookup_reply(cache, s, d):
    """get_router_info as the driver's "get" answers it"""
    ri = cache.get_router_info(s, d)
    if ri is None:
        return {"r": "ok", "a": None, "dn": None}
    return {"r": "ok", "a": aid(ri.address), "dn": [[k, ri.dnets[k]] for k in sorted(ri.dnets)]}


def lookup_key(op, i):
    return (op[1], DNETS[i % len(DNETS)])


def run_real_seq(ctx, case, ops, every=False, lookups=True, look=None, alias=False):
    """fresh real cache, apply ops, oracle; returns (per-op replies if every else final digest);
    `look` (a list) receives one get_router_info reply per operation; `alias`: destination lists are
    long-lived caller-owned objects changed in place between and after the calls (alias_call)"""
    from bacpypes.netservice import RouterInfoCache
    cache = RouterInfoCache()
    m = {}
    lists = {} if alias else None
    if alias:
        case = dict(case, alias=True)
    replies = []
    last = len(ops) - 1
    r = "ok"
    whole = case
    for i, op in enumerate(ops):
        ok = True
        case = dict(whole, ops=ops[:i + 1]) if every else whole
        try:
            apply_op(cache, op, lists)
            r = "ok"
        except core.Infra:
            raise
        except Exception as e:  # noqa
            r = err_kind(e)
            if not (r == "inconsistent" and op[0] == "d" and op[2] is None and op[3] is None):
                if len(ctx.failures) < MAX_FAILS_PER_SHARD:
                    ctx.fail("exception", case, "op %d %r raised %s: %s" % (i, op, type(e).__name__, e), op_index=i)
                if not every:
                    return "err:" + r
                replies.append({"r": "err", "k": r, "d": cache_digest(cache)})
                return replies
        if r == "ok":
            abs_apply(m, op)
        if every or i == last:
            ok = check_state(ctx, case, cache, m, "after op %d %r%s" % (
                i, op, " [destination lists: one caller-owned list per router, refilled in place, changed after "
                       "each call]" if alias else ""))
            if ok and lookups:
                nets = {k[0] for k in m} | {op[1]} | ({op[2]} if op[0] == "r" else set())
                ok = check_lookups(ctx, case, cache, m, nets, DNETS, "after op %d" % i)
            if not ok and not every:
                return cache_digest(cache)
        if every:
            if r == "ok":
                replies.append({"r": "ok", "d": cache_digest(cache)})
            else:
                replies.append({"r": "err", "k": r, "d": cache_digest(cache)})
            if look is not None:
                look.append(lookup_reply(cache, *lookup_key(op, i)))
            if not ok:
                return replies
    if every:
        return replies
    return cache_digest(cache) if r == "ok" or r == "inconsistent" else "err:" + r


# ------------------------------------------------------------------ exhaustive enumeration (cache)

def dfs_words(n_alpha, depth):
    """index words in DFS preorder (prefix first), the order the driver uses"""
    word = []

    def go(k):
        yield tuple(word)
        if k == 0:
            return
        for i in range(n_alpha):
            word.append(i)
            yield from go(k - 1)
            word.pop()
    return go(depth)


def shape(digest):
    if digest.startswith("err:"):
        return digest
    left, _, right = digest.partition("|")
    return "r%d/p%d" % (left.count("("), (right.count(",") + 1) if right else 0)


def op_letter(op):
    if op[0] == "d":
        return "D" if op[2] is not None and op[3] else ("f" if op[2] is not None else ("x" if op[3] is None else "g"))
    if op[0] == "u":
        return "u" if len(op[3]) == 1 else "U"
    return op[0]


def make_fast(alpha):
    """per-letter closures on the real cache / the reference map (alphabet without refused calls);
    closure(cache, lists): lists None = fresh argument lists, else long-lived ones (alias_call)"""
    real, ref = [], []
    for op in alpha:
        k = op[0]
        if k in ("u", "r") or (k == "d" and not (op[2] is None and op[3] is None)):
            real.append(lambda c, lists, op=op: apply_op(c, op, lists))
        else:
            return None, None
        ref.append(lambda m, op=op: abs_apply(m, op))
    return real, ref


def quick_ok(cache, m):
    """the same oracle as check_state + check_lookups, fused; False = look closer (slow path reports)"""
    pi = cache.path_info
    if len(pi) != len(m):
        return False
    n = 0
    for s, rs in cache.routers.items():
        for a, ri in rs.items():
            if ri.address is not a and ri.address != a:
                return False
            for d in ri.dnets:
                if pi.get((s, d)) is not ri:
                    return False
                n += 1
    if n != len(pi):          # a path without a credited router behind it
        return False
    for key, ri in pi.items():
        if m.get(key) != ri.address.addrAddr[0]:
            return False
    get = cache.get_router_info
    for s in SNETS:
        for d in DNETS:
            ri = get(s, d)
            if (ri is None) != ((s, d) not in m) or (ri is not None and ri is not pi.get((s, d))):
                return False
    return True


def shard_enum(ctx, spec):
    """spec: {"alpha": name, "prefixes": [[...]], "depth": k, "model": bool, "stream": s}"""
    alpha = alphabet40() if spec["alpha"] == "a40" else alphabet_wide()
    letters = [op_letter(o) for o in alpha]
    stream = spec["stream"]
    model = None
    if spec["model"]:
        drv = core.Driver("drv_c19")
        reqs = [{"op": "enum", "alpha": alpha, "prefix": list(p), "depth": spec["depth"]}
                for p in spec["prefixes"]]
        model = drv.ask(reqs)
    sigs = {}
    total = 0
    real, ref = make_fast(alpha)
    from bacpypes.netservice import RouterInfoCache
    for pi, prefix in enumerate(spec["prefixes"]):
        mds = None
        if model is not None:
            if model[pi].get("r") != "ok":
                raise core.Infra("model rejected enum request: %r" % (model[pi],))
            mds = model[pi]["ds"]
        for wi, w in enumerate(dfs_words(len(alpha), spec["depth"])):
            idx = tuple(prefix) + w
            d = None
            if real is not None:
                # fast path: same real calls, same oracle, no bookkeeping
                cache, m = RouterInfoCache(), {}
                alias = sum(idx) % 2 == 1         # half of the histories: caller-owned lists, changed in place
                lists = {} if alias else None
                try:
                    for i in idx:
                        real[i](cache, lists)
                        ref[i](m)
                    if quick_ok(cache, m):
                        d = cache_digest(cache)
                except Exception:  # noqa  (the slow path below reports it)
                    d = None
            if d is None:
                ops = [alpha[i] for i in idx]
                case = {"stream": stream, "ops": ops}
                d = run_real_seq(ctx, case, ops, every=False, lookups=True,
                                 alias=(sum(idx) % 2 == 1)) if ops else "|"
            total += 1
            if mds is not None:
                if d != mds[wi]:
                    ctx.disagree(stream, {"stream": stream, "ops": [alpha[i] for i in idx],
                                          "alias": sum(idx) % 2 == 1}, {"d": d}, {"d": mds[wi]})
            word = "".join(letters[i] for i in idx)
            sg = (word, shape(d))
            sigs[sg] = sigs.get(sg, 0) + 1
        if mds is not None and len(mds) != wi + 1:
            raise core.Infra("enum reply has %d entries, expected %d" % (len(mds), wi + 1))
    ctx.streams[stream] += total
    for sg, n in sigs.items():
        ctx.count(stream, sg, trivial=(sg[0] == ""), n=n)


def enum_specs(alpha_name, n_alpha, maxlen, plen, per_shard, model, stream):
    """prefixes of length plen cover words plen..maxlen; shorter words in one extra shard"""
    specs = []
    if maxlen <= plen:
        return [{"alpha": alpha_name, "prefixes": [[]], "depth": maxlen, "model": model, "stream": stream}]
    specs.append({"alpha": alpha_name, "prefixes": [[]], "depth": plen - 1, "model": model, "stream": stream})
    prefixes = [list(p) for p in itertools.product(range(n_alpha), repeat=plen)]
    for i in range(0, len(prefixes), per_shard):
        specs.append({"alpha": alpha_name, "prefixes": prefixes[i:i + per_shard], "depth": maxlen - plen,
                      "model": model, "stream": stream})
    return specs


# ------------------------------------------------------------------ lockstep on one cache (random, corpus)

def run_lockstep_cache(ctx, stream, ops, probes_every=7, alias=False):
    case = {"stream": stream, "ops": ops}
    look = []
    a = run_real_seq(ctx, case, ops, every=True, lookups=True, look=look, alias=alias)
    n = len(a)
    if ctx.model_ok:
        drv = core.Driver("drv_c19")
        reqs = [{"op": "reset"}]
        for i, op in enumerate(ops[:n]):
            s_, d_ = lookup_key(op, i)
            reqs += [{"op": "c", "o": op}, {"op": "get", "s": s_, "d": d_}]
        b = drv.ask(reqs)[1:]
        cases = [{"stream": stream, "ops": ops[:i + 1]} for i in range(n)]
        ctx.compare_stream(stream, cases, a, b[0::2],
                           sig=lambda c, m: (m.get("br") or "?", shape(m.get("d", "")) if n <= 8 else ""))
        if len(look) == n:
            gcases = [{"stream": stream + "-get", "ops": ops[:i + 1], "get": list(lookup_key(ops[i], i))}
                      for i in range(n)]
            ctx.compare_stream(stream + "-get", gcases, look, b[1::2],
                               sig=lambda c, m: ("get", "miss" if m.get("a") is None else "hit%d" % min(len(m.get("dn") or []), 3)))
    else:
        for _ in range(n):
            ctx.count(stream)
    return a


def gen_random_ops(rng, length, rich):
    nets = [5, 6] + ([None, 7] if rich else [])
    ops = []
    for _ in range(length):
        x = rng.random()
        s = rng.choice(nets)
        a = rng.choice(ROUTERS)
        if x < 0.50:
            k = 1 if not rich or rng.random() < 0.6 else rng.choice([0, 2, 3])
            ds = [rng.choice(DNETS) for _ in range(k)]
            ops.append(["u", s, a, ds, rng.choice([0, 0, 0, 1, 2]) if rich else 0])
        elif x < 0.62:
            ops.append(["d", s, a, None])
        elif x < 0.74:
            k = 1 if not rich else rng.choice([1, 1, 2, 0])
            ops.append(["d", s, None, [rng.choice(DNETS) for _ in range(k)]])
        elif x < 0.82 and rich:
            ops.append(["d", s, a, [rng.choice(DNETS) for _ in range(rng.choice([1, 2, 0]))]])
        elif x < 0.86 and rich:
            ops.append(["s", s, a, rng.randrange(4)])
        elif x < 0.87 and rich:
            ops.append(["d", s, None, None])
        else:
            ops.append(["r", s, rng.choice(nets)])
    return ops


# ------------------------------------------------------------------ real node side

_CLS = {}


def _classes():
    if _CLS:
        return _CLS
    from bacpypes.netservice import NetworkServiceAccessPoint, NetworkServiceElement
    from bacpypes.comm import Client, Server, bind
    from bacpypes.pdu import PDU, LocalBroadcast, RemoteStation, Address
    from bacpypes.apdu import WhoIsRequest
    import logging
    logging.getLogger("bacpypes.netservice").setLevel(logging.CRITICAL)   # "path error" warnings

    class NSE(NetworkServiceElement):
        _startup_disabled = True

    class Wire(Server):
        """what is below an adapter: records every frame the node sends on it"""

        def __init__(self, idx, log):
            Server.__init__(self)
            self.idx = idx
            self.log = log

        def indication(self, pdu):
            self.log.append((self.idx, pdu.pduDestination, bytes(pdu.pduData)))

    class App(Client):
        def confirmation(self, pdu):
            pass

    _CLS.update(NSAP=NetworkServiceAccessPoint, NSE=NSE, Wire=Wire, App=App, bind=bind, PDU=PDU,
                LocalBroadcast=LocalBroadcast, RemoteStation=RemoteStation, Address=Address,
                WhoIsRequest=WhoIsRequest)
    return _CLS


def be16(n):
    return bytes([(n >> 8) & 255, n & 255])


class RealNode:
    """a real NetworkServiceAccessPoint + NetworkServiceElement between stubs"""

    def __init__(self, cfg_name):
        K = self.K = _classes()
        self.log = []
        self.sap = K["NSAP"]()
        self.nse = K["NSE"]()
        K["bind"](self.nse, self.sap)
        self.app = K["App"]()
        K["bind"](self.app, self.sap)
        self.wires = []
        self.ports = []          # adapter objects by index
        self.last_exc = None
        if cfg_name == "learned":
            self._add_port(None, addr(100))
            self.deliver(0, 1, bytes([1, 0x80, 0x13]) + be16(5) + b"\0", True)
            self._add_port(None, None)
            self.deliver(1, 1, bytes([1, 0x80, 0x13]) + be16(6) + b"\0", True)
        elif cfg_name == "unknown":
            self._add_port(5, addr(100))
            self._add_port(None, None)
        elif cfg_name == "single":
            self._add_port(None, addr(100))
            self.deliver(0, 1, bytes([1, 0x80, 0x13]) + be16(5) + b"\0", True)
        elif cfg_name == "bip":
            self._add_port(5, addr(100))
        else:
            raise core.Infra("bad node configuration %r" % (cfg_name,))
        del self.log[:]

    def _add_port(self, net, address):
        w = self.K["Wire"](len(self.wires), self.log)
        self.sap.bind(w, net, address)
        self.wires.append(w)
        self.ports.append(w.serverPeer)       # the NetworkAdapter bound on top of the wire

    def deliver(self, port, src, data, bcast):
        K = self.K
        pdu = K["PDU"](data, source=addr(src), destination=K["LocalBroadcast"]() if bcast else addr(100))
        self.wires[port].response(pdu)

    def raddr(self, i):
        """the address router i has on this node's network"""
        return addr(i)

    def port_index(self, adapter):
        for i, p in enumerate(self.ports):
            if p is adapter:
                return i
        return -1

    # -- one event; returns (frames, raised)
    def step(self, ev):
        K = self.K
        del self.log[:]
        raised = None
        try:
            k = ev[0]
            if k == "iam":
                self.deliver(ev[1], ev[2], bytes([1, 0x80, 0x01]) + b"".join(be16(n) for n in ev[3]), True)
            elif k == "routed":
                # SNET/SLEN/SADR present, no DADR, then an unconfirmed Who-Is APDU
                self.deliver(ev[1], ev[2], bytes([1, 0x08]) + be16(ev[3]) + bytes([1, 7, 0x10, 0x08]), False)
            elif k == "nni":
                self.deliver(ev[1], 1, bytes([1, 0x80, 0x13]) + be16(ev[2]) + bytes([ev[3]]), bool(ev[4]))
            elif k == "forget":
                self.sap.delete_router_references(ev[1], None if ev[2] is None else self.raddr(ev[2]),
                                                  None if ev[3] is None else list(ev[3]))
            elif k == "orig":
                req = K["WhoIsRequest"](destination=K["RemoteStation"](ev[1], bytes([ev[2]])))
                self.app.request(req)
            else:
                raise core.Infra("bad node event %r" % (ev,))
        except core.Infra:
            raise
        except Exception as e:  # noqa
            raised = err_kind(e)
            self.last_exc = e
        return [self.frame(f) for f in self.log], raised

    def frame(self, f):
        """decode an emitted frame by hand: [kind, port, ...]"""
        port, dest, data = f
        K = self.K
        if isinstance(dest, int):           # (a rig that names the receiving station by its id)
            dst = dest
        elif dest.addrType == K["Address"].localBroadcastAddr:
            dst = None
        elif dest.addrType == K["Address"].localStationAddr:
            dst = dest.addrAddr[0]
        else:
            return ["odd-destination", port, str(dest)]
        if len(data) < 2 or data[0] != 1:
            return ["odd-frame", port, data.hex()]
        ctl, i, dnet = data[1], 2, None
        if ctl & 0x20:
            dnet = data[i] * 256 + data[i + 1]
            i += 3 + data[i + 2]
        if ctl & 0x08:
            i += 3 + data[i + 2]
        if ctl & 0x20:
            i += 1
        if ctl & 0x80:
            mt = data[i]
            body = data[i + 1:]
            nets = [body[j] * 256 + body[j + 1] for j in range(0, len(body) - 1, 2)]
            if mt == 0 and dst is None and len(nets) == 1:
                return ["whois", port, nets[0]]
            if mt == 1 and dst is None:
                return ["iam", port, nets]
            return ["net-message", port, mt, dst, nets]
        return ["apdu", port, dst, dnet]

    def digest(self):
        sap = self.sap
        ports = ",".join("%s:%s" % (nstr(p.adapterNet), "-" if p.adapterNetConfigured is None
                                    else str(p.adapterNetConfigured)) for p in self.ports)
        ads = ",".join("%s>%d" % (nstr(s), self.port_index(a)) for s, a in sap.adapters.items())
        pend = ",".join("%d*%d" % (d, len(sap.pending_nets[d])) for d in sorted(sap.pending_nets))
        return "[%s][%s]L%d[%s]%s" % (ports, ads, self.port_index(sap.local_adapter), pend,
                                       cache_digest(sap.router_info_cache))


def node_expected_op(node, ev):
    """the step on the abstract map this event should cause, from the adapter table BEFORE it"""
    sap = node.sap
    k = ev[0]
    if k == "iam":
        s = node.ports[ev[1]].adapterNet
        return ["u", s, ev[2], ev[3], 0] if s in sap.adapters else None
    if k == "routed":
        if ev[3] in sap.adapters:
            return None
        return ["u", node.ports[ev[1]].adapterNet, ev[2], [ev[3]], 0]
    if k == "nni":
        p = node.ports[ev[1]]
        if not ev[4] or p.adapterNet == ev[2] or (p.adapterNet is not None and p.adapterNetConfigured == 1):
            return None
        return ["r", p.adapterNet, ev[2]]
    if k == "forget":
        return ["d", ev[1], ev[2], ev[3]] if ev[1] in sap.adapters else None
    return None


def expected_frames(node, ev):
    """frames an `orig` must produce, from the routers index (not the path table)"""
    sap = node.sap
    dnet, dst = ev[1], ev[2]
    la = sap.local_adapter
    if dnet == la.adapterNet:
        return [["apdu", node.port_index(la), dst, None]]
    if dnet in sap.pending_nets:
        return []
    for s, ad in sap.adapters.items():
        for a, ri in sap.router_info_cache.routers.get(s, {}).items():
            if dnet in ri.dnets:
                return [["apdu", node.port_index(ad), aid(a), dnet]]
    return [["whois", node.port_index(ad), dnet] for ad in sap.adapters.values()]


def run_real_node(ctx, case, cfg_name, evs, probes, every):
    """returns list of per-event replies (every) or {"h","x","probe"} for the whole history"""
    node = RealNode(cfg_name)
    cache = node.sap.router_info_cache
    m = {}
    replies, raised_list = [], []
    ok = True
    whole = case
    for i, ev in enumerate(evs):
        case = dict(whole, evs=evs[:i + 1])
        exp_op = node_expected_op(node, ev)
        exp_fr = expected_frames(node, ev) if ev[0] == "orig" else None
        # the only KeyError that is not about routing knowledge: Network-Number-Is on an adapter whose
        # network number is no longer a key of the adapter table (two adapters claimed one number)
        key_ok = ev[0] == "nni" and exp_op is not None and node.ports[ev[1]].adapterNet not in node.sap.adapters
        pend_before = {d: len(v) for d, v in node.sap.pending_nets.items()}
        frames, raised = node.step(ev)
        raised_list.append(raised)
        if raised is not None and (raised.startswith("python:") or (raised == "keyError" and not key_ok)):
            ctx.fail("exception", case, "event %d %r raised %s: %s" % (
                i, ev, type(node.last_exc).__name__, node.last_exc), op_index=i)
            ok = False
        if exp_op is not None and raised in (None, "keyError"):
            # (a KeyError of NetworkNumberIs comes from the adapter table, after the cache moved)
            abs_apply(m, exp_op)
        if ok:
            ok = check_state(ctx, case, cache, m, "after event %d %r" % (i, ev))
        if ok and ev[0] == "orig" and raised is None and frames != exp_fr:
            ctx.fail("traffic", case, "event %d %r: emitted %r, current knowledge says %r" % (i, ev, frames, exp_fr))
            ok = False
        if ok and ev[0] == "iam" and raised is None:
            # packets that waited for one of the announced networks go to the announcer
            want = []
            for d in ev[3]:
                if d in pend_before:
                    want += [["apdu", ev[1], ev[2], d]] * pend_before.pop(d)
            got = [f for f in frames if f[0] == "apdu"]
            if got != want:
                ctx.fail("traffic", case, "event %d %r: released %r, expected %r" % (i, ev, got, want))
                ok = False
        if every:
            replies.append({"r": "ok", "out": frames, "raised": raised, "d": node.digest()})
        if not ok:
            break
    if every:
        return replies
    case = whole
    if not ok:
        return {"h": node.digest(), "x": raised_list, "probe": None}
    h = node.digest()
    pr = []
    for (d, dst) in probes:
        ev = ["orig", d, dst]
        exp_fr = expected_frames(node, ev)
        frames, raised = node.step(ev)
        if raised is not None:
            ctx.fail("exception", case, "probe %r raised %s" % (ev, raised))
        elif frames != exp_fr:
            ctx.fail("traffic", case, "probe %r after the history: emitted %r, current knowledge says %r" % (
                ev, frames, exp_fr))
        pr.append({"out": frames, "raised": raised})
    return {"h": h, "x": raised_list, "probe": {"p": pr, "d": node.digest()}}


def ev_letter(ev):
    return {"iam": "i", "routed": "t", "nni": "n", "orig": "o"}.get(ev[0]) or (
        "D" if ev[2] is not None and ev[3] else ("f" if ev[2] is not None else ("x" if ev[3] is None else "g")))


def shard_node_enum(ctx, spec):
    """spec: {"routed": bool, "cfg": name, "prefixes": [...], "depth": k, "model": bool, "stream": s}"""
    alpha = node_alphabet(spec["routed"])
    letters = [ev_letter(e) for e in alpha]
    stream = spec["stream"]
    probes = [[d, PROBE_DST] for d in DNETS]
    model = None
    if spec["model"]:
        drv = core.Driver("drv_c19")
        reqs = [dict(NODE_CFGS[spec["cfg"]], op="node")]
        reqs += [{"op": "nenum", "alpha": alpha, "prefix": list(p), "depth": spec["depth"], "probes": probes}
                 for p in spec["prefixes"]]
        model = drv.ask(reqs)
        if model[0].get("d") != initial_digest(spec["cfg"]):
            ctx.disagree("node-config", {"cfg": spec["cfg"]}, {"d": initial_digest(spec["cfg"])}, model[0])
        model = model[1:]
    sigs = {}
    total = 0
    for pi, prefix in enumerate(spec["prefixes"]):
        mhs = None
        if model is not None:
            if model[pi].get("r") != "ok":
                raise core.Infra("model rejected nenum request: %r" % (model[pi],))
            mhs = model[pi]["hs"]
        for wi, w in enumerate(dfs_words(len(alpha), spec["depth"])):
            idx = tuple(prefix) + w
            evs = [alpha[i] for i in idx]
            case = {"stream": stream, "cfg": spec["cfg"], "evs": evs, "probes": probes}
            a = run_real_node(ctx, case, spec["cfg"], evs, probes, every=False)
            total += 1
            if mhs is not None and a["probe"] is not None:
                if core.canon(a) != core.canon(mhs[wi]):
                    ctx.disagree(stream, case, a, mhs[wi])
            word = "".join(letters[i] for i in idx)
            hops = "".join("-" if not p["out"] else p["out"][0][0][0] for p in (a["probe"] or {"p": []})["p"])
            sg = (word, hops)
            sigs[sg] = sigs.get(sg, 0) + 1
    ctx.streams[stream] += total
    for sg, n in sigs.items():
        ctx.count(stream, sg, trivial=(sg[0] == ""), n=n)


_INIT = {}


def initial_digest(cfg_name):
    if cfg_name not in _INIT:
        _INIT[cfg_name] = RealNode(cfg_name).digest()
    return _INIT[cfg_name]


def run_lockstep_node(ctx, stream, cfg_name, evs):
    case = {"stream": stream, "cfg": cfg_name, "evs": evs}
    a = run_real_node(ctx, case, cfg_name, evs, [], every=True)
    n = len(a)
    if ctx.model_ok:
        drv = core.Driver("drv_c19")
        b = drv.ask([dict(NODE_CFGS[cfg_name], op="node")] + [{"op": "n", "e": e} for e in evs[:n]])
        if b[0].get("d") != initial_digest(cfg_name):
            ctx.disagree("node-config", {"cfg": cfg_name}, {"d": initial_digest(cfg_name)}, b[0])
        b = b[1:]
        cases = [{"stream": stream, "cfg": cfg_name, "evs": evs[:i + 1]} for i in range(n)]
        ctx.compare_stream(stream, cases, a, b, sig=lambda c, m: (
            ev_letter(c["evs"][-1]), m.get("raised"), tuple(f[0] for f in m.get("out", []))[:4]))
    else:
        for _ in range(n):
            ctx.count(stream)
    return a


def gen_random_evs(rng, length, cfg_name, DNETS=DNETS):
    nports = len(NODE_CFGS[cfg_name]["ports"])
    nets = [5, 6, 7]
    dn = DNETS + [5, 6]
    evs = []
    for _ in range(length):
        x = rng.random()
        p = rng.randrange(nports)
        a = rng.choice(ROUTERS)
        if x < 0.30:
            k = rng.choice([1, 1, 1, 2, 3, 0])
            evs.append(["iam", p, a, [rng.choice(DNETS) for _ in range(k)]])
        elif x < 0.45:
            evs.append(["routed", p, a, rng.choice(dn)])
        elif x < 0.55:
            evs.append(["forget", rng.choice(nets + [None]), a, None])
        elif x < 0.65:
            evs.append(["forget", rng.choice(nets), None, [rng.choice(DNETS) for _ in range(rng.choice([1, 1, 2]))]])
        elif x < 0.70:
            evs.append(["forget", rng.choice(nets), a, [rng.choice(DNETS) for _ in range(rng.choice([1, 2, 0]))]])
        elif x < 0.71:
            evs.append(["forget", rng.choice(nets), None, None])
        elif x < 0.78:
            evs.append(["nni", p, rng.choice(nets), rng.choice([0, 0, 0, 1]), rng.choice([1, 1, 1, 0])])
        else:
            evs.append(["orig", rng.choice(dn + [14]), PROBE_DST])
    return evs


# ------------------------------------------------------------------ real vlan + real TaskManager (virtual time)
#
# The rig above hands every frame straight to the adapter.  Here the node sits on real
# vlan.Network objects, the routers are raw vlan.Node stations, every frame travels through
# the real TaskManager (vlan.Node.indication -> OneShotFunction -> Network.process_pdu) and
# the real core.run() under harness/vt.py virtual time.  Frames may be submitted in BURSTS
# (same instant, scheduler run only afterwards): a LAN delivers in the order of sending, so
# the oracle and the model apply the burst in submission order.

_VT = {}
FILLER_DST = 98          # a station that does not exist: the cheapest frame a LAN can carry


def vt_install():
    """virtual time + a counting wrapper round the real TaskManager.install_task (observation
    only: the real method runs unchanged).  `exact` = the count covers the whole life of the
    singleton task manager of this process."""
    if "vt" in _VT:
        _VT["vt"].reset()
        return _VT
    import bacpypes.task as btask
    fresh = btask._task_manager is None
    pre = len(btask._unscheduled_tasks)      # installed by TaskManager.__init__ itself
    from .vt import VT
    vt = VT.install()
    tm = vt.tm
    orig = tm.install_task
    _VT.update(vt=vt, installs=pre if fresh else 0, exact=fresh)

    def counting(task):
        _VT["installs"] += 1
        return orig(task)
    tm.install_task = counting
    return _VT


def err_kind_named(name, msg):
    if name == "RuntimeError" and "inconsistent parameters" in msg:
        return "inconsistent"
    if name == "RuntimeError" and "no adapter for network" in msg:
        return "noAdapter"
    if name == "TypeError" and "%d format" in msg:
        return "noAdapter"
    if name == "KeyError":
        return "keyError"
    return "python:" + name


class VlanNode(RealNode):
    """the same node on real vlan.Network LANs, driven through the real scheduler"""

    def __init__(self, cfg_name, lean=False):
        self.V = vt_install()
        self.vt = self.V["vt"]
        self.lean = lean
        self.hold = False
        self.taps = []
        self.errors = []
        RealNode.__init__(self, cfg_name)

    def _add_port(self, net, address):
        from bacpypes.vlan import Network, Node
        from bacpypes.comm import Client
        K = self.K
        idx = len(self.wires)
        me = addr(100 + idx)
        lan = Network(name="lan%d" % idx, broadcast_address=K["LocalBroadcast"]())
        vnode = Node(me, lan)
        self.sap.bind(vnode, net, address)
        self.wires.append(vnode)
        self.ports.append(vnode.serverPeer)
        log = self.log
        bcast_type = K["Address"].localBroadcastAddr

        class Tap(Client):
            """a raw station: routers 1..3, the probe destination, a listener for broadcasts"""

            def __init__(self, listener):
                Client.__init__(self)
                self.listener = listener

            def confirmation(self, pdu):
                if pdu.pduSource != me:
                    return
                if (pdu.pduDestination.addrType == bcast_type) != self.listener:
                    return
                log.append((idx, pdu.pduDestination, bytes(pdu.pduData)))

        taps = {}
        for a in ROUTERS + ([] if self.lean else [PROBE_DST]) + [99]:
            t = Tap(a == 99)
            K["bind"](t, Node(addr(a), lan))
            taps[a] = t
        self.taps.append(taps)

    def deliver(self, port, src, data, bcast):
        K = self.K
        pdu = K["PDU"](data, destination=K["LocalBroadcast"]() if bcast else addr(100 + port))
        self.taps[port][src].request(pdu)
        if not self.hold:
            self.flush()

    def flush(self):
        if not self.vt.run():
            raise core.Infra("scheduler did not become quiet")
        self.errors += [err_kind_named(n, m) for n, m in self.vt.errors]
        if self.vt.errors:
            self.last_exc = RuntimeError("%s: %s" % self.vt.errors[0])
        del self.vt.errors[:]

    def fillers(self, n):
        """n frames nobody receives (n scheduled vlan deliveries)"""
        K = self.K
        tap = self.taps[0][ROUTERS[0]]
        while n > 0:
            k = min(n, 256)
            for _ in range(k):
                tap.request(K["PDU"](b"\x01\x00", destination=addr(FILLER_DST)))
            n -= k
            self.flush()

    def burst(self, evs):
        """submit all events in the same instant, then run the scheduler: (frames, [raised kinds])"""
        del self.log[:]
        del self.errors[:]
        self.hold = len(evs) > 1
        raised = []
        try:
            for ev in evs:
                _f, r = RealNode.step(self, ev)      # (log is cleared per step: nothing is in it before the flush)
                if r is not None:
                    raised.append(r)
        finally:
            self.hold = False
        self.flush()
        raised += self.errors
        return [self.frame(f) for f in self.log], raised

    def step(self, ev):
        frames, raised = self.burst([ev])
        return frames, (raised[0] if raised else None)


class BipNode(VlanNode):
    """the same NSAP+NSE attached through BACnet/IP: mode "simple" = BIPSimple on the routers' subnet,
    mode "foreign" = BIPForeign on another subnet, registered with a real BIPBBMD on the routers'
    subnet.  UDP is replaced by vlan.IPNetwork/IPNode (+ IPRouter between the subnets) exactly as in
    tests/test_bvll/helpers.py; AnnexJCodec, BIPSimple/BIPForeign/BIPBBMD, the TaskManager and
    core.run are the repository's.  Routers 1..3 are BIPSimple stations at 192.168.6.11-13."""

    def __init__(self, mode):
        self.mode = mode
        VlanNode.__init__(self, "bip", lean=True)

    def _mux(self, address, lan):
        from bacpypes.comm import Client, Server
        from bacpypes.pdu import Address, PDU, LocalBroadcast, unpack_ip_addr
        from bacpypes.vlan import IPNode
        K = self.K

        class Mux(Client, Server):
            """stand-in for UDPMultiplexer (tests/test_bvll/helpers.py: FauxMultiplexer)"""

            def __init__(self):
                Client.__init__(self)
                Server.__init__(self)
                self.unicast_tuple = address.addrTuple
                self.broadcast_tuple = address.addrBroadcastTuple
                K["bind"](self, IPNode(address, lan))

            def indication(self, pdu):
                if pdu.pduDestination.addrType == Address.localBroadcastAddr:
                    dest = self.broadcast_tuple
                elif pdu.pduDestination.addrType == Address.localStationAddr:
                    dest = unpack_ip_addr(pdu.pduDestination.addrAddr)
                else:
                    raise RuntimeError("invalid destination address type")
                self.request(PDU(pdu, source=self.unicast_tuple, destination=dest))

            def confirmation(self, pdu):
                src = Address(pdu.pduSource)
                dest = LocalBroadcast() if pdu.pduDestination == self.broadcast_tuple else Address(pdu.pduDestination)
                self.response(PDU(pdu, source=src, destination=dest))
        return Mux()

    def _add_port(self, net, address):
        from bacpypes.vlan import IPNetwork, IPRouter
        from bacpypes.comm import Client
        from bacpypes.pdu import Address
        from bacpypes.bvllservice import BIPSimple, BIPForeign, BIPBBMD, AnnexJCodec
        K = self.K
        bind = K["bind"]
        lan6, lan5 = IPNetwork("ip6"), IPNetwork("ip5")
        self.iprouter = IPRouter()
        self.iprouter.add_network(Address("192.168.5.1/24"), lan5)
        self.iprouter.add_network(Address("192.168.6.1/24"), lan6)
        log = self.log
        bcast_type = Address.localBroadcastAddr
        me = self.me = ipaddr(92, 6) if self.mode == "simple" else ipaddr(92, 5)

        class Tap(Client):
            """the network layer of a plain B/IP station: says what it is told, records what the node
            under test sent to it (unicast) or to everybody (the listener)"""

            def __init__(self, ident, listener):
                Client.__init__(self)
                self.ident = ident
                self.listener = listener

            def confirmation(self, pdu):
                if pdu.pduSource != me:
                    return
                if pdu.pduDestination.addrType == bcast_type:
                    if self.listener:
                        log.append((0, pdu.pduDestination, bytes(pdu.pduData)))
                elif not self.listener:
                    log.append((0, self.ident, bytes(pdu.pduData)))

        taps = {}
        for a in ROUTERS + [99 - 10]:
            t = Tap(a, a == 89)
            bind(t, BIPSimple(), AnnexJCodec(), self._mux(ipaddr(a, 6), lan6))
            taps[a] = t
        taps[99] = taps.pop(89)
        self.taps.append(taps)
        # the BBMD of subnet 6 (always there; only the foreign attachment needs it)
        bbmd_addr = ipaddr(-7, 6)            # 192.168.6.3
        self.bbmd = BIPBBMD(bbmd_addr)
        self.bbmd.add_peer(Address("%s/32:%d" % bbmd_addr.addrTuple))
        bind(Tap(-7, False), self.bbmd, AnnexJCodec(), self._mux(bbmd_addr, lan6))
        # the node under test
        if self.mode == "simple":
            self.bip = BIPSimple()
            bind(self.bip, AnnexJCodec(), self._mux(me, lan6))
        else:
            self.bip = BIPForeign()
            bind(self.bip, AnnexJCodec(), self._mux(me, lan5))
        self.sap.bind(self.bip, net, me)
        self.wires.append(self.bip)
        self.ports.append(self.bip.serverPeer)
        if self.mode == "foreign":
            self.bip.register(Address("192.168.6.3"), 60000)
            self.flush()
            if self.bip.registrationStatus != 0:
                raise core.Infra("foreign device registration failed: %r" % (self.bip.registrationStatus,))

    def raddr(self, i):
        return ipaddr(i, 6)

    def deliver(self, port, src, data, bcast):
        K = self.K
        # traffic routed from a remote network that reveals its source network is sent as a broadcast
        # here (over B/IP that is what reaches a foreign device through its BBMD)
        bcast = bcast or bool(data[1] & 0x08)
        pdu = K["PDU"](data, destination=K["LocalBroadcast"]() if bcast else self.me)
        self.taps[port][src].request(pdu)
        if not self.hold:
            self.flush()

    def flush(self):
        # the BBMD and the registration keep recurring tasks: run what is due now, time stands still
        if not self.vt.run(until=self.vt.now):
            raise core.Infra("scheduler did not become quiet")
        self.errors += [err_kind_named(n, m) for n, m in self.vt.errors]
        if self.vt.errors:
            self.last_exc = RuntimeError("%s: %s" % self.vt.errors[0])
        del self.vt.errors[:]


def bip_history(i, j, al):
    """letters i, j (as one burst when i+j is even), forget the router of the first letter by its
    address, then the next hop of every destination"""
    a, b = al[i], al[j]
    bursts = [[a, b]] if (i + j) % 2 == 0 else [[a], [b]]
    bursts.append([["forget", 5, a[2], None]])
    bursts += [[["orig", d, PROBE_DST]] for d in DNETS]
    return bursts


def bip_letters():
    return [e for e in frame_letters() if e[1] == 0]


def run_bip_histories(ctx, stream, mode, histories, model):
    done = []
    legend = {"1": "192.168.6.11 (router 1)", "2": "192.168.6.12 (router 2)", "3": "192.168.6.13 (router 3)",
              "-7": "192.168.6.3 (the BBMD)", "node": "192.168.%d.102" % (6 if mode == "simple" else 5)}
    for bursts in histories:
        case = {"stream": stream, "cfg": "bip", "attach": mode, "bursts": bursts, "addresses": legend}
        node = BipNode(mode)
        nf = len(ctx.failures)
        a = run_vlan_history(ctx, case, "bip", bursts, node=node, m={})
        if len(ctx.failures) > nf:
            # where does traffic go now?  (read at the receiving B/IP station, part of the failure record)
            after = {str(d): node.step(["orig", d, PROBE_DST])[0] for d in DNETS}
            for rec in ctx.failures[nf:]:
                rec["traffic_afterwards"] = after
                rec["what"] += "; traffic sent afterwards (dnet -> frames [kind, adapter, station, DNET]): %r" % (after,)
        done.append((bursts[:len(a)], a))
    if model:
        res = model_bursts_many("bip", [bs for bs, _a in done])
        for (bs, a), (init, b) in zip(done, res):
            cases = [{"stream": stream, "cfg": "bip", "attach": mode, "bursts": bs[:i + 1]} for i in range(len(bs))]
            ctx.compare_stream(stream, cases, a, b, sig=burst_sig)
        if res and res[0][0].get("d") != initial_digest("bip"):
            ctx.disagree("node-config", {"cfg": "bip"}, {"d": initial_digest("bip")}, res[0][0])
    else:
        ctx.count(stream, n=sum(len(a) for _bs, a in done))
    return done


def shard_bip_pairs(ctx, spec):
    """every ordered pair of the 24 frame letters of one adapter (12 I-Am-Router-To-Network, 12 routed
    broadcasts), then forget + probes, on a node attached through BIPSimple / BIPForeign+BBMD"""
    al = bip_letters()
    hs = [bip_history(i, j, al) for i in spec["firsts"] for j in range(len(al))]
    run_bip_histories(ctx, "bip-" + spec["mode"], spec["mode"], hs, spec["model"])


def gen_bip_bursts(rng, length, dnets=DNETS):
    bursts = gen_random_bursts(rng, length, "bip", dnets)
    for b in bursts:
        for ev in b:
            if ev[0] == "orig" and ev[1] == 5:
                ev[1] = 6            # (a six-octet station address would be needed on the local network)
    return bursts


def shard_bip_random(ctx, spec):
    for i in range(spec["first"], spec["first"] + spec["count"]):
        rng = ctx.sub_rng("c19-bip-%d" % i)
        mode = ["foreign", "simple"][i % 2]
        bursts = gen_bip_bursts(rng, 300, BDNETS if (i // 2) % 2 == 1 else DNETS)
        nf = len(ctx.failures)
        done = run_bip_histories(ctx, "bip-random-" + mode, mode, [bursts], spec["model"])
        if len(ctx.failures) > nf:
            rec = ctx.failures[nf]

            def still(bs, kind=rec["kind"]):
                sub = core.Ctx("C19", "quick", 0)
                run_vlan_history(sub, {"stream": "shrink"}, "bip", bs, node=BipNode(mode), m={})
                return any(f["kind"] == kind for f in sub.failures)
            small = shrink(rec["case"]["bursts"], still, budget=300)
            del ctx.failures[nf:]
            run_vlan_history(ctx, {"stream": "bip-random-" + mode, "cfg": "bip", "attach": mode,
                                   "shrunk_from": len(bursts)}, "bip", small, node=BipNode(mode), m={})
        if i < 2:
            ctx.sample({"stream": "bip-random-" + mode, "bursts": bursts[:4],
                        "digest_after_4": done[0][1][min(3, len(done[0][1]) - 1)]["d"]})


def is_frame_event(ev):
    return ev[0] in ("iam", "routed")


def run_vlan_history(ctx, case, cfg_name, bursts, node=None, m=None, lean=False):
    """bursts: list of lists of events (size > 1: I-Am / routed frames only).  Oracle after every
    burst, in submission order.  Returns one reply per burst."""
    node = node or VlanNode(cfg_name, lean=lean)
    cache = node.sap.router_info_cache
    m = {} if m is None else m
    replies = []
    whole = case
    for bi, evs in enumerate(bursts):
        case = dict(whole, bursts=bursts[:bi + 1])
        sap = node.sap
        exp_ops = [node_expected_op(node, ev) for ev in evs]
        exp_fr = expected_frames(node, evs[0]) if evs[0][0] == "orig" else None
        key_ok = evs[0][0] == "nni" and exp_ops[0] is not None and node.ports[evs[0][1]].adapterNet not in sap.adapters
        pend_before = {d: len(v) for d, v in sap.pending_nets.items()}
        frames, raised = node.burst(evs)
        ok = True
        for r in raised:
            if r.startswith("python:") or (r == "keyError" and not key_ok):
                ctx.fail("exception", case, "burst %d %r raised %s (%s)" % (bi, evs, r, node.last_exc), burst_index=bi)
                ok = False
        quiet = [ev for ev in evs if ev[0] == "iam" and node.ports[ev[1]].adapterNet not in sap.adapters]
        for ev, op in zip(evs, exp_ops):
            if op is not None and (not raised or raised == ["keyError"] or len(evs) > 1):
                abs_apply(m, op)
        if ok and len(evs) > 1 and not raised:
            # newest wins inside the burst: the LAST frame sent for a destination decides
            for ev, op in zip(evs, exp_ops):
                if op is None:
                    continue
                for d in op[3]:
                    last = [o[2] for o in exp_ops if o is not None and o[1] == op[1] and d in o[3]][-1]
                    ri = cache.get_router_info(op[1], d)
                    got = None if ri is None else aid(ri.address)
                    if got != last:
                        ctx.fail("newest-wins", case, "burst %d %r: next hop for (%s,%d) is %r, the newest "
                                 "announcement came from %d" % (bi, evs, nstr(op[1]), d, got, last), burst_index=bi)
                        ok = False
                        break
                if not ok:
                    break
        if ok:
            ok = check_state(ctx, case, cache, m, "after burst %d %r (applied in the order sent)" % (bi, evs))
        if ok and evs[0][0] == "orig" and not raised and frames != exp_fr:
            ctx.fail("traffic", case, "burst %d %r: emitted %r, current knowledge says %r" % (bi, evs, frames, exp_fr))
            ok = False
        if ok and not raised and not quiet and all(ev[0] in ("iam", "routed") for ev in evs):
            want = []
            for ev in evs:
                if ev[0] == "iam":
                    for d in ev[3]:
                        if d in pend_before:
                            want += [["apdu", ev[1], ev[2], d]] * pend_before.pop(d)
            got = [f for f in frames if f[0] == "apdu"]
            if got != want:
                ctx.fail("traffic", case, "burst %d %r: released %r, expected %r" % (bi, evs, got, want))
                ok = False
        replies.append({"r": "ok", "out": frames, "raised": raised, "d": node.digest()})
        if not ok:
            break
    return replies


def model_bursts_many(cfg_name, histories):
    """the model's replies for several histories (each from the initial node), merged per burst
    (events applied in submission order); one driver process for all"""
    drv = core.Driver("drv_c19")
    reqs = []
    for bursts in histories:
        reqs.append(dict(NODE_CFGS[cfg_name], op="node"))
        reqs += [{"op": "n", "e": e} for b in bursts for e in b]
    b = drv.ask(reqs)
    res, i = [], 0
    for bursts in histories:
        init = b[i]
        i += 1
        out = []
        for evs in bursts:
            rs = b[i:i + len(evs)]
            i += len(evs)
            out.append({"r": "ok", "out": [f for r in rs for f in r["out"]],
                        "raised": [r["raised"] for r in rs if r["raised"] is not None], "d": rs[-1]["d"]})
        res.append((init, out))
    return res


def model_bursts(cfg_name, bursts):
    return model_bursts_many(cfg_name, [bursts])[0]


def burst_sig(c, mreply):
    evs = c["bursts"][-1]
    return ("".join(ev_letter(e) for e in evs), tuple(mreply.get("raised", [])),
            tuple(f[0] for f in mreply.get("out", []))[:4])


def run_lockstep_vlan(ctx, stream, cfg_name, bursts):
    case = {"stream": stream, "cfg": cfg_name, "bursts": bursts}
    a = run_vlan_history(ctx, case, cfg_name, bursts)
    n = len(a)
    if ctx.model_ok:
        init, b = model_bursts(cfg_name, bursts[:n])
        if init.get("d") != initial_digest(cfg_name):
            ctx.disagree("node-config", {"cfg": cfg_name}, {"d": initial_digest(cfg_name)}, init)
        cases = [{"stream": stream, "cfg": cfg_name, "bursts": bursts[:i + 1]} for i in range(n)]
        ctx.compare_stream(stream, cases, a, b, sig=burst_sig)
    else:
        for _ in range(n):
            ctx.count(stream)
    return a


def gen_random_bursts(rng, length, cfg_name, dnets=DNETS):
    """a random history whose frame events are grouped into bursts of 1..4"""
    evs = gen_random_evs(rng, length, cfg_name, dnets)
    bursts, cur = [], []
    for ev in evs:
        if is_frame_event(ev):
            cur.append(ev)
            if len(cur) >= rng.choice([1, 2, 2, 3, 4]):
                bursts.append(cur)
                cur = []
        else:
            if cur:
                bursts.append(cur)
                cur = []
            bursts.append([ev])
    if cur:
        bursts.append(cur)
    return bursts


def frame_letters():
    return [e for e in node_alphabet(True) if is_frame_event(e)]


def shard_vlan_pairs(ctx, spec):
    """every ordered pair of the 48 frame letters as ONE burst (after every one-letter prefix in
    thorough), then the next hop of every destination is probed"""
    al = frame_letters()
    stream = "vlan-burst-pairs"
    probes = [[["orig", d, PROBE_DST]] for d in DNETS]
    done = []
    for pre in spec["prefixes"]:
        for i in spec["firsts"]:
            for j in range(len(al)):
                bursts = ([[al[pre]]] if pre is not None else []) + [[al[i], al[j]]] + probes
                case = {"stream": stream, "cfg": "learned", "bursts": bursts}
                a = run_vlan_history(ctx, case, "learned", bursts)
                done.append((bursts[:len(a)], a))
    if spec["model"]:
        res = model_bursts_many("learned", [bs for bs, _a in done])
        for (bs, a), (init, b) in zip(done, res):
            cases = [{"stream": stream, "cfg": "learned", "bursts": bs[:i + 1]} for i in range(len(bs))]
            ctx.compare_stream(stream, cases, a, b, sig=burst_sig)
        if res and res[0][0].get("d") != initial_digest("learned"):
            ctx.disagree("node-config", {"cfg": "learned"}, {"d": initial_digest("learned")}, res[0][0])
    else:
        ctx.count(stream, n=sum(len(a) for _bs, a in done))


def shard_vlan_random(ctx, spec):
    for i in range(spec["first"], spec["first"] + spec["count"]):
        rng = ctx.sub_rng("c19-vlan-%d" % i)
        cfg = ["learned", "unknown", "single"][i % 3]
        bursts = gen_random_bursts(rng, 300, cfg, BDNETS if (i // 3) % 2 == 1 else DNETS)
        nf = len(ctx.failures)
        ctx.model_ok = spec["model"]
        a = run_lockstep_vlan(ctx, "vlan-bursts", cfg, bursts)
        if len(ctx.failures) > nf:
            rec = ctx.failures[nf]

            def still(bs, kind=rec["kind"]):
                sub = core.Ctx("C19", "quick", 0)
                run_vlan_history(sub, {"stream": "shrink"}, cfg, bs)
                return any(f["kind"] == kind for f in sub.failures)
            small = shrink(rec["case"]["bursts"], still, budget=300)
            del ctx.failures[nf:]
            run_vlan_history(ctx, {"stream": "vlan-bursts", "cfg": cfg, "shrunk_from": len(bursts)}, cfg, small)
        if i < 1:
            ctx.sample({"stream": "vlan-bursts", "cfg": cfg, "bursts": bursts[:4],
                        "digest_after_4": a[min(3, len(a) - 1)]["d"]})


def boundary_history(d, d2):
    """router 1 announces d; router 2 announces d and d2 (newest wins); routed traffic reveals d2 behind
    router 3; traffic to both; forget router 3; traffic again"""
    return [["iam", 0, 1, [d]], ["orig", d, PROBE_DST], ["iam", 0, 2, [d, d2]], ["orig", d, PROBE_DST],
            ["routed", 0, 3, d2], ["orig", d2, PROBE_DST], ["forget", 5, 3, None], ["orig", d2, PROBE_DST],
            ["iam", 0, 3, [d2, d, 1]], ["orig", d, PROBE_DST]]


def shard_boundary(ctx, spec):
    """every boundary network number through every real-message rig (stub wires, vlan, B/IP simple, B/IP
    foreign): the announced number must be the number learned, looked up and written into frames"""
    for k, d in enumerate(BDNETS):
        d2 = BDNETS[(k + 3) % len(BDNETS)]
        evs = boundary_history(d, d2)
        ctx.model_ok = spec["model"]
        run_lockstep_node(ctx, "boundary-node", "learned", evs)
        run_lockstep_vlan(ctx, "boundary-vlan", "learned", [[e] for e in evs])
        run_lockstep_vlan(ctx, "boundary-vlan", "single", [evs[0:1], [evs[2], evs[4]]] + [[e] for e in evs[5:]])
        for mode in ("simple", "foreign"):
            run_bip_histories(ctx, "boundary-bip-" + mode, mode, [[[e] for e in evs]], spec["model"])


def longrun_boundaries(limit):
    """counter values where a sequence number of limited width would wrap: every power of two from
    2^8 and every multiple of 2^16"""
    bs = {1 << k for k in range(8, 40) if (1 << k) <= limit}
    bs |= set(range(1 << 16, limit + 1, 1 << 16))
    return sorted(bs)


def longrun_round(ctx, node, m, r, stream, aligned, probe, model_log):
    """one burst "x1 announces d; x2 announces d[; x3 announces d]" + checks; returns False after a failure"""
    d = DNETS[r % len(DNETS)]
    rot = r % 3
    order = (ROUTERS[rot:] + ROUTERS[:rot])[:2 if r % 2 == 0 else 3]
    burst = [["iam", 0, x, [d]] for x in order]
    before = node.V["installs"]
    bursts = [burst] + ([[["orig", d, PROBE_DST]]] if probe else [])
    case = {"stream": stream, "cfg": "single", "installs_before": before, "exact_count": node.V["exact"],
            "aligned_to": aligned, "bursts": bursts}
    nf = len(ctx.failures)
    a = run_vlan_history(ctx, case, "single", bursts, node=node, m=m, lean=True)
    model_log.append((case, bursts[:len(a)], a))
    if len(ctx.failures) > nf:
        # where does traffic for d go now?  (read on the wire, part of the failure record)
        after, _r = node.step(["orig", d, PROBE_DST])
        for rec in ctx.failures[nf:]:
            rec["installs_before"] = before
            rec["traffic_afterwards"] = after
            rec["what"] += "; traffic for %d sent afterwards: %r" % (d, after)
        return False
    # traffic sent afterwards goes to the newest router (read on the wire at that router's station)
    if probe and a[-1]["out"] != [["apdu", 0, order[-1], d]]:
        ctx.fail("traffic", case, "after %d scheduled deliveries: traffic for %d went %r, newest router is %d" % (
            before, d, a[-1]["out"], order[-1]), installs_before=before)
        return False
    return True


def shard_longrun(ctx, spec):
    """ONE long-lived process: >= spec["target"] vlan deliveries through the singleton TaskManager;
    competing announcements sent back-to-back all the way, and aligned so that one burst straddles
    every boundary of longrun_boundaries()"""
    stream = "vlan-longrun"
    node = VlanNode("single", lean=True)
    V = node.V
    m = {}
    # always cross the next multiple of 2^16 of THIS process's counter, however old the process is
    target = max(spec["target"], ((((V["installs"] >> 16) + 1) << 16) + 4464))
    model_log = []
    r = 0
    rounds = 0
    ok = True
    bounds = [b for b in longrun_boundaries(target) if b - 1 > V["installs"] + 8]
    gap = spec.get("gap", 96)
    while ok and V["installs"] < target:
        nxt = bounds[0] if bounds else None
        dist = None if nxt is None else nxt - 1 - V["installs"]
        aligned = None
        if dist is not None and dist <= gap:
            # bring the counter to nxt-1: the first frame of the burst gets nxt-1, the second nxt
            node.fillers(dist)
            aligned = nxt
            bounds.pop(0)
            while bounds and bounds[0] - 1 <= V["installs"] + 8:
                bounds.pop(0)
        else:
            # cheap traffic; never run past the next boundary with an unaligned round (a round is <= 5 deliveries)
            node.fillers(gap if dist is None else min(gap, dist - 8))
        ok = longrun_round(ctx, node, m, r, stream, aligned, probe=(aligned is not None or r % 8 == 0),
                           model_log=model_log)
        r += 1
        rounds += 1
        if ok and aligned is not None:
            # and once more right behind the boundary, other order
            ok = longrun_round(ctx, node, m, r, stream, None, probe=True, model_log=model_log)
            r += 1
            rounds += 1
    # correspondence with the model: the whole run as one history (fillers are invisible to it)
    if spec["model"]:
        allb = [b for (_c, bs, _a) in model_log for b in bs]
        alla = [x for (_c, _bs, a) in model_log for x in a]
        init, mb = model_bursts("single", allb)
        cases = []
        for (c, bs, _a) in model_log:
            for i in range(len(bs)):
                cases.append(dict(c, bursts=bs[:i + 1]))
        ctx.compare_stream(stream, cases, alla, mb, sig=burst_sig)
    else:
        ctx.count(stream, n=rounds)
    ctx.notes.append("vlan-longrun: %d scheduled deliveries in one process, %d competing bursts, "
                     "counter %s" % (V["installs"], rounds, "exact" if V["exact"] else "relative (task manager pre-existed)"))


# ------------------------------------------------------------------ corpus / replay

def run_case(ctx, case, stream=None):
    """a self-contained case: cache op list or node history"""
    stream = stream or case.get("stream") or "replay"
    if "bursts" in case and case.get("attach"):
        ctx_model = bool(ctx.model_ok)
        run_bip_histories(ctx, stream, case["attach"], [case["bursts"]], ctx_model)
    elif "bursts" in case:
        cfg = case.get("cfg", "learned")
        if case.get("installs_before") is not None:
            # a burst late in a long-lived process: bring the scheduler of THIS process to the same age
            node = VlanNode(cfg, lean=True)
            need = case["installs_before"] - node.V["installs"]
            if need < 0 or not node.V["exact"]:
                raise core.Infra("cannot reproduce the age of the task manager in this process")
            node.fillers(need)
            a = run_vlan_history(ctx, dict(case, stream=stream), cfg, case["bursts"], node=node, m={}, lean=True)
            if ctx.model_ok:
                _init, b = model_bursts(cfg, case["bursts"][:len(a)])
                cases = [dict(case, bursts=case["bursts"][:i + 1]) for i in range(len(a))]
                ctx.compare_stream(stream, cases, a, b, sig=burst_sig)
        else:
            run_lockstep_vlan(ctx, stream, cfg, case["bursts"])
    elif "evs" in case:
        cfg = case.get("cfg", "learned")
        a = run_lockstep_node(ctx, stream, cfg, case["evs"])
        if case.get("probes") and len(a) == len(case["evs"]):
            run_lockstep_node(ctx, stream, cfg, case["evs"] + [["orig", d, x] for d, x in case["probes"]])
    else:
        run_lockstep_cache(ctx, stream, case["ops"], alias=bool(case.get("alias")))


def run_corpus(ctx):
    d = os.path.join(core.VERIF, "corpus", "C19")
    for path in sorted(glob.glob(os.path.join(d, "*.json"))):
        case = json.load(open(path))
        case = dict(case)
        case["corpus"] = os.path.basename(path)
        run_case(ctx, case, stream="corpus")


# ------------------------------------------------------------------ run

def run(ctx):
    run_corpus(ctx)
    model = bool(ctx.model_ok)
    quick = ctx.quick
    specs = []
    # the debug-flags pass (harness/core.py repeats the quick streams in a child with the library's _debug
    # flags on) runs every stream too, but the two heaviest exhaustive ones one level shallower
    dbg = os.environ.get("VERIF_DEBUGFLAGS") in ("1", "2")
    # real vlan + real scheduler: the long-lived process first (longest single shard)
    specs.append(("shard_longrun", {"target": 70000 if quick else 140000, "model": model}))
    nfl = len(frame_letters())
    if quick:
        for i in range(0, nfl, 8):
            specs.append(("shard_vlan_pairs", {"prefixes": [None], "firsts": list(range(i, min(i + 8, nfl))),
                                               "model": model}))
    else:
        for pre in [None] + list(range(nfl)):
            for i in range(0, nfl, 24):
                specs.append(("shard_vlan_pairs", {"prefixes": [pre], "firsts": list(range(i, min(i + 24, nfl))),
                                                   "model": model}))
    nvl = 8 if quick else 96
    for i in range(0, nvl, 2):
        specs.append(("shard_vlan_random", {"first": i, "count": 2, "model": model}))
    # the same node attached through BACnet/IP (BIPSimple; BIPForeign registered with a real BBMD)
    nbl = len(bip_letters())
    for mode in ("foreign", "simple"):
        for i in range(0, nbl, 4):
            specs.append(("shard_bip_pairs", {"mode": mode, "firsts": list(range(i, min(i + 4, nbl))), "model": model}))
    nbr = 4 if quick else 64
    for i in range(0, nbr, 2):
        specs.append(("shard_bip_random", {"first": i, "count": 2, "model": model}))
    specs.append(("shard_boundary", {"model": model}))
    # exhaustive cache histories
    if quick:
        specs += [("shard_enum", s) for s in enum_specs("a40", 40, 3 if dbg else 4, 2, 25, model, "enum")]
        specs += [("shard_enum", s) for s in enum_specs("wide", len(alphabet_wide()), 2, 1, 8, model, "wide")]
    else:
        specs += [("shard_enum", s) for s in enum_specs("a40", 40, 5, 2, 2, model, "enum")]
        specs += [("shard_enum", s) for s in enum_specs("wide", len(alphabet_wide()), 3, 1, 1, model, "wide")]
    # node histories
    n66 = len(node_alphabet(True))
    for s in enum_specs(None, n66, 2, 1, 3, model, "node-enum66"):
        s.update(routed=True, cfg="learned")
        specs.append(("shard_node_enum", s))
    for s in enum_specs(None, 40, (2 if dbg else 3) if quick else 4, 2, 50 if quick else 5, model, "node-enum40"):
        s.update(routed=False, cfg="learned")
        specs.append(("shard_node_enum", s))
    # random streams, sharded as well
    nrand = 32 if quick else 640
    for i in range(0, nrand, 4):
        specs.append(("shard_random", {"first": i, "count": 4, "model": model}))
    core.run_shards(ctx, "harness.c19", "shard_any", specs)
    ctx.exhaustive = True
    ctx.extra["exhaustive_history_length"] = {"cache": (3 if dbg else 4) if quick else 5, "cache_wide": 2 if quick else 3,
                                              "node40": 3 if quick else 4, "node66": 2}
    for st in ("enum", "random", "node-enum40", "node-random", "vlan-burst-pairs", "vlan-bursts", "vlan-longrun",
               "bip-foreign", "bip-simple", "bip-random-foreign", "bip-random-simple"):
        ctx.sample({"stream": st, "count": ctx.streams.get(st, 0)})


def shard_any(ctx, spec):
    fn, arg = spec
    ctx.model_ok = arg.get("model", True)
    globals()[fn](ctx, arg)


def shrink(seq, still_fails, budget=500):
    """greedy one-at-a-time removal (from the end) while the failure persists"""
    i = len(seq) - 1
    while i >= 0 and budget > 0:
        cand = seq[:i] + seq[i + 1:]
        budget -= 1
        if cand and still_fails(cand):
            seq = cand
        i -= 1
    return seq


def _fails_cache(ops, kind, alias=False):
    sub = core.Ctx("C19", "quick", 0)
    run_real_seq(sub, {"stream": "shrink", "ops": ops}, ops, every=True, alias=alias)
    return any(f["kind"] == kind for f in sub.failures)


def _fails_node(cfg, evs, kind):
    sub = core.Ctx("C19", "quick", 0)
    run_real_node(sub, {"stream": "shrink", "cfg": cfg, "evs": evs}, cfg, evs, [], every=True)
    return any(f["kind"] == kind for f in sub.failures)


def shard_random(ctx, spec):
    for i in range(spec["first"], spec["first"] + spec["count"]):
        rng = ctx.sub_rng("c19-random-%d" % i)
        ops = gen_random_ops(rng, 300, rich=(i % 2 == 1))
        alias = (i // 2) % 2 == 1        # half of the histories: caller-owned lists, changed in place
        nf = len(ctx.failures)
        a = run_lockstep_cache(ctx, "random", ops, alias=alias)
        if len(ctx.failures) > nf:
            # minimise the first new failure: the replay should name a short history
            rec = ctx.failures[nf]
            small = shrink(rec["case"]["ops"], lambda o: _fails_cache(o, rec["kind"], alias))
            del ctx.failures[nf:]
            run_real_seq(ctx, {"stream": "random", "ops": small, "shrunk_from": len(ops)}, small, every=True,
                         alias=alias)
        if i < 2:
            ctx.sample({"stream": "random", "ops": ops[:6], "digest_after_6": a[min(5, len(a) - 1)]["d"]})
        cfg = ["learned", "unknown", "single"][i % 3]
        evs = gen_random_evs(rng, 300, cfg, BDNETS if (i // 3) % 2 == 1 else DNETS)
        nf = len(ctx.failures)
        b = run_lockstep_node(ctx, "node-random", cfg, evs)
        if len(ctx.failures) > nf:
            rec = ctx.failures[nf]
            small = shrink(rec["case"]["evs"], lambda e: _fails_node(cfg, e, rec["kind"]))
            del ctx.failures[nf:]
            run_real_node(ctx, {"stream": "node-random", "cfg": cfg, "evs": small, "shrunk_from": len(evs)},
                          cfg, small, [], every=True)
        if i < 2:
            ctx.sample({"stream": "node-random", "cfg": cfg, "evs": evs[:5], "digest_after_5": b[min(4, len(b) - 1)]["d"]})


def search(ctx):
    """focused failing-input search: the oracle alone over a denser random stream and the
    neighbourhood of every disagreeing case (all one-letter extensions)"""
    seen = 0
    for dis in list(ctx.disagreements)[:20]:
        case = dis["case"]
        if "ops" in case:
            for op in alphabet40() + alphabet_wide():
                ops = case["ops"] + [op]
                run_real_seq(ctx, {"stream": "search", "ops": ops}, ops, every=True, alias=(i % 2 == 1))
                run_real_seq(ctx, {"stream": "search", "ops": ops}, ops, every=True, alias=True)
                seen += 1
        elif "evs" in case:
            for ev in node_alphabet(True):
                evs = case["evs"] + [ev]
                run_real_node(ctx, {"stream": "search", "cfg": case.get("cfg", "learned"), "evs": evs},
                              case.get("cfg", "learned"), evs, [[d, PROBE_DST] for d in DNETS], every=False)
                seen += 1
        if ctx.failures:
            return
    for i in range(200):
        rng = ctx.sub_rng("c19-search-%d" % i)
        ops = gen_random_ops(rng, 300, rich=True)
        run_real_seq(ctx, {"stream": "search", "ops": ops}, ops, every=True, alias=(i % 2 == 1))
        cfg = ["learned", "unknown", "single"][i % 3]
        evs = gen_random_evs(rng, 300, cfg)
        run_real_node(ctx, {"stream": "search", "cfg": cfg, "evs": evs}, cfg, evs, [], every=True)
        if ctx.failures:
            return


def replay(ctx, payload):
    rec = payload.get("failure") or (payload.get("correspondence_disagreements") or [{}])[0]
    case = rec.get("case") if rec else None
    if case is None and ("ops" in payload or "evs" in payload):
        case = payload
    if not case:
        raise core.Infra("nothing to replay")
    run_case(ctx, case, stream="replay")
