"""
harness.e2e_oracle — the properties C04 / C05 (and the wire clauses of C12)
evaluated DIRECTLY on complete real stacks over the fault VLAN.  Independent of
the Lean model: this is the failing-input search that produces replays.

A scenario is a JSON-able dict:
  {"clen": int|None, "slen": int, "mode": "ack|simple|error|reject|abort|silent",
   "a": {stack kwargs}, "b": {stack kwargs}, "know": bool, "iocb": bool,
   "faults": {"<frame index>": "drop"|"dup"|["delay", seconds]}}
"""
from . import e2e as _e2e

SEG_SUPPORT = ['segmentedBoth', 'segmentedTransmit', 'segmentedReceive', 'noSegmentation']


def pattern(n, salt=0):
    """deterministic, position-dependent payload: any reordering/duplication/
    truncation of slices changes it"""
    return bytes(((i * 131 + (i >> 8) * 17 + salt * 29 + 7) & 0xFF) for i in range(n))


def run_scenario(sc, max_loops=60000):
    faults = {int(k): (tuple(v) if isinstance(v, list) else v) for k, v in sc.get("faults", {}).items()
              if str(k).lstrip("-").isdigit()}
    # selective faults, keyed by content instead of frame index:
    #   "always:<sender>:<pdu type>:<seq>"  -> every frame of that sender/type/sequence number
    #   "abs:<sender>:<pdu type>:<index>"   -> the FIRST transmission of the segment with that ABSOLUTE index
    #   "nth:<sender>:<pdu type>:<seq>:<n>" -> the n-th (1-based) frame of that sender/type/sequence number
    selective = []
    for k, v in sc.get("faults", {}).items():
        parts = str(k).split(":")
        if parts[0] in ("always", "abs", "nth"):
            selective.append((parts[0], int(parts[1]), int(parts[2]), int(parts[3]),
                              int(parts[4]) if len(parts) > 4 else None, tuple(v) if isinstance(v, list) else v))
    seen_new = {}     # (sender, type) -> number of distinct new segments seen so far
    last_seq = {}
    counts = {}

    def policy(i, pdu):
        if i in faults:
            return faults[i]
        if not selective:
            return "ok"
        h = _e2e.decode_apdu_header(bytes(pdu.pduData))
        if not h or "type" not in h or not h.get("seg"):
            return "ok"
        try:
            sender = int(str(pdu.pduSource))
        except ValueError:
            return "ok"
        key = (sender, h["type"])
        seq = h["seq"]
        # absolute index of this segment: count first appearances in order
        n = seen_new.get(key, 0)
        is_new = (seq == n % 256) and last_seq.get(key) != ("new", n)
        absidx = None
        if seq == n % 256:
            absidx = n
            seen_new[key] = n + 1
        ck = key + (seq,)
        counts[ck] = counts.get(ck, 0) + 1
        for kind, snd, typ, val, nth, act in selective:
            if snd != sender or typ != h["type"]:
                continue
            if kind == "always" and val == seq:
                return act
            if kind == "abs" and absidx is not None and val == absidx:
                return act
            if kind == "nth" and val == seq and counts[ck] == nth:
                return act
        return "ok"
    net = _e2e.E2ENet(policy=policy)
    a = net.add_stack(10, use_iocb=sc.get("iocb", False), **sc.get("a", {}))
    b = net.add_stack(20, **sc.get("b", {}))
    if sc.get("know", True):
        a.know(b)
        b.know(a)
    # more peers: "peers": [{"devid": 30, "silent": true, ...stack kwargs}]  (requests listed under "extra_requests")
    peers = {}
    for pc in sc.get("peers", []):
        kw = {k: v for k, v in pc.items() if k not in ("devid", "silent")}
        st = net.add_stack(pc["devid"], **kw)
        st.server_mode = "silent" if pc.get("silent") else "ack"
        st.response_payload = pattern(20, pc["devid"])
        peers[pc["devid"]] = st
    # long-lived background timers, cancelled / re-armed while transactions are in flight
    bg = []
    if sc.get("background"):
        from bacpypes.task import FunctionTask
        for due in sc["background"].get("timers", []):
            t = FunctionTask(lambda: None)
            t.install_task(when=net.vt.now + due)
            bg.append(t)
        for at, idx, newdue in sc["background"].get("rearm", []):
            def rearm(idx=idx, newdue=newdue):
                bg[idx].suspend_task()
                bg[idx].install_task(when=net.vt.now + newdue)
            ft = FunctionTask(rearm)
            ft.install_task(when=net.vt.now + at)
    b.server_mode = sc.get("mode", "ack")
    b.response_payload = pattern(sc.get("slen", 0), 1)
    req_payload = None if sc.get("clen") is None else pattern(sc["clen"], 2)
    t0 = net.vt.now
    n = sc.get("requests", 1)
    reenter = sc.get("reenter")          # IOCB completion callback submits a follow-up request
    if reenter and sc.get("iocb"):
        budget = {"n": reenter.get("count", 1)}
        orig_done = a._iocb_done

        def done(idx, iocb):
            orig_done(idx, iocb)
            if budget["n"] > 0:
                budget["n"] -= 1
                target = b if reenter.get("to", "same") == "same" else peers[reenter["to"]]
                a.send_cpt(target, req_payload)
        a._iocb_done = done
    for k in range(n):
        a.send_cpt(b, req_payload)
    for devid, at in sc.get("extra_requests", []):
        if at == 0:
            a.send_cpt(peers[devid], req_payload)
        else:
            from bacpypes.task import FunctionTask
            ft = FunctionTask(lambda d=devid: a.send_cpt(peers[d], req_payload))
            ft.install_task(when=net.vt.now + at)
    # a virtual-time horizon far beyond anything the configured timeouts allow (every fault costs at most
    # one timeout): a tree on which a transaction goes on for ever must not keep the harness busy for ever
    # either — whatever is still alive at the horizon is reported by the residue / termination oracles
    until = net.vt.now + sc.get("horizon", 200.0 + 5.0 * min(len(sc.get("faults", {})), 200))
    if bg:
        # run until the transactions are over, not until the far-future background timers
        until = net.vt.now + sc["background"].get("horizon", 120.0)
    ok = net.run(until=until, max_loops=max_loops)
    quiesced = getattr(net.vt, "quiesced_at", None)
    for t in bg:
        t.suspend_task()
    res = {
        "terminated": ok and (quiesced is not None or bool(bg)),
        "elapsed": (quiesced if quiesced is not None else net.vt.now) - t0,
        "conf": [(round(c[0] - t0, 6), c[1], c[2], c[3]) for c in a.confirmations],
        "ind": [(round(i[0] - t0, 6), i[1], i[2]) for i in b.indications],
        "raised": a.raised,
        "errors": net.vt.errors[:5],
        "residue": {"a": a.residue(), "b": b.residue(), "heap": len(net.vt.pending())},
        "frames": [(f[0], int(str(f[1])), str(f[2]), f[3], f[4], round((f[5] or t0) - t0, 6)) for f in net.lan.log],
        "req_payload": req_payload,
        "resp_payload": b.response_payload,
        "iocb": [{k: v for k, v in e.items() if k != "iocb"} for e in a.iocb_events],
        "timeouts": {
            "apdu": a.device.apduTimeout / 1000.0, "seg": a.device.apduSegmentTimeout / 1000.0,
            "retries": a.device.numberOfApduRetries,
            "b_seg": b.device.apduSegmentTimeout / 1000.0, "b_app": b.smap.applicationTimeout / 1000.0,
            "b_retries": b.device.numberOfApduRetries},
    }
    return res


def run_script(sc, max_loops=60000):
    """a client with several peers; sc["script"] is a list of operations executed in order:
         ["req", devid]            submit a confirmed request to that peer
         ["bg", due]               install a long-lived housekeeping timer due in `due` seconds
         ["cancel", i]             suspend housekeeping timer i
         ["rearm", i, due]         re-install housekeeping timer i
         ["run", dt]               let virtual time pass
       Returns per-request outcome times.  Peers listed in sc["silent"] never answer."""
    from bacpypes.task import FunctionTask
    if sc.get("route_aware"):
        # a supported non-default global setting; restored when the scenario is over
        from bacpypes.settings import settings as _settings
        _settings.route_aware = True
        try:
            return _run_script(dict(sc, route_aware=False), max_loops, ra=True)
        finally:
            _settings.route_aware = False
    return _run_script(sc, max_loops)


def _run_script(sc, max_loops, ra=False):
    from bacpypes.task import FunctionTask
    net = _e2e.E2ENet()
    lan2 = None
    akw = dict(sc.get("a", {}))
    if sc.get("routed"):
        # the peers live on network 2 behind a real router; the client on network 1 writes them "2:<mac>"
        lan2 = net.add_router(1, 2)
        akw.update(net_number=1, spell="routed", peer_net=2)
    a = net.add_stack(10, use_iocb=sc.get("iocb", False), **akw)
    peers = {}
    for devid in sc["peers"]:
        st = net.add_stack(devid, max_apdu=128, lan=lan2,
                           net_number=(2 if sc.get("routed") else sc.get("a", {}).get("net_number")))
        st.server_mode = "silent" if devid in sc.get("silent", []) else ("slow-echo" if devid in sc.get("slow", []) else "echo")
        st.response_payload = pattern(12, devid)
        peers[devid] = st
    t0 = net.vt.now
    bg = []
    sent = []
    serial = [0]
    expect = []

    def submit(devid, big=False):
        serial[0] += 1
        sent.append((devid, net.vt.now - t0))
        cannot_segment = sc.get("a", {}).get("seg", "segmentedBoth") not in ("segmentedBoth", "segmentedTransmit")
        # a destination written WITH the local network number ("1:30" on network 1) is sent to the station, but
        # the unchanged tree never matches the answer (its source is written "30") to the transaction: such a
        # request ends in an abort after the retries — one outcome, in bounded time, nothing left, which is all
        # C04 asks; only the KIND of outcome is not prescribed for these
        spelled = sc.get("a", {}).get("spell", "plain") != "plain" and sc.get("a", {}).get("net_number") is not None
        expect.append((devid, "abort" if (spelled or devid in sc.get("silent", []) or (big and cannot_segment)) else "ack"))
        body = pattern(400 if big else 8, devid) + bytes([serial[0] & 255, serial[0] >> 8])
        a.send_cpt(peers[devid], body)
    chain = list(sc.get("chain", []))      # requests issued from inside IOCB completion callbacks, in order
    if chain and sc.get("iocb"):
        orig_done = a._iocb_done

        def done(idx, iocb):
            orig_done(idx, iocb)
            if chain:
                submit(chain.pop(0))
        a._iocb_done = done
    for op in sc["script"]:
        if op[0] == "req":
            submit(op[1])
        elif op[0] == "reqbig":
            submit(op[1], big=True)      # needs segmentation: ends at once in a local abort when the client cannot segment
        elif op[0] == "unconf":
            a.send_unconfirmed(peers[op[1]])
        elif op[0] == "bg":
            t = FunctionTask(lambda: None)
            t.install_task(when=net.vt.now + op[1])
            bg.append(t)
        elif op[0] == "cancel" and op[1] < len(bg):
            bg[op[1]].suspend_task()
        elif op[0] == "rearm" and op[1] < len(bg):
            bg[op[1]].install_task(when=net.vt.now + op[2])
        elif op[0] == "run":
            net.run(until=net.vt.now + op[1], max_loops=max_loops)
    # the IOCB layer serialises the requests per peer: the horizon has to cover every request submitted
    # (script and chain) running out of retries one after the other, plus the segment-timer ladder
    per_request = ((a.device.numberOfApduRetries + 1) * (a.device.apduTimeout / 1000.0)
                   + (a.device.numberOfApduRetries + 1) * 4 * a.device.apduSegmentTimeout / 1000.0 + 2.0)
    ok = net.run(until=net.vt.now + sc.get("horizon", 100.0 + (len(sent) + len(sc.get("chain", []))) * per_request),
                 max_loops=max_loops)
    for t in bg:
        t.suspend_task()
    ok = net.run(until=net.vt.now + 1.0, max_loops=max_loops) and ok
    return {"terminated": ok, "sent": sent,
            "conf": [(round(c[0] - t0, 6), c[1], c[2], c[4]) for c in a.confirmations],
            "raised": a.raised, "errors": net.vt.errors[:5],
            "residue": {"a": a.residue(), "heap": len(net.vt.pending())},
            "iocb": [{k: v for k, v in e.items() if k != "iocb"} for e in a.iocb_events],
            "acks": [(c[3], c[4]) for c in a.confirmations if c[1] == "ack"],
            "expect": expect,
            # (unmatched answers of a destination written with the network number: a segmented request is
            # then ended by the segment timer ladder, one more T_seg per retry on top of the request timer)
            "bound": (a.device.numberOfApduRetries + 1) * a.device.apduTimeout / 1000.0 + 0.5 + (1.0 if sc.get("slow") else 0.0)
                     + ((a.device.numberOfApduRetries + 1) * 4 * a.device.apduSegmentTimeout / 1000.0
                        if a.spell != "plain" and a.net_number is not None else 0.0)}


def check_script(sc, res):
    out = []
    if not res["terminated"]:
        return [("nontermination", "still busy after the loop limit")]
    per_peer_sent = {}
    for devid, t in res["sent"]:
        per_peer_sent.setdefault(str(devid), []).append(t)
    per_peer_conf = {}
    for t, kind, inv, src in res["conf"]:
        per_peer_conf.setdefault(str(src).split(":")[-1], []).append((t, kind))
    for devid, times in per_peer_sent.items():
        got = per_peer_conf.get(devid, [])
        if len(got) != len(times) - 0:
            out.append(("outcome-count", "%d request(s) to %s, %d outcome(s)" % (len(times), devid, len(got))))
            continue
        prev_done = 0.0
        for ts, (tc, kind) in zip(sorted(times), sorted(got)):
            # through the IOCB interface requests to one peer are served one at a time: the clock of a
            # queued request starts when its predecessor is finished
            start = max(ts, prev_done) if sc.get("iocb") else ts
            prev_done = tc
            if tc - start > res["bound"]:
                out.append(("time-bound", "request to %s submitted at %.1f s (started %.1f s) got its outcome (%s) at %.1f s; bound %.1f s" % (
                    devid, ts, start, kind, tc, res["bound"])))
    # no frame is lost in these scenarios: a request to a peer that answers must be ACKNOWLEDGED (an abort
    # after silence is the right outcome only for a silent peer or a request the client cannot send)
    import collections
    want = collections.Counter(res.get("expect", []))
    got_k = collections.Counter((str(src).split(":")[-1], kind) for _t, kind, _inv, src in res["conf"])
    for (devid, kind), n_ in want.items():
        if got_k.get((str(devid), kind), 0) < n_:
            out.append(("wrong-outcome", "%d request(s) to %s should end in %s; outcomes from that peer: %r" % (
                n_, devid, kind, sorted((k, c) for (d, k), c in got_k.items() if d == str(devid)))))
    r = res["residue"]
    if r["a"]["client"] or r["a"]["server"] or r["a"].get("queues"):
        out.append(("residue-transaction", "transactions left: %r" % (r,)))
    if r["heap"]:
        out.append(("residue-timer", "%d timer(s) still scheduled" % r["heap"]))
    # every IOCB gets the answer to ITS OWN request (the echo server answers with the request reversed)
    for i, e in enumerate(res["iocb"]):
        if e.get("callbacks", 0) != 1:
            out.append(("iocb-callbacks", "IOCB #%d called back %d times" % (i, e.get("callbacks", 0))))
        elif e.get("ok") and e.get("request") is not None and e.get("response") != bytes(reversed(e["request"])):
            out.append(("reply-crossed", "IOCB #%d (request %s) was completed with the answer to another request (%s)" % (
                i, e["request"].hex(), None if e.get("response") is None else e["response"].hex())))
    return out


def brief(res):
    """JSON-able summary for replays"""
    def pl(x):
        return None if x is None else (len(x) if isinstance(x, (bytes, bytearray)) else x)
    return {"terminated": res["terminated"], "elapsed": res["elapsed"],
            "conf": [(c[0], c[1], c[2], pl(c[3])) for c in res["conf"]],
            "ind": [(i[0], i[1], pl(i[2])) for i in res["ind"]],
            "raised": res["raised"], "errors": res["errors"], "residue": res["residue"],
            "frames": len(res["frames"]), "iocb": res["iocb"]}


# ---------------------------------------------------------------- C04

def time_bound(res):
    t = res["timeouts"]
    per = max(t["apdu"], t["seg"], t["b_seg"], t["b_app"])
    # every frame seen may postpone a deadline by at most one timeout; silence
    # costs at most (retries+1) expiries on each side
    return (len(res["frames"]) + t["retries"] + t["b_retries"] + 4) * per + 1.0


def check_c04(sc, res):
    """-> list of (kind, what)"""
    out = []
    n = sc.get("requests", 1)
    if not res["terminated"]:
        out.append(("nontermination", "stack still busy after the loop limit (unbounded activity)"))
        return out
    refused = len(res["raised"])
    want = n + len(sc.get("extra_requests", [])) + (sc.get("reenter", {}).get("count", 1) if sc.get("reenter") and sc.get("iocb") else 0) - refused
    got = len(res["conf"])
    if sc.get("iocb"):
        for i, e in enumerate(res["iocb"]):
            if e["callbacks"] != 1:
                out.append(("iocb-callbacks", "IOCB #%d called back %d times" % (i, e["callbacks"])))
    if got != want:
        out.append(("outcome-count", "%d request(s) submitted, %d outcome(s) delivered to the application" % (want, got)))
    for c in res["conf"]:
        if c[1] not in ("ack", "simple", "error", "reject", "abort"):
            out.append(("outcome-kind", "outcome of kind %s" % c[1]))
    if sc.get("background"):
        # the run lasts until the horizon; judge each outcome's own time instead
        late = [c for c in res["conf"] if c[0] > time_bound(res)]
        if late:
            out.append(("time-bound", "an outcome was delivered after %.1f s, bound %.1f s" % (late[0][0], time_bound(res))))
    elif res["elapsed"] > time_bound(res):
        out.append(("time-bound", "took %.1f s, bound %.1f s" % (res["elapsed"], time_bound(res))))
    r = res["residue"]
    if r["a"]["client"] or r["a"]["server"] or r["b"]["client"] or r["b"]["server"] or r["a"].get("queues"):
        out.append(("residue-transaction", "transactions left at quiescence: %r" % (r,)))
    if r["heap"]:
        out.append(("residue-timer", "%d timer(s) still scheduled at quiescence" % r["heap"]))
    # nothing on the wire FROM the client about the invoke id after its outcome was delivered
    for c in res["conf"]:
        t_done, inv = c[0], c[2]
        for f in res["frames"]:
            if f[5] > t_done + 1e-9 and f[1] == 10:
                h = _e2e.decode_apdu_header(f[3])
                if h and h.get("invoke") == inv and n == 1:
                    out.append(("late-frame", "client emitted frame #%d for invoke %s at t=%.3f after the outcome at t=%.3f" % (f[0], inv, f[5], t_done)))
                    break
    return out


# ---------------------------------------------------------------- C05

def check_c05(sc, res, baseline_ok=None):
    out = []
    if not res["terminated"]:
        out.append(("nontermination", "transfer never completes", ))
        return out
    for i in res["ind"]:
        if i[2] != res["req_payload"]:
            out.append(("request-payload", "server application received %r octets, client submitted %r" % (
                None if i[2] is None else len(i[2]), None if res["req_payload"] is None else len(res["req_payload"]))))
    for c in res["conf"]:
        if c[1] == "ack" and c[3] != res["resp_payload"]:
            out.append(("response-payload", "client received %r octets, server submitted %d (content differs)" % (
                None if c[3] is None else len(c[3]), len(res["resp_payload"]))))
    out += wire_checks(res)
    nfaults = len(sc.get("faults", {}))
    good = {"ack": "ack", "simple": "simple"}.get(sc.get("mode", "ack"))
    if baseline_ok and nfaults == 1 and good:
        if not any(c[1] == good for c in res["conf"]):
            out.append(("single-fault", "one fault %r turned a successful transfer into %r" % (
                sc["faults"], [(c[1], c[3] if not isinstance(c[3], bytes) else len(c[3])) for c in res["conf"]])))
    return out


def wire_checks(res):
    """sequence numbers consecutive mod 256, more-follows correct, window respected"""
    out = []
    # per direction (sender, pdu type) collect segment bodies in order of FIRST appearance
    for sender, ptype in ((10, 0), (20, 3)):
        first = {}
        order = []
        last_new = None
        total_more_false = None
        inflight = set()
        window = None
        proposed = None
        for f in res["frames"]:
            h = _e2e.decode_apdu_header(f[3])
            if not h:
                continue
            if f[1] == sender and h.get("type") == ptype and h.get("seg"):
                seq = h["seq"]
                key = (h["invoke"], len(order) // 256 if False else 0)
                body = bytes(h["body"])
                if h["win"] < 1 or h["win"] > 127:
                    out.append(("window-range", "segment offers window %d" % h["win"]))
                if proposed is None and seq == 0:
                    proposed = h["win"]
                # a NEW segment is one whose seq == (last_new+1) % 256
                expected_new = 0 if last_new is None else (last_new + 1) % 256
                idx_known = [i for i, (s, b_, m) in enumerate(order) if s == seq and b_ == body and m == h["mor"]]
                if seq == expected_new and not (idx_known and idx_known[-1] >= len(order) - 256 and False):
                    # could be new or a retransmission of an identical earlier one; treat as new only
                    # if no identical segment within the last 255 was recorded
                    recent = [i for i in idx_known if i >= len(order) - 255]
                    if not recent:
                        order.append((seq, body, h["mor"]))
                        last_new = seq
                        if total_more_false is not None:
                            out.append(("more-follows", "segment after the one that cleared more-follows"))
                        if not h["mor"]:
                            total_more_false = len(order) - 1
                        inflight.add(len(order) - 1)
                        if window is not None and len(inflight) > window:
                            out.append(("window", "%d unacknowledged segments, agreed window %d" % (len(inflight), window)))
                        continue
                # otherwise must be a retransmission identical to an earlier segment
                if not idx_known:
                    out.append(("sequence", "sender %d emitted segment seq=%d (more=%s) that is neither the next one nor a retransmission" % (sender, seq, h["mor"])))
            elif f[2] == str(sender) and h.get("type") == 4 and bool(h.get("srv")) == (ptype == 0):
                # any segment ack (positive or negative, delivered or not) answers with a window: it may not
                # exceed what this sender proposed in its first segment
                if proposed is not None and not (1 <= h["win"] <= proposed):
                    out.append(("window-granted", "a SegmentAck (nak=%s) toward sender %d carries window %d; the sender proposed %d" % (
                        h.get("nak"), sender, h["win"], proposed)))
            if f[2] == str(sender) and h.get("type") == 4 and f[4] != "drop":
                # a segment ack reaching the sender: everything up to seq is acknowledged
                window = h["win"]
                ack = h["seq"]
                inflight = {i for i in inflight if ((order[i][0] - ack - 1) % 256) < 128 and order[i][0] != ack}
        # reassembled bytes == concatenation of first appearances (checked against payload by caller via confirm)
    return out


# ---------------------------------------------------------------- C12 (wire)

def check_c12(sc, res):
    out = []
    cap = {10: sc.get("a", {}), 20: sc.get("b", {})}
    for f in res["frames"]:
        h = _e2e.decode_apdu_header(f[3])
        if not h or "type" not in h:
            continue
        dst = f[2]
        try:
            dst = int(dst)
        except ValueError:
            continue
        limit = cap.get(dst, {}).get("max_apdu", 1024)
        if h["len"] > limit:
            out.append(("apdu-too-long", "APDU of %d octets sent to a peer that accepts %d" % (h["len"], limit)))
        if h.get("seg"):
            seg = cap.get(dst, {}).get("seg", "segmentedBoth")
            if seg not in ("segmentedBoth", "segmentedReceive"):
                out.append(("segmented-to-nonreceiver", "segment sent to a peer with %s" % seg))
    return out
