"""
C17 — a commandable value equals its highest-priority command or the default.

Model = lean/Drv/C17.lean over Model.Commandable (values are natural-number
codes; the harness keeps, per datatype, a table  code <-> Python value).

Correspondence streams (each for EVERY class of the generated table):
  exh-direct   all presentValue command sequences of length <= 4 (quick) / 5
               (thorough) over 4 priorities x 3 values x {write, relinquish},
               fresh object per sequence, `obj.WriteProperty(...)` directly;
               digest (error, presentValue, 16 slots, timer) after EVERY command
  exh-wire     the same sequences (length <= 3 quick / 4 thorough) as encoded +
               decoded WritePropertyRequest APDUs into a real Application
               (ReadWritePropertyServices) behind the real
               ApplicationServiceAccessPoint; the reply PDU after every write,
               presentValue + priorityArray read back with ReadPropertyRequest
               after the last one (every prefix is itself a sequence of the set)
  rand-direct  random length-100 histories over all 16 priorities + None with
  rand-wire    refused commands mixed in (priority 0, 17, -1, 255, 2^31; whole
               array; array-index writes of priorityArray incl. 0 and 17; values
               of the wrong type; enumeration numbers outside the table)
  minonoff     binary classes, minimumOnTime/minimumOffTime 0..10 s, commands and
               clock movements interleaved; direct: one TaskManager step per
               `tick` (the real get_next_task / process_task under harness.vt);
               wire: real core.run in virtual time (`vt.advance`)
  rand-e2e,    two complete stacks (Application/ASAP/SMAP/NSAP/Node) on a VLAN: the
  minonoff-e2e client sends confirmed WriteProperty/ReadProperty requests to the server
               holding the object, the real core.run moves the frames in virtual time

  monitors-*   user monitors appended to obj._property_monitors['presentValue'] whose
               callbacks command the object again at other priorities (callbacks as data,
               bounded by budgets), all 20 classes, direct and APDU
  resend-wireobj  the decoded WritePropertyRequest OBJECT handed to Application.indication,
               the same object again whenever the command recurs, one Any shared by the
               requests with the same value (few distinct commands, many repetitions)
  cov-e2e      SubscribeCOV (confirmed/unconfirmed, cancel, lifetime expiry) through the
               real ChangeOfValueServices interleaved with commands and clock movements
               on the binary classes with minimum times, two complete stacks per history

Implementation-side oracle (no model involved), after every command:
  * presentValue == value of the lowest-numbered non-null slot as READ from
    priorityArray, else relinquishDefault;
  * each slot == the last value commanded at that priority (None counts as 16);
  * a write with priority outside 1..16 / to slot 0 raises and changes nothing;
    an accepted one raises nothing;
  * every slot is a well-formed PriorityValue (null xor the class's choice);
  * min on/off: a change of presentValue to v at t0 puts v into slot 6 until
    t0 + (minimumOnTime if v is active else minimumOffTime) — checked at every
    observation, as long as no command at priority <= 6 intervened — and the
    slot is released afterwards.
"""
import itertools, os, struct, json
from . import core

LEAN_TARGETS = ["BacVerif.Props.C17", "drv_c17"]
LEANCHECKER = ["BacVerif.Props.C17"]
LEVEL = "proof"
RULE = ("per commandable class: all presentValue command sequences up to length 4 (quick) / 5 (thorough) over "
        "4 priorities (None, 16 and two seed-chosen ones) x 3 values (2 for BinaryPV) x {write, relinquish}, "
        "directly; up to length 3 / 4 as WriteProperty/ReadProperty APDUs (quick tier: per (datatype, mix-in) group "
        "one class gets full depth directly, or as APDUs, or neither, rotating over the groups with the seed, "
        "everything else one command less; thorough: full depth both ways for all 20); random length-100 histories over "
        "None + 1..16 with refused commands mixed in, both ways; min on/off times 0..10 s with clock movements. "
        "distinct = distinct (stream kind, class family, tuple of model branch classes of the last <=3 steps) "
        "signatures; trivial = the empty sequence")
TRUSTED = ["lean/BacVerif/Model/Commandable.lean is a hand transcription of Commandable._Commando.WriteProperty, "
           "_highest_priority_value, MinOnOffTask; tied by the exh/rand/minonoff correspondence streams",
           "value <-> code tables of harness/c17.py (Python == on the listed values is injective on codes)",
           "harness/vt.py virtual clock; TaskManager.get_next_task/process_task are the repository's own"]
ASSUMPTIONS = ["values commanded are valid values of the object's datatype or one of the two modelled invalid "
               "kinds (wrong type; enumeration number outside the table)",
               "relinquishDefault is a valid value and is not changed during a history",
               "min on/off theorems: no user command addresses priority 6 while the mechanism is configured",
               "objects with minimum on/off times are constructed with an explicit presentValue"]

BASE = 1_000_000_000.0
BAD_TYPE = 1000       # protocol convention with lean/Drv/C17.lean
BAD_ENUM = 1001


def GENERATED(ctx):
    from translator import c17 as tr
    tr.generate(core.LEAN)


# ---------------------------------------------------------------- value tables

def _key(v):
    """canonical, hashable rendering of a Python value (content, not identity)"""
    if isinstance(v, bool):
        return ("b", v)
    if isinstance(v, float):
        return ("f", struct.unpack(">Q", struct.pack(">d", v))[0])
    if isinstance(v, int):
        return ("i", v)
    if isinstance(v, str):
        return ("s", v)
    if isinstance(v, (bytes, bytearray)):
        return ("o", bytes(v).hex())
    if isinstance(v, (tuple, list)):
        return ("t",) + tuple(_key(x) for x in v)
    if v is None:
        return ("none",)
    if type(v).__name__ == "DateTime":
        return ("dt", _key(v.date), _key(v.time))
    if hasattr(v, "value"):
        return ("w", type(v).__name__, _key(v.value))
    return ("?", type(v).__name__, repr(v))


_ENV = None


def env():
    """classes, datatypes, value tables — built once per process from the LIVE modules"""
    global _ENV
    if _ENV is not None:
        return _ENV
    from translator import c17 as tr
    import bacpypes.local.object as lo
    from bacpypes.object import register_object_type
    from bacpypes.basetypes import DateTime
    from bacpypes import primitivedata as pd
    t = tr.tables()
    dtv = {
        "Real": [0.0, 1.5, -2.25, 100.0, 65536.0],        # exact in single precision
        "Double": [0.0, 1.5, -2.25, 1.0e300, 7.0],
        "Integer": [0, -5, 7, 2147483647, -2147483648],
        "Unsigned": [0, 1, 2, 70000, 4294967295],
        "BinaryPV": ["inactive", "active"],
        "DoorValue": ["lock", "unlock", "pulseUnlock", "extendedPulseUnlock"],
        "BitString": [[], [1, 0, 1], [0], [1, 1, 1, 1, 1, 1, 1, 1, 0], [1]],
        "CharacterString": ["", "a", "héllo", "x" * 20, "A"],
        "OctetString": [b"", b"\x01", b"\xff\x00", bytes(range(16)), b"\x00"],
        "Date": [(255, 255, 255, 255), (120, 1, 2, 3), (99, 12, 31, 5), (0, 1, 1, 1), (255, 13, 32, 255)],
        "Time": [(255, 255, 255, 255), (1, 2, 3, 4), (23, 59, 59, 99), (0, 0, 0, 0), (12, 255, 255, 255)],
    }
    dts = [((120, 1, 2, 3), (1, 2, 3, 4)), ((99, 12, 31, 5), (23, 59, 59, 99)),
           ((255, 255, 255, 255), (255, 255, 255, 255)), ((0, 1, 1, 1), (0, 0, 0, 0)),
           ((120, 1, 2, 3), (0, 0, 0, 0))]
    classes = {}
    for c in t["classes"]:
        cls = getattr(lo, c["name"])
        register_object_type(cls, vendor_id=999)
        dt = cls._properties["presentValue"].datatype
        name = c["datatype"]
        if name == "DateTime":
            mk = [lambda d=d, tm=tm: DateTime(date=d, time=tm) for d, tm in dts]
        elif name in dtv:
            mk = [lambda v=v: v for v in dtv[name]]
        else:
            raise core.Infra("no value table for datatype %s of %s (extend harness/c17.py)" % (name, c["name"]))
        keys = [_key(m()) for m in mk]
        if len(set(keys)) != len(keys):
            raise core.Infra("value table of %s is not injective" % name)
        wrong = "not-a-value" if name != "CharacterString" else 12345
        if name == "BitString":
            wrong = 3.5
        classes[c["name"]] = {
            "meta": c, "cls": cls, "dt": dt, "mk": mk, "code": {k: i for i, k in enumerate(keys)},
            "wrong": wrong, "nvals": len(mk),
            "rev_enum": ({v: k for k, v in dt.enumerations.items()} if c["enumerated"] else None),
        }
    import logging
    lg = logging.getLogger("bacpypes")           # Application.indication logs the exceptions it maps
    lg.addHandler(logging.NullHandler())
    lg.propagate = False
    _ENV = {"tables": t, "classes": classes, "names": [c["name"] for c in t["classes"]]}
    return _ENV


def family(ci):
    m = ci["meta"]
    return "minonoff" if m["minOnOff"] else "enum" if m["enumerated"] else "atomic" if m["atomic"] else "constructed"


_INTERN = {}


def pyval(ci, code, intern=False):
    """Python value for a code (None = relinquish).  intern=True: one instance per code
    (constructed datatypes have no __eq__: `value == current_value` in WriteProperty is
    an identity test there, so a fresh equal DateTime counts as a change and the
    monitors are called; with one instance per code identity and content agree)"""
    if intern and isinstance(code, int) and code < 1000:
        k = (ci["meta"]["name"], code)
        if k not in _INTERN:
            _INTERN[k] = ci["mk"][code]()
        return _INTERN[k]
    if code is None:
        return ()
    if code == BAD_TYPE:
        return ci["wrong"]
    if code == BAD_ENUM:
        return 77
    return ci["mk"][code]()


def code_of(ci, v, slot=False):
    """code for a Python value read back from the object"""
    if slot and ci["rev_enum"] is not None and isinstance(v, int) and not isinstance(v, bool):
        v = ci["rev_enum"].get(v, v)          # slots of enumerated classes hold the number
    k = _key(v)
    c = ci["code"].get(k)
    return c if c is not None else "?" + repr(k)


# ---------------------------------------------------------------- error kinds

def exc_kind(e):
    from bacpypes.errors import ExecutionError
    if isinstance(e, ExecutionError):
        return "exec:%s:%s" % (e.errorClass, e.errorCode)
    return core.exc_kind(e)


# ---------------------------------------------------------------- the object under test, direct access

class MonitorBoom(Exception):
    """what a raising user monitor raises"""


BOOM = "python:MonitorBoom"


class Direct:
    """one real *CmdObject, driven through obj.WriteProperty / obj.ReadProperty"""
    kind = "direct"

    def __init__(self, cname, cfg, fast=False):
        from .vt import VT
        self.vt = VT.install()
        if self.vt.tm.tasks or self.vt.now != BASE:
            self.vt.reset(BASE)
        self.ci = env()["classes"][cname]
        self.cname = cname
        self.cfg = cfg
        self.fast = fast
        self.intern = bool(cfg.get("rules")) and not self.ci["meta"]["atomic"]
        self.obj = make_object(self.ci, cfg, fast)
        self.left = []                   # firings left per user monitor
        self.fired = []                  # (priority, code) commanded from inside callbacks, in order
        self.install_rules(cfg.get("rules") or [])

    def install_rules(self, rules):
        """user monitors of presentValue, the documented way
        (obj._property_monitors['presentValue'].append(fn)); a callback is data:
        [trigger code|None, priority|None, value code|None, budget(, raises)] = "when told the value
        became <trigger> (None: on any change) and firings are left, command <value> at
        <priority> on the same object from inside the callback"."""
        ci, obj = self.ci, self.obj
        for k, rule in enumerate(rules):
            trg, prio, val, budget = rule[:4]
            raises = len(rule) > 4 and bool(rule[4])
            self.left.append(budget)

            def cb(old, new, k=k, trg=trg, prio=prio, val=val, raises=raises):
                if self.left[k] > 0 and (trg is None or code_of(ci, new) == trg):
                    self.left[k] -= 1
                    if raises:
                        raise MonitorBoom("user monitor %d" % k)
                    entry = [prio, val]
                    self.fired.append(entry)          # in the order the commands are ISSUED
                    try:
                        obj.WriteProperty("presentValue", pyval(ci, val, self.intern), priority=prio)
                    except MonitorBoom:
                        raise                         # raised by a monitor AFTER the slot was written
                    except Exception:
                        self.fired.remove(entry)      # a refused one does not count
                        raise
            obj._property_monitors["presentValue"].append(cb)

    def cov(self, confirmed, lifetime):
        return "python:NoCovHere"

    # -- commands
    def write(self, prop, code, ai, pr):
        p = {"pv": "presentValue", "pa": "priorityArray", "other": "description"}[prop]
        try:
            self.obj.WriteProperty(p, pyval(self.ci, code, self.intern), arrayIndex=ai, priority=pr)
            return None
        except Exception as e:
            return exc_kind(e)

    def tick(self, t_us):
        """one look of the REAL TaskManager at the clock"""
        vt = self.vt
        vt.now = max(vt.now, BASE + t_us / 1e6)
        try:
            task, _delta = vt.tm.get_next_task()
            if task is not None:
                vt.tm.process_task(task)
            return None
        except Exception as e:
            return exc_kind(e)

    def advance(self, t_us):
        ok = self.vt.run(until=BASE + t_us / 1e6)
        if not ok:
            return "python:Overrun"
        if self.vt.errors:
            k = "python:" + self.vt.errors[0][0]
            self.vt.errors = []
            return k
        return None

    # -- observation
    def read(self):
        """(pv code, [slot code|None|'corrupt…'] * 16) by direct ReadProperty"""
        ci = self.ci
        choice = ci["meta"]["pvChoice"]
        pv = code_of(ci, self.obj.ReadProperty("presentValue"))
        n = self.obj.ReadProperty("priorityArray", 0)
        if n != 16:
            return pv, ["corrupt:length=%r" % (n,)] * 16
        if self.fast:
            arr = self.obj.ReadProperty("priorityArray")
            return pv, [slot_code(ci, arr[i], choice) for i in range(1, 17)]
        return pv, [slot_code(ci, self.obj.ReadProperty("priorityArray", i), choice) for i in range(1, 17)]

    def deadline(self):
        pend = [(w, t) for (w, t) in self.vt.pending()]
        if not pend:
            return None
        if len(pend) > 1:
            return "multiple:%d" % len(pend)
        return int(round((pend[0][0] - BASE) * 1e6))

    def now_us(self):
        return int(round((self.vt.now - BASE) * 1e6))


_CHOICES = None


def _choices():
    global _CHOICES
    _CHOICES = frozenset(env()["tables"]["choices"])
    return _CHOICES


def slot_code(ci, pvx, choice):
    if type(pvx).__name__ != "PriorityValue":
        return "corrupt:type=%s" % type(pvx).__name__
    names = _CHOICES or _choices()
    set_ = [k for k, v in pvx.__dict__.items() if v is not None and k in names]
    if len(set_) > 1:
        set_.sort()
    if set_ == ["null"]:
        return None if pvx.null == () else "corrupt:null=%r" % (pvx.null,)
    if set_ == [choice]:
        return code_of(ci, getattr(pvx, choice), slot=True)
    return "corrupt:set=%s" % ",".join(set_)


def make_object(ci, cfg, fast=False):
    kw = dict(objectIdentifier=(ci["cls"].objectType, 1), objectName="obj")
    if fast:
        # the exhaustive streams build several hundred thousand objects: hand the
        # constructor sixteen fresh nulls instead of letting PriorityArray() deep-copy
        # its prototype sixteen times (same content: check_construct compares)
        from bacpypes.basetypes import PriorityArray, PriorityValue
        tmpl = PriorityValue(null=()).__dict__
        vals = []
        for _ in range(16):
            x = PriorityValue.__new__(PriorityValue)
            x.__dict__.update(tmpl)
            vals.append(x)
        kw["priorityArray"] = PriorityArray(vals)
    if cfg.get("explicit") or ci["meta"]["minOnOff"] or not ci["meta"]["atomic"]:
        # constructed datatypes have no encodable built-in default; objects with
        # minimum times need the present value before the monitor is attached
        intern = bool(cfg.get("rules")) and not ci["meta"]["atomic"]
        kw["presentValue"] = pyval(ci, cfg["pv"], intern)
        kw["relinquishDefault"] = pyval(ci, cfg["def"], intern)
    if ci["meta"]["minOnOff"]:
        if cfg.get("on") is not None:
            kw["minimumOnTime"] = cfg["on"]
        if cfg.get("off") is not None:
            kw["minimumOffTime"] = cfg["off"]
    return ci["cls"](**kw)


# ---------------------------------------------------------------- the object under test, through APDUs

_WIRE = None


def wire_classes():
    global _WIRE
    if _WIRE is not None:
        return _WIRE
    from bacpypes.comm import bind, ServiceAccessPoint
    from bacpypes.app import Application
    from bacpypes.appservice import ApplicationServiceAccessPoint
    from bacpypes.service.object import ReadWritePropertyServices
    from bacpypes.local.device import LocalDeviceObject

    class App(Application, ReadWritePropertyServices):
        pass

    class Below(ServiceAccessPoint):
        """stands where the StateMachineAccessPoint is: hands decoded
        ConfirmedRequestPDUs up, collects what comes down"""
        def __init__(self):
            ServiceAccessPoint.__init__(self)
            self.down = []

        def sap_indication(self, apdu):      # a request from the application
            self.down.append(apdu)

        def sap_confirmation(self, apdu):    # a response from the application
            self.down.append(apdu)

    def build():
        dev = LocalDeviceObject(objectName="dev", objectIdentifier=("device", 1),
                                maxApduLengthAccepted=1024, segmentationSupported="noSegmentation",
                                vendorIdentifier=999)
        app = App(dev)
        asap = ApplicationServiceAccessPoint()
        below = Below()
        bind(app, asap, below)
        return app, asap, below
    _WIRE = build
    return _WIRE


class Wire(Direct):
    """the same object inside an Application; every access is an encoded and
    re-decoded confirmed-request APDU handed to ApplicationServiceAccessPoint"""
    kind = "wire"

    _stack = None

    def __init__(self, cname, cfg, fast=False):
        Direct.__init__(self, cname, cfg, fast)
        if Wire._stack is None:
            Wire._stack = wire_classes()()
        self.app, self.asap, self.below = Wire._stack
        # one application per process; the object of the previous history leaves
        for o in [o for o in self.app.iter_objects() if o is not self.app.localDevice]:
            self.app.delete_object(o)
        self.app.add_object(self.obj)
        self.invoke = 0
        self.oid = (self.ci["cls"].objectType, 1)

    def _roundtrip(self, req):
        """request object -> octets -> ConfirmedRequestPDU -> ASAP; returns reply PDU (re-decoded from octets)"""
        from bacpypes.pdu import Address, PDU
        from bacpypes.apdu import APDU, ConfirmedRequestPDU, apdu_types
        self.invoke = (self.invoke + 1) % 256
        req.apduInvokeID = self.invoke
        req.pduSource = Address(5)
        try:
            x = ConfirmedRequestPDU()
            req.encode(x)
            x.apduMaxSegs = 0        # header codes: unspecified segments, 1024 octets
            x.apduMaxResp = 4
            a = APDU()
            x.encode(a)
            p = PDU()
            a.encode(p)
            octets = bytes(p.pduData)
        except Exception as e:
            # the request cannot be put on the wire at all (e.g. an Integer beyond 32 bits)
            return ("unencodable:" + type(e).__name__, None)
        # what the server side of the stack does with the octets
        b = APDU()
        b.decode(PDU(octets, source=Address(5)))
        c = apdu_types[b.apduType]()
        c.decode(b)
        del self.below.down[:]
        self.below.sap_request(c)            # -> ASAP.indication -> Application.indication
        if len(self.below.down) != 1:
            return ("replies:%d" % len(self.below.down), None)
        r = self.below.down[0]
        a2 = APDU()
        r.encode(a2)
        p2 = PDU()
        a2.encode(p2)
        b2 = APDU()
        b2.decode(PDU(bytes(p2.pduData)))
        r2 = apdu_types[b2.apduType]()
        r2.decode(b2)
        if r2.apduInvokeID != self.invoke:
            return ("invoke-mismatch", None)
        return (None, r2)

    def _outcome(self, r):
        from bacpypes.apdu import SimpleAckPDU, ComplexAckPDU, ErrorPDU, RejectPDU, AbortPDU, Error
        from bacpypes.basetypes import ErrorType
        if isinstance(r, (SimpleAckPDU, ComplexAckPDU)):
            return None
        if isinstance(r, ErrorPDU):
            e = r
            if not isinstance(r, Error):
                e = Error()
                e.decode(r)
            return "exec:%s:%s" % (e.errorClass, e.errorCode)
        if isinstance(r, RejectPDU):
            # a value of the wrong type is turned down with Reject invalid-parameter-datatype (3)
            # by the object or invalid-tag (4) by the service's cast_out, before the object is asked
            return "invalidDatatype" if r.apduAbortRejectReason in (3, 4) else "reject:%s" % r.apduAbortRejectReason
        if isinstance(r, AbortPDU):
            return "abort:%s" % r.apduAbortRejectReason
        return "python:" + type(r).__name__

    def write(self, prop, code, ai, pr):
        from bacpypes.apdu import WritePropertyRequest
        from bacpypes.constructeddata import Any
        from bacpypes.primitivedata import Null, CharacterString, Real, Enumerated, Unsigned
        ci = self.ci
        p = {"pv": "presentValue", "pa": "priorityArray", "other": "description"}[prop]
        req = WritePropertyRequest(objectIdentifier=self.oid, propertyIdentifier=p)
        if ai is not None:
            req.propertyArrayIndex = ai
        if pr is not None:
            req.priority = pr
        req.propertyValue = Any()
        try:
            if code is None:
                req.propertyValue.cast_in(Null())
            elif code == BAD_TYPE:
                w = ci["wrong"]
                req.propertyValue.cast_in(CharacterString(w) if isinstance(w, str) else
                                          Real(w) if isinstance(w, float) else Unsigned(w))
            elif code == BAD_ENUM:
                req.propertyValue.cast_in(Enumerated(77))
            else:
                v = pyval(ci, code)
                req.propertyValue.cast_in(v if not ci["meta"]["atomic"] else ci["dt"](v))
        except Exception as e:
            return "unencodable:" + type(e).__name__
        err, r = self._send_write(req, (prop, code, ai, pr))
        out = err if err else self._outcome(r)
        if out == "exec:device:operationalProblem" and any(len(x) > 4 and x[4] for x in (self.cfg.get("rules") or [])):
            # Application.indication turns any other exception of the service into this
            # error reply; the only one that can occur in these histories is the monitor's
            out = BOOM
        return out

    def _send_write(self, req, key):
        return self._roundtrip(req)

    def read(self):
        from bacpypes.apdu import ReadPropertyRequest, ReadPropertyACK, ComplexAckPDU
        from bacpypes.basetypes import PriorityValue
        from bacpypes.constructeddata import ArrayOf
        ci = self.ci
        choice = ci["meta"]["pvChoice"]
        err, r = self._roundtrip(ReadPropertyRequest(objectIdentifier=self.oid, propertyIdentifier="presentValue"))
        if err or not isinstance(r, ComplexAckPDU):
            pv = "unreadable:%s" % (err or self._outcome(r))
        else:
            ack = self._ack(r)
            pv = code_of(ci, ack.propertyValue.cast_out(ci["dt"]))
        err, r = self._roundtrip(ReadPropertyRequest(objectIdentifier=self.oid, propertyIdentifier="priorityArray"))
        if err or not isinstance(r, ComplexAckPDU):
            return pv, ["unreadable:%s" % (err or self._outcome(r))] * 16
        ack = self._ack(r)
        # decode as a plain array of PriorityValue: PriorityArray() would first
        # deep-copy its prototype sixteen times (4 ms); the length is checked below
        arr = ack.propertyValue.cast_out(ArrayOf(PriorityValue))
        vals = list(arr)                 # cast_out of an ArrayOf returns value[1:]
        if len(vals) != 16:
            return pv, ["corrupt:length=%d" % len(vals)] * 16
        return pv, [slot_code(ci, x, choice) for x in vals]


    @staticmethod
    def _ack(r):
        from bacpypes.apdu import ReadPropertyACK
        if isinstance(r, ReadPropertyACK):
            return r
        ack = ReadPropertyACK()
        ack.decode(r)
        return ack


_E2E = None


def e2e_stack():
    """two complete stacks (Application / ASAP / SMAP / NSAP+NSE / vlan.Node) on one
    VLAN, wired as the repository's tests wire them; built once per process"""
    global _E2E
    if _E2E is not None:
        return _E2E
    from bacpypes.comm import bind
    from bacpypes.pdu import Address, LocalBroadcast
    from bacpypes.vlan import Network, Node
    from bacpypes.app import Application
    from bacpypes.appservice import StateMachineAccessPoint, ApplicationServiceAccessPoint
    from bacpypes.netservice import NetworkServiceAccessPoint, NetworkServiceElement
    from bacpypes.service.object import ReadWritePropertyServices
    from bacpypes.local.device import LocalDeviceObject

    class NSE(NetworkServiceElement):
        _startup_disabled = True

    from bacpypes.service.cov import ChangeOfValueServices
    from bacpypes.apdu import SimpleAckPDU

    from bacpypes.app import ApplicationIOController

    class App(ApplicationIOController, ReadWritePropertyServices, ChangeOfValueServices):
        # (confirmed COV notifications go out through request_io)
        def __init__(self, *a, **kw):
            ApplicationIOController.__init__(self, *a, **kw)
            self.confirmations = []
            self.notifications = 0

        def confirmation(self, apdu):
            self.confirmations.append(apdu)
            ApplicationIOController.confirmation(self, apdu)

        # the subscriber side: take the notifications
        def do_ConfirmedCOVNotificationRequest(self, apdu):
            self.notifications += 1
            self.response(SimpleAckPDU(context=apdu))

        def do_UnconfirmedCOVNotificationRequest(self, apdu):
            self.notifications += 1

    def build():
        lan = Network(broadcast_address=LocalBroadcast())
        return (stack(10, lan), stack(20, lan))

    def stack(devid, lan):
        dev = LocalDeviceObject(objectName="dev%d" % devid, objectIdentifier=("device", devid),
                                maxApduLengthAccepted=1024, segmentationSupported="noSegmentation",
                                vendorIdentifier=999)
        app = App(dev)
        asap = ApplicationServiceAccessPoint()
        smap = StateMachineAccessPoint(dev)
        smap.deviceInfoCache = app.deviceInfoCache
        nsap = NetworkServiceAccessPoint()
        nse = NSE()
        bind(nse, nsap)
        bind(app, asap, smap, nsap)
        node = Node(Address(devid), lan)
        nsap.bind(node)
        return app
    _E2E = (build(), build)
    return _E2E


class E2E(Wire):
    """the object in a complete server stack; a complete client stack on the same
    VLAN sends confirmed WriteProperty / ReadProperty requests; the real core.run
    moves the frames (virtual time does not advance while it does)"""
    kind = "e2e"

    def __init__(self, cname, cfg, fast=False):
        Direct.__init__(self, cname, cfg, fast)
        shared, build = e2e_stack()
        # histories with COV subscriptions get stacks of their own (subscriptions live
        # in the application), the others share one pair per process
        self.client, self.app = build() if self.fresh_stacks else shared
        for o in [o for o in self.app.iter_objects() if o is not self.app.localDevice]:
            self.app.delete_object(o)
        self.app.add_object(self.obj)
        self.oid = (self.ci["cls"].objectType, 1)

    fresh_stacks = False

    def cov(self, confirmed, lifetime):
        """SubscribeCOV from the client stack: (None, None) cancels"""
        from bacpypes.apdu import SubscribeCOVRequest
        req = SubscribeCOVRequest(subscriberProcessIdentifier=7, monitoredObjectIdentifier=self.oid)
        if confirmed is not None:
            req.issueConfirmedNotifications = bool(confirmed)
        if lifetime is not None:
            req.lifetime = lifetime
        err, r = self._roundtrip(req)
        return err if err else self._outcome(r)

    def _roundtrip(self, req):
        from bacpypes.pdu import Address
        req.pduDestination = Address(20)
        from bacpypes.iocb import IOCB
        del self.client.confirmations[:]
        try:
            iocb = IOCB(req)
            self.client.request_io(iocb)
        except Exception as e:
            return ("client:" + type(e).__name__, None)
        if not self.vt.run(until=self.vt.now):
            return ("overrun", None)
        if self.vt.errors:
            k = "python:" + self.vt.errors[0][0]
            self.vt.errors = []
            return (k, None)
        if len(self.client.confirmations) != 1:
            return ("confirmations:%d" % len(self.client.confirmations), None)
        r = iocb.ioResponse if iocb.ioResponse is not None else iocb.ioError
        if r is None or r is not self.client.confirmations[0]:
            return ("iocb-incomplete", None)
        return (None, r)

    def deadline(self):
        """only the object's own task counts (the stacks own tasks of their own)"""
        t = getattr(self.obj, "_min_on_off_task", None)
        if t is None or not t.isScheduled:
            return None
        return int(round((t.taskTime - BASE) * 1e6))


class WireObj(Wire):
    """APDU level without the octets: the decoded WritePropertyRequest OBJECT is handed to
    Application.indication, and the same request object is handed in again whenever the
    same command recurs; requests with the same value share one Any.  Every acknowledged
    command must land however often its request object has been processed before."""
    kind = "wireobj"

    def __init__(self, cname, cfg, fast=False):
        Wire.__init__(self, cname, cfg, fast)
        self.kept = {}
        self.anys = {}

    def _send_write(self, req, key):
        from bacpypes.pdu import Address
        prop, code, ai, pr = key
        if key in self.kept:
            req = self.kept[key]
        else:
            if code in self.anys:
                req.propertyValue = self.anys[code]
            else:
                self.anys[code] = req.propertyValue
            self.kept[key] = req
        self.invoke = (self.invoke + 1) % 256
        req.apduInvokeID = self.invoke
        req.pduSource = Address(5)
        del self.below.down[:]
        try:
            self.app.indication(req)
        except Exception as e:
            k = exc_kind(e)
            # the reject family is what ApplicationServiceAccessPoint turns into a Reject PDU
            return (("invalidDatatype" if k in ("invalidDatatype", "invalidTag") else k), None)
        if len(self.below.down) != 1:
            return ("replies:%d" % len(self.below.down), None)
        return (None, self.below.down[0])


class E2ECov(E2E):
    kind = "e2ecov"
    fresh_stacks = True


def make_target(kind, cname, cfg, fast=False):
    return {"wire": Wire, "wireobj": WireObj, "e2e": E2E, "e2ecov": E2ECov, "direct": Direct}[kind](cname, cfg, fast)


# ---------------------------------------------------------------- the oracle (property on the real object)

class Oracle:
    """evaluates the property on what is READ from the object after each command"""

    def __init__(self, ctx, target, cfg, case_fn):
        self.ctx = ctx
        self.t = target
        self.cfg = cfg
        self.case_fn = case_fn           # () -> replayable case (history so far)
        self.last = {}                   # priority -> code | None, as commanded
        self.timed = target.ci["meta"]["minOnOff"] and ((cfg.get("on") or 0) > 0 or (cfg.get("off") or 0) > 0)
        self.prev = None                 # previous (pv, slots)
        self.hold = None                 # (value code, t0, until)
        self.rel = None                  # end of the most recent hold started (us)
        self.n_fail = 0

    def fail(self, kind, what, **f):
        self.n_fail += 1
        if self.n_fail <= 3:
            self.ctx.fail(kind, self.case_fn(), what, cls=self.t.cname, access=self.t.kind, **f)

    def start(self, pv, slots):
        self.prev = (pv, slots)
        if slots != [None] * 16:
            self.fail("initial", "fresh object does not start with sixteen nulls: %r" % (slots,))
        if pv != self.cfg["pv"]:
            self.fail("initial", "fresh object has present value %r, configured %r" % (pv, self.cfg["pv"]))

    def hold_time(self, code):
        # BinaryPV: code 1 = active -> minimumOnTime, code 0 = inactive -> minimumOffTime
        return (self.cfg.get("on") or 0) if code == 1 else (self.cfg.get("off") or 0)

    def after(self, ev, err, pv, slots, now_us):
        """ev = ("w", prop, code, ai, pr) | ("t", t_us)"""
        ppv, pslots = self.prev
        cmd_idx = None
        if ev[0] == "w":
            _, prop, code, ai, pr = ev
            # which slot does the property statement say is addressed?
            if prop == "pv":
                idx = 16 if pr is None else pr
                ok_addr = 1 <= idx <= 16
            elif prop == "pa":
                idx = ai
                ok_addr = ai is not None and 1 <= ai <= 16
            else:
                idx, ok_addr = None, False
            valid_value = code is None or isinstance(code, int) and code < 1000
            if prop in ("pv", "pa") and not ok_addr:
                if err is None:
                    self.fail("bad-priority-accepted", "write addressed to %r raised nothing" % (idx,), idx=idx)
                if (pv, slots) != (ppv, pslots):
                    self.fail("refused-but-changed", "refused write (priority/index %r) changed the object: "
                              "%r -> %r" % (idx, (ppv, pslots), (pv, slots)), idx=idx)
            elif prop in ("pv", "pa") and not valid_value:
                if err is None:
                    self.fail("bad-value-accepted", "invalid value accepted at %r" % (idx,), idx=idx)
                if (pv, slots) != (ppv, pslots):
                    self.fail("refused-but-changed", "refused write (invalid value at %r) changed the object: "
                              "%r -> %r" % (idx, (ppv, pslots), (pv, slots)), idx=idx)
            elif prop in ("pv", "pa"):
                if err is not None and err != BOOM:
                    self.fail("good-command-refused", "command at priority %r raised %s" % (idx, err), idx=idx)
                else:
                    self.last[idx] = code
                    cmd_idx = idx
                    if idx <= 6 and self.hold is not None:
                        self.hold = None     # a command at priority <= 6 may legitimately end a hold
        # -- what the user monitors commanded from inside their callbacks during this event
        #    counts as commanded (after the outer command: its slot is written first)
        for (p, v) in self.t.fired:
            fidx = 16 if p is None else p
            self.last[fidx] = v
            if fidx <= 6 and self.hold is not None:
                self.hold = None
            if fidx == 6:
                cmd_idx = 6
        del self.t.fired[:]
        # -- every slot well formed, and equal to the last command at its priority
        for i in range(1, 17):
            s = slots[i - 1]
            if isinstance(s, str):
                self.fail("slot-corrupt", "slot %d reads %s" % (i, s), idx=i)
            elif not (self.timed and i == 6):
                if s != self.last.get(i):
                    self.fail("slot-not-last", "slot %d holds %r, last commanded %r" % (i, s, self.last.get(i)), idx=i)
        # -- present value = first non-null slot as read, else the default
        win = next((s for s in slots if s is not None), self.cfg["def"])
        if pv != win:
            self.fail("present-not-winner", "present value %r, highest-priority command/default %r (slots %r)"
                      % (pv, win, slots))
        # -- minimum on/off
        if self.timed:
            self.check_hold(ev, cmd_idx, pv, slots, ppv, pslots, now_us)
        self.prev = (pv, slots)

    def check_hold(self, ev, cmd_idx, pv, slots, ppv, pslots, now_us):
        """min on/off, on observations only, no model involved.
        hold = (state v, taken at t0, until): v must stay in slot 6 and be the present
               value until `until`, as long as no command at priority <= 6 intervenes;
        rel  = end of the most recent hold that was STARTED: from then on slot 6 must be
               Null at every observation until a new hold starts — whatever was commanded
               in between (an override at priority 1..5 may flip the state, the release
               must still happen: the unchanged code leaves the timer armed)."""
        s6, ps6 = slots[5], pslots[5]
        tm = dict(on=self.cfg.get("on"), off=self.cfg.get("off"))
        if cmd_idx == 6:
            self.rel = None               # the user took the mechanism's slot: nothing to say
        # when did a change of the present value seen at this event happen?
        t_change = now_us if ev[0] in ("w", "t") else None
        if ev[0] == "a" and self.rel is not None and now_us >= self.rel:
            t_change = self.rel           # the real scheduler fired at the deadline
        if self.hold is not None:
            v, t0, until = self.hold
            if now_us < until:
                if pv != v or s6 != v:
                    self.fail("hold-broken", "state %r taken at %d us must be held in slot 6 until %d us; at %d us "
                              "slot 6 = %r, present value = %r" % (v, t0, until, now_us, s6, pv), **tm)
                    self.hold = None
                return
            self.hold = None              # its time is over at this observation
        if pv != ppv:
            if t_change is None:
                self.rel = None           # changed at an unknown instant inside an advance
                return
            h = self.hold_time(pv) * 1000000
            if h > 0:
                self.rel = t_change + h   # a hold starts (the timer is re-armed)
                if now_us < self.rel:
                    if s6 != pv:
                        self.fail("hold-not-taken", "present value became %r at %d us (minimum time %d us) but "
                                  "slot 6 = %r at %d us" % (pv, t_change, h, s6, now_us), **tm)
                    else:
                        self.hold = (pv, t_change, self.rel)
            elif ev[0] == "w" and cmd_idx != 6 and s6 != ps6:
                self.fail("hold-without-time", "present value became %r, whose minimum time is 0, but slot 6 "
                          "went from %r to %r" % (pv, ps6, s6), **tm)
        # "... and release the slot afterwards"
        if self.rel is not None and now_us >= self.rel and self.last.get(6) is None and s6 is not None:
            self.fail("hold-not-released", "the last hold started ended at %d us; at %d us slot 6 still holds %r "
                      "(present value %r)" % (self.rel, now_us, s6, pv), **tm)
            self.rel = None               # reported once per hold


# ---------------------------------------------------------------- running histories

def reset_req(cname, cfg):
    r = {"op": "reset", "cls": cname, "def": cfg["def"], "pv": cfg["pv"], "inactive": 0, "active": 1,
         "on": cfg.get("on") or 0, "off": cfg.get("off") or 0, "rules": cfg.get("rules") or []}
    return r


def ev_req(ev):
    if ev[0] == "w":
        return {"op": "w", "prop": ev[1], "v": ev[2], "ai": ev[3], "pr": ev[4]}
    if ev[0] == "t":
        return {"op": "tick", "t": ev[1]}
    if ev[0] == "c":
        return {"op": "cov"}
    return {"op": "adv", "t": ev[1]}


def run_history(ctx, kind, cname, cfg, events, observe_each=True, oracle=True):
    """feed one history to a fresh real object; returns (requests, impl replies).
       events: ("w", prop, code, ai, pr) | ("t", t_us) | ("a", t_us)
       ("a") = let the real core.run advance; expanded to ticks for direct targets"""
    tgt = make_target(kind, cname, cfg)
    done = []

    def case_fn():
        return {"kind": kind, "cls": cname, "cfg": cfg, "events": [list(e) for e in done]}
    orc = Oracle(ctx, tgt, cfg, case_fn) if oracle else None
    reqs = [reset_req(cname, cfg)]
    pv, slots = tgt.read()
    if orc:
        orc.start(pv, slots)
    reps = [{"r": "ok", "pv": pv, "slots": slots, "dl": tgt.deadline(), "now": 0, "left": list(tgt.left)}]
    n = len(events)
    for k, ev in enumerate(events):
        if ev[0] == "w":
            err = tgt.write(ev[1], ev[2], ev[3], ev[4])
        elif ev[0] == "t":
            err = tgt.tick(ev[1])
        elif ev[0] == "c":
            err = tgt.cov(ev[1], ev[2])
        else:
            err = tgt.advance(ev[1])
        done.append(ev)
        reqs.append(ev_req(ev))
        if observe_each or k == n - 1 or err is not None:
            pv, slots = tgt.read()
            rep = {"r": "ok", "pv": pv, "slots": slots, "dl": tgt.deadline(), "now": tgt.now_us(),
                   "left": list(tgt.left)}
            if orc:
                orc.after(ev, err, pv, slots, tgt.now_us())
        else:
            rep = {"r": "ok", "skip": True}
        if err is not None:
            rep["r"] = "err"
            rep["k"] = err
        reps.append(rep)
    return reqs, reps


def merge_skips(impl, model):
    """where the implementation was not read back, compare the outcome only"""
    out = []
    for a, b in zip(impl, model):
        if a.get("skip"):
            b = {k: v for k, v in b.items() if k in ("r", "k", "br")}
            b["skip"] = True
        out.append(b)
    return out


def lockstep(ctx, stream, kind, cname, cfg, events, observe_each=True):
    reqs, reps = run_history(ctx, kind, cname, cfg, events, observe_each)
    if ctx.model_ok:
        model = core.Driver("drv_c17").ask(reqs)
        model = merge_skips(reps, model)
        fam = family(env()["classes"][cname])
        prev = ["", ""]

        def sig(case, m):
            # signature = class family + branch classes of the last three steps
            br = m.get("k") or ""
            return (fam, case.get("op"), case.get("prop"), br)
        # use the model's branch path for coverage
        ctx.streams[stream] += len(reqs)
        for c, a, b in zip(reqs, reps, model):
            br = b.get("br") if isinstance(b, dict) else None
            b2 = core.strip_br(b)
            if b2.get("r") == "bad-request":
                raise core.Infra("model rejected request %r: %r" % (c, b2))
            if b2.get("r") == "err":
                ctx.errkinds[b2.get("k")] += 1
            prev = [prev[1], br or ""]
            ctx.count(stream, (fam, c.get("op"), c.get("prop"), tuple(prev)))
            if core.canon(a) != core.canon(b2):
                ctx.disagree(stream, {"kind": kind, "cls": cname, "cfg": cfg,
                                      "events": [list(e) for e in events], "at": c}, a, b2)
                break
    else:
        ctx.count(stream, None, n=len(reqs))
    return reps


# ---------------------------------------------------------------- exhaustive sequences

def alphabet(ctx, ci):
    rng = ctx.sub_rng("c17-prios")
    a, b = sorted(rng.sample(range(1, 16), 2))
    prios = [None, 16, a, b]
    nv = min(3, ci["nvals"])
    cmds = [(p, v) for p in prios for v in list(range(nv)) + [None]]
    return prios, cmds


def exh(ctx, kind, cname, maxlen, first=None):
    """all command sequences of length <= maxlen (first = None), or the part of them
    starting with command number `first` (first = -1: the empty one), each on a FRESH object.
    The object is read back after the last command only: every prefix of a sequence
    is itself a sequence of the set, so every intermediate state is read as well."""
    ci = env()["classes"][cname]
    cfg = {"def": 0, "pv": 0, "explicit": True}
    _prios, cmds = alphabet(ctx, ci)
    fam = family(ci)
    stream = "exh-" + kind
    cases, impl = [], []
    nfail = [0]

    def fail(k, seq, what, **f):
        nfail[0] += 1
        if nfail[0] <= 4:
            ctx.fail(k, {"kind": kind, "cls": cname, "cfg": cfg,
                         "events": [["w", "pv", vv, None, pp] for pp, vv in seq]},
                     what, cls=cname, access=kind, **f)
    if first is None:
        seqs = (tail for L in range(0, maxlen + 1) for tail in itertools.product(cmds, repeat=L))
    elif first < 0:
        seqs = [()]
    else:
        seqs = ((cmds[first],) + tail for L in range(1, maxlen + 1)
                for tail in itertools.product(cmds, repeat=L - 1))
    for seq in seqs:
        tgt = make_target(kind, cname, cfg, fast=True)
        errs = []
        last = {}
        for (p, v) in seq:
            err = tgt.write("pv", v, None, p)
            errs.append(err)
            last[16 if p is None else p] = v
            if err is not None:
                fail("good-command-refused", seq, "command at priority %r raised %s" % (p, err))
        pv, slots = tgt.read()
        # the property, on what was read
        for i in range(16):
            s = slots[i]
            if s != last.get(i + 1):
                if isinstance(s, str):
                    fail("slot-corrupt", seq, "slot %d reads %s" % (i + 1, s), idx=i + 1)
                else:
                    fail("slot-not-last", seq, "slot %d holds %r, last commanded %r"
                         % (i + 1, s, last.get(i + 1)), idx=i + 1)
                break
        win = cfg["def"]
        for s in slots:
            if s is not None:
                win = s
                break
        if pv != win:
            fail("present-not-winner", seq, "present value %r, highest-priority command/default %r (slots %r)"
                 % (pv, win, slots))
        dl = tgt.deadline()
        cases.append({"op": "seq", "cls": cname, "def": 0, "pv": 0, "evs": [[p, v] for p, v in seq]})
        impl.append({"r": "ok", "errs": errs, "pv": pv, "slots": slots, "dl": dl, "now": 0})
    if not ctx.model_ok:
        ctx.count(stream, None, n=len(cases))
        return
    model = core.Driver("drv_c17").ask(cases)
    ctx.streams[stream] += len(cases)
    ndis = 0
    for c, a, b in zip(cases, impl, model):
        if b.get("r") == "bad-request":
            raise core.Infra("model rejected request %r: %r" % (c, b))
        br = b.pop("br", None) or []
        ctx.count(stream, (fam, tuple(br[-3:])), trivial=(len(br) == 0))
        if core.canon(a) != core.canon(b):
            ndis += 1
            if ndis <= 5:
                ctx.disagree(stream, {"kind": kind, "cls": cname, "cfg": cfg,
                                      "events": [["w", "pv", v, None, p] for p, v in c["evs"]]}, a, b)


# ---------------------------------------------------------------- random histories

BAD_PRIOS = [0, 17, -1, 255, 2 ** 31, 18, -16]
# in an APDU the priority is an Integer: stay inside what can be encoded (32 bits)
BAD_PRIOS_WIRE = [0, 17, -1, 255, 2 ** 31 - 1, 18, -16, -(2 ** 31)]


def gen_rules(rng, ci, timed=False):
    """1..3 user monitors as data [trigger|None, priority|None, value|None, budget]; the
    budgets bound the nesting depth (sum <= 6).  On objects with minimum times the
    callbacks stay at priorities 7..16 (the hold theorems/oracle exclude <= 6)."""
    nv = ci["nvals"]
    rules = []
    for _ in range(rng.choice([1, 2, 2, 3])):
        trg = None if rng.random() < 0.3 else rng.randrange(nv)
        prios = ([None] + list(range(7, 17))) if timed else ([None] + list(range(1, 17)))
        prio = rng.choice(prios)
        val = None if rng.random() < 0.35 else rng.randrange(nv)
        rule = [trg, prio, val, rng.choice([1, 1, 2])]
        if not timed and rng.random() < 0.3:
            rule.append(True)            # this monitor raises instead of commanding
            rule[3] = rng.choice([1, 2, 3])
        rules.append(rule)
    return rules


def gen_random(rng, ci, n, timed=False, avoid6=False, wire=False, cov=False):
    """wire=True leaves out what the service layer answers before the object is asked
    (presentValue with an array index -> propertyIsNotAnArray; a whole-array write of
    priorityArray fails in cast_out): C15's domain"""
    evs = []
    nv = ci["nvals"]
    t = 0
    bad_prios = BAD_PRIOS_WIRE if wire else BAD_PRIOS
    for _ in range(n):
        r = rng.random()
        if cov and rng.random() < 0.12:
            # SubscribeCOV on the same object: cancel / (un)confirmed, indefinite or with a lifetime
            if rng.random() < 0.4:
                evs.append(("c", None, None))
            else:
                evs.append(("c", rng.choice([True, False]), rng.choice([None, 1, 2, 5, 30])))
            continue
        if timed and r < 0.35:
            # move the clock: quarter-second grid, sometimes exactly one second steps
            t += rng.choice([250000, 500000, 1000000, 1000000, 2000000, 3000000, 5000000, 11000000])
            evs.append(("a", t))
            continue
        if r < 0.80 or timed:
            p = rng.choice([None] + list(range(1, 17)))
            if avoid6:
                while p == 6:
                    p = rng.choice([None] + list(range(1, 17)))
            v = None if rng.random() < 0.35 else rng.randrange(nv)
            evs.append(("w", "pv", v, None if wire else rng.choice([None, None, None, 3]), p))
        elif r < 0.88:
            v = None if rng.random() < 0.3 else rng.randrange(nv)
            evs.append(("w", "pv", v, None, rng.choice(bad_prios)))
        elif r < 0.92:
            # array-index access of priorityArray itself: only refusals and relinquishes
            # are expressible both directly and in an APDU
            ai = rng.choice([0, 17, 0, 40, rng.randrange(1, 17), rng.randrange(1, 17)])
            evs.append(("w", "pa", None, ai, rng.choice([None, None, 5])))
        elif r < 0.94 and not wire:
            evs.append(("w", "pa", rng.randrange(nv), None, None))     # whole array
        elif r < 0.98:
            p = rng.choice([None] + list(range(1, 17)))
            evs.append(("w", "pv", BAD_TYPE, None, p))
        else:
            if ci["meta"]["enumerated"]:
                evs.append(("w", "pv", BAD_ENUM, None, rng.randrange(1, 17)))
            else:
                # (in an APDU the value is examined before the priority: keep the priority valid there)
                evs.append(("w", "pv", BAD_TYPE, None, rng.randrange(1, 17) if wire else rng.choice(bad_prios)))
    return evs


def directed_timed(on, off, flip=0):
    """state changes forced by priorities 1..5 in the middle of a hold (the timer must
    be re-armed for a timed new state, and must keep running for an untimed one: the
    slot is released when the ORIGINAL minimum time is over), observations a quarter
    second around every deadline, release of the override, nested changes.
    flip=1: the mirror image (object starts active, `inactive` is commanded first)."""
    q = 250000
    evs, t = [], 0
    a, b = (on, off) if not flip else (off, on)       # a: time of the state commanded first

    def v(x):
        return x ^ flip

    def adv(d):
        nonlocal t
        t += d
        evs.append(("a", t))
    evs.append(("w", "pv", v(1), None, 8))            # first state, held `a`
    adv(q)
    evs.append(("w", "pv", v(0), None, 3))            # override: other state, held `b` from here
    for _ in range(2):
        adv(max(q, min(a, b) * 1000000 - 2 * q))
        adv(q); adv(q); adv(q)
        adv(max(q, abs(a - b) * 1000000 - 2 * q))
        adv(q); adv(q); adv(q)
    evs.append(("w", "pv", None, None, 3))            # override gone: priority 8 wins again
    adv(q)
    evs.append(("w", "pv", v(0), None, 2))
    adv(q)
    evs.append(("w", "pv", v(1), None, 1))            # two changes inside each other's holds
    adv(max(a, b) * 1000000 + q)
    evs.append(("w", "pv", None, None, 1))
    evs.append(("w", "pv", None, None, 2))
    adv((a + b) * 1000000 + q)
    adv(11000000)
    # an override at every priority 1..5 in the middle of a fresh hold, then past its end
    for p in (5, 4, 1):
        evs.append(("w", "pv", None, None, 8))
        adv((a + b) * 1000000 + q)                    # everything released, first state's opposite
        evs.append(("w", "pv", v(1), None, 8))        # hold of the first state starts
        adv(2 * q)
        evs.append(("w", "pv", v(0), None, p))        # flipped during the hold
        adv(max(q, a * 1000000 - 3 * q))
        adv(q); adv(q)                                # ... across the end of the ORIGINAL hold
        adv(max(a, b) * 1000000 + q)
        evs.append(("w", "pv", None, None, p))
        adv(max(a, b) * 1000000 + q)
    return evs


def directed_cov(on, off):
    """subscribe-then-cancel and subscribe-then-expire before a state change whose hold
    is then observed; a subscription that stays; both states"""
    q = 250000
    evs, t = [], 0

    def adv(d):
        nonlocal t
        t += d
        evs.append(("a", t))

    def round_(first):
        other = 1 - first
        evs.append(("w", "pv", first, None, 8))       # state `first` (held its minimum time)
        adv(q)
        evs.append(("w", "pv", None, None, 8))        # relinquished inside the hold
        adv(q)
        h = (on if first == 1 else off) * 1000000
        adv(max(q, h - 3 * q))
        adv(q); adv(q)                                # across the end of the hold
        adv((on + off) * 1000000 + q)                 # ... and of the hold of the state fallen back to
        evs.append(("w", "pv", other, None, 12))
        adv((on + off) * 1000000 + q)
        evs.append(("w", "pv", None, None, 12))
        adv((on + off) * 1000000 + q)
    evs.append(("c", False, None))                    # unconfirmed, indefinite
    adv(q)
    evs.append(("c", None, None))                     # cancelled: the last subscription is gone
    round_(1)
    evs.append(("c", True, 2))                        # confirmed, two seconds
    evs.append(("w", "pv", 1, None, 16))
    adv(3000000)                                      # expired meanwhile
    evs.append(("w", "pv", None, None, 16))
    adv((on + off) * 1000000 + q)
    round_(1)
    evs.append(("c", False, 30))                      # one that stays
    round_(1)
    evs.append(("c", True, None))                     # renewed as confirmed, indefinite
    evs.append(("c", None, None))
    round_(1)
    return evs


def run_timed(ctx, stream, kind, cname, cfg, events):
    """like lockstep, but for direct targets an advance ("a", t) is replaced by single
    scheduler steps at the implementation's own deadlines followed by ("t", t)"""
    if kind != "direct":
        return lockstep(ctx, stream, kind, cname, cfg, events)
    tgt = Direct(cname, cfg)
    done = []
    orc = Oracle(ctx, tgt, cfg, lambda: {"kind": kind, "cls": cname, "cfg": cfg, "events": [list(e) for e in done]})
    reqs = [reset_req(cname, cfg)]
    pv, slots = tgt.read()
    orc.start(pv, slots)
    reps = [{"r": "ok", "pv": pv, "slots": slots, "dl": tgt.deadline(), "now": 0, "left": list(tgt.left)}]

    def one(ev):
        if ev[0] == "w":
            err = tgt.write(ev[1], ev[2], ev[3], ev[4])
        else:
            err = tgt.tick(ev[1])
        done.append(ev)
        reqs.append(ev_req(ev))
        pv, slots = tgt.read()
        rep = {"r": "ok", "pv": pv, "slots": slots, "dl": tgt.deadline(), "now": tgt.now_us(),
               "left": list(tgt.left)}
        orc.after(ev, err, pv, slots, tgt.now_us())
        if err is not None:
            rep["r"] = "err"
            rep["k"] = err
        reps.append(rep)
    for ev in events:
        if ev[0] != "a":
            one(ev)
            continue
        guard = 0
        while True:
            dl = tgt.deadline()
            if isinstance(dl, int) and dl <= ev[1] and guard < 6:
                guard += 1
                one(("t", dl))
            else:
                break
        one(("t", ev[1]))
    if ctx.model_ok:
        model = core.Driver("drv_c17").ask(reqs)
        fam = family(env()["classes"][cname])
        ctx.streams[stream] += len(reqs)
        prev = ["", ""]
        for c, a, b in zip(reqs, reps, model):
            br = b.get("br")
            b2 = core.strip_br(b)
            if b2.get("r") == "bad-request":
                raise core.Infra("model rejected request %r: %r" % (c, b2))
            if b2.get("r") == "err":
                ctx.errkinds[b2.get("k")] += 1
            prev = [prev[1], br or ""]
            ctx.count(stream, (fam, c.get("op"), tuple(prev)))
            if core.canon(a) != core.canon(b2):
                ctx.disagree(stream, {"kind": kind, "cls": cname, "cfg": cfg,
                                      "events": [list(e) for e in done], "at": c}, a, b2)
                break
    else:
        ctx.count(stream, None, n=len(reqs))
    return reps


# ---------------------------------------------------------------- shards

def constructible(ctx, cname):
    """a class that cannot even be instantiated is reported once (check_construct);
    its streams are skipped instead of crashing the shard"""
    ci = env()["classes"][cname]
    try:
        make_object(ci, {"def": 0, "pv": 0, "explicit": True})
        make_object(ci, {"def": 0, "pv": 0})
        return True
    except Exception as ex:
        ctx.count("construct", ("cannot", family(ci)))
        ctx.notes.append("%s cannot be constructed (%s); its streams are skipped" % (cname, type(ex).__name__)) \
            if not any(cname in n for n in ctx.notes) else None
        return False


def shard(ctx, spec):
    what = spec[0]
    env()
    if what != "corpus":
        cname = spec[2] if what == "exh" else spec[1]
        if not constructible(ctx, cname):
            return
    if what == "exh":
        _, kind, cname, maxlen, first = spec
        exh(ctx, kind, cname, maxlen, first)
    elif what == "rand":
        _, cname, kind, idx, n = spec
        ci = env()["classes"][cname]
        rng = ctx.sub_rng("c17-rand/%s/%s/%d" % (cname, kind, idx))
        d = rng.randrange(ci["nvals"])
        cfg = {"def": d, "pv": d, "explicit": True} if idx % 2 else {"def": 0, "pv": 0}
        lockstep(ctx, "rand-" + kind, kind, cname, cfg, gen_random(rng, ci, n, wire=(kind != "direct")))
    elif what == "resend":
        _, cname, idx, n = spec
        ci = env()["classes"][cname]
        rng = ctx.sub_rng("c17-resend/%s/%d" % (cname, idx))
        nv = min(3, ci["nvals"])
        prios = [None] + rng.sample(range(1, 17), 2)
        alpha = [(p, v) for p in prios for v in list(range(nv)) + [None]]
        # few distinct commands, many repetitions: A, B, A again ... with kept request objects
        evs = [("w", "pv", v, None, p) for (p, v) in (rng.choice(alpha) for _ in range(n))]
        d = rng.randrange(ci["nvals"])
        lockstep(ctx, "resend-wireobj", "wireobj", cname, {"def": d, "pv": d, "explicit": True}, evs)
    elif what == "minonoff":
        _, cname, kind, on, off, idx, n = spec
        ci = env()["classes"][cname]
        rng = ctx.sub_rng("c17-mo/%s/%s/%d/%d/%d" % (cname, kind, on, off, idx))
        cfg = {"def": 0, "pv": 0, "on": on, "off": off}
        run_timed(ctx, "minonoff-" + kind, kind, cname, cfg, gen_random(rng, ci, n, timed=True, avoid6=True, wire=(kind != "direct")))
        if kind in ("direct", "wire"):
            run_timed(ctx, "minonoff-directed", kind, cname, cfg, directed_timed(on, off))
            run_timed(ctx, "minonoff-directed", kind, cname, dict(cfg, **{"def": 1, "pv": 1}),
                      directed_timed(on, off, flip=1))
    elif what == "mon":
        _, cname, kind, idx, n = spec
        ci = env()["classes"][cname]
        rng = ctx.sub_rng("c17-mon/%s/%s/%d" % (cname, kind, idx))
        d = rng.randrange(ci["nvals"])
        timed = ci["meta"]["minOnOff"] and idx % 2 == 1
        cfg = {"def": d, "pv": d, "explicit": True, "rules": gen_rules(rng, ci, timed)}
        if timed:
            cfg.update(on=rng.choice([0, 1, 3, 5]), off=rng.choice([0, 2, 4]))
            run_timed(ctx, "monitors-" + kind, kind, cname, cfg,
                      gen_random(rng, ci, n, timed=True, avoid6=True, wire=(kind != "direct")))
        else:
            lockstep(ctx, "monitors-" + kind, kind, cname, cfg, gen_random(rng, ci, n, wire=(kind != "direct")))
    elif what == "cov":
        _, cname, on, off, idx, n = spec
        ci = env()["classes"][cname]
        rng = ctx.sub_rng("c17-cov/%s/%d/%d/%d" % (cname, on, off, idx))
        cfg = {"def": 0, "pv": 0, "on": on, "off": off}
        run_timed(ctx, "cov-e2e", "e2ecov", cname, cfg, directed_cov(on, off))
        run_timed(ctx, "cov-e2e", "e2ecov", cname, cfg,
                  gen_random(rng, ci, n, timed=True, avoid6=True, wire=True, cov=True))
    elif what == "corpus":
        run_corpus(ctx)
    else:
        raise core.Infra("bad shard spec %r" % (spec,))


def replay_case(ctx, case, stream="replay"):
    env()
    events = [tuple(e) for e in case["events"]]
    cfg = case["cfg"]
    try:
        make_object(env()["classes"][case["cls"]], cfg)
    except Exception as ex:
        ctx.count(stream, ("cannot-construct", case["cls"]))
        ctx.fail("cannot-construct", case, "%s cannot be instantiated: %s: %s"
                 % (case["cls"], type(ex).__name__, ex), cls=case["cls"])
        return
    events = [tuple(e) for e in events]
    if any(e[0] == "a" for e in events) or (cfg.get("on") or cfg.get("off")):
        run_timed(ctx, stream, case["kind"], case["cls"], cfg, events)
    else:
        lockstep(ctx, stream, case["kind"], case["cls"], cfg, events)


def run_corpus(ctx):
    d = os.path.join(core.VERIF, "corpus", "C17")
    if not os.path.isdir(d):
        return
    for f in sorted(os.listdir(d)):
        if f.endswith(".json"):
            payload = json.load(open(os.path.join(d, f)))
            for case in payload.get("cases", [payload.get("case")]):
                if case:
                    replay_case(ctx, case, "corpus")


# ---------------------------------------------------------------- construction of every class

def check_construct(ctx):
    """every class of the generated table can be instantiated and starts relinquished"""
    e = env()
    for cname in e["names"]:
        ci = e["classes"][cname]
        case = {"kind": "construct", "cls": cname}
        ctx.count("construct", family(ci))
        try:
            obj = ci["cls"](objectIdentifier=(ci["cls"].objectType, 1), objectName="obj")
        except Exception as ex:
            ctx.fail("cannot-construct", case, "%s(objectIdentifier, objectName) raised %s: %s"
                     % (cname, type(ex).__name__, ex), cls=cname)
            continue
        arr = obj.ReadProperty("priorityArray")
        slots = [slot_code(ci, arr[i], ci["meta"]["pvChoice"]) for i in range(1, 17)]
        if slots != [None] * 16:
            ctx.fail("initial", case, "fresh %s has slots %r" % (cname, slots), cls=cname)
        if _key(obj.ReadProperty("presentValue")) != _key(obj.ReadProperty("relinquishDefault")):
            ctx.fail("initial", case, "fresh %s: presentValue differs from relinquishDefault" % cname, cls=cname)


# ---------------------------------------------------------------- run

def run(ctx):
    e = env()
    check_construct(ctx)
    L = 4 if ctx.quick else 5
    LW = 3 if ctx.quick else 4
    debug_pass = os.environ.get("VERIF_DEBUGFLAGS") in ("1", "2")
    if debug_pass:
        # the repetition with the library's _debug flags on (harness/core.py): every
        # stream once more, the exhaustive ones two commands shorter (the flags make
        # each call several times slower; depth adds nothing about tracing)
        L, LW = 3, 2
    specs = [("corpus",)]
    seen_groups, wire_len = set(), {}
    for cname in e["names"]:
        ci = e["classes"][cname]
        _, cmds = alphabet(ctx, ci)
        # quick tier: full depth only for one class of every (datatype, mix-in)
        # group, one command shorter for its siblings
        grp = (ci["meta"]["datatype"], ci["meta"]["minOnOff"])
        full = not ctx.quick or grp not in seen_groups
        ld, lw = (L, LW) if full else (L - 1, LW - 1)
        if ctx.quick and full:
            # ... and full depth rotates over the groups with the seed: a third of
            # them gets the longest direct sequences, another third the longest APDU
            # sequences, the rest one command less both ways (seeds 0, 1, 2 together
            # give every group both)
            r = (len(seen_groups) + ctx.seed) % 3
            if r != 0:
                ld = L - 1
            if r != 1:
                lw = LW - 1
        seen_groups.add(grp)
        wire_len[cname] = [ld, lw]
        # heavy pieces are split by their first command, light ones stay whole
        for kind, ln, heavy in (("direct", ld, ld >= 4), ("wire", lw, lw >= 3)):
            if heavy:
                specs.append(("exh", kind, cname, 0, -1))
                for f in range(len(cmds)):
                    specs.append(("exh", kind, cname, ln, f))
            else:
                specs.append(("exh", kind, cname, ln, None))
        nrand = 2 if ctx.quick else 12
        for i in range(nrand):
            specs.append(("rand", cname, "direct", i, 100))
            specs.append(("rand", cname, "wire", i, 100))
        for i in range(1 if ctx.quick else 4):
            specs.append(("rand", cname, "e2e", i, 50 if ctx.quick else 100))
        for i in range((1 if ci["meta"]["atomic"] else 3) if ctx.quick else 6):
            specs.append(("resend", cname, i, 50 if ctx.quick else 100))
        for i in range(2 if ctx.quick else 8):
            specs.append(("mon", cname, "direct", i, 60 if ctx.quick else 100))
        if ci["meta"]["atomic"]:
            # (an APDU carries a fresh DateTime every time: see pyval)
            for i in range(2 if ctx.quick else 4):
                specs.append(("mon", cname, "wire", i, 40 if ctx.quick else 100))
        if ci["meta"]["minOnOff"]:
            covpairs = [(5, 3), (0, 4), (3, 0), (10, 10)] if ctx.quick else \
                [(a, b) for a in (0, 1, 3, 5, 10) for b in (0, 2, 4, 10)]
            for (a, b) in covpairs:
                specs.append(("cov", cname, a, b, 0, 40 if ctx.quick else 80))
        if ci["meta"]["minOnOff"]:
            times = range(0, 11)
            pairs = [(a, b) for a in times for b in times]
            if ctx.quick:
                rng = ctx.sub_rng("c17-pairs/" + cname)
                pairs = [(0, 0), (10, 3), (3, 10), (0, 5), (5, 0), (1, 1), (10, 10), (0, 1), (2, 0), (0, 10), (7, 0)] \
                    + rng.sample(pairs, 10)
            for k, (a, b) in enumerate(pairs):
                specs.append(("minonoff", cname, "direct", a, b, 0, 60 if ctx.quick else 100))
                specs.append(("minonoff", cname, "wire", a, b, 0, 40 if ctx.quick else 100))
                if k < 7 or not ctx.quick:
                    specs.append(("minonoff", cname, "e2e", a, b, 0, 40 if ctx.quick else 60))
    # interleave heavy and light work
    rng = ctx.sub_rng("c17-shuffle")
    rng.shuffle(specs)
    core.run_shards(ctx, "harness.c17", "shard", specs)
    ctx.notes[:] = sorted(set(ctx.notes))
    ctx.exhaustive = False
    ctx.extra["exhaustive_sequence_length_direct_wire"] = wire_len
    ctx.extra["classes"] = len(e["names"])
    prios, _ = alphabet(ctx, e["classes"][e["names"][0]])
    ctx.extra["exhaustive_priorities"] = prios
    for s in [{"stream": "exh-direct", "case": {"cls": e["names"][0], "evs": [[None, 1], [prios[2], 2], [prios[2], None]]}},
              {"stream": "minonoff", "case": {"cls": "BinaryValueCmdObject", "on": 10, "off": 3}}]:
        ctx.sample(s)


def search(ctx):
    """focused failing-input search: the timed and random streams again with other
    seeds and all (on, off) pairs; the oracle runs inside them"""
    e = env()
    specs = []
    for cname in e["names"]:
        ci = e["classes"][cname]
        for i in range(100, 106):
            specs.append(("rand", cname, "direct", i, 100))
        if ci["meta"]["minOnOff"]:
            for a in range(0, 11):
                for b in range(0, 11):
                    specs.append(("minonoff", cname, "direct", a, b, 7, 60))
    core.run_shards(ctx, "harness.c17", "shard", specs)


def replay(ctx, payload):
    rec = payload.get("failure") or (payload.get("correspondence_disagreements") or [{}])[0]
    case = rec.get("case")
    if not case:
        raise core.Infra("nothing to replay")
    if case.get("kind") == "construct":
        check_construct(ctx)
        return
    if "events" not in case and "evs" in case:
        case = {"kind": "direct", "cls": case["cls"], "cfg": {"def": case["def"], "pv": case["pv"]},
                "events": [["w", "pv", v, None, p] for p, v in case["evs"]]}
    replay_case(ctx, case)
