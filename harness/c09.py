"""
C09 — BACnet/IP frames carry a correct length and round-trip all twelve functions.

Correspondence streams (model = lean/Drv/C09.lean over Model.Bvll):
  enc        message objects sent through a REAL AnnexJCodec (bound between two
             stubs): the octets that would go to the socket, plus the BVLPDU-level
             view (function, length, data) of <class>.encode.  All twelve classes,
             tables of 0..40 (and 41..300) entries, payload lengths 0..1497, every
             address/port/mask/TTL boundary, stale stored lengths, out-of-domain values
  cdec       datagrams delivered to the real AnnexJCodec.confirmation: all function
             codes 0..255 x body lengths, mutated valid frames (length-field and type
             mutations in particular), random octets
  dec / cdec-exh-n   BVLPDU.decode and the codec on ALL octet strings of length <= 2 and
             all of length <= 3 (quick) / <= 4 (thorough) that start with 0x81
  bdec / benc  class decoders on raw BVLPDU data; BVLPDU.encode of raw (fn, len, data)
  pack / unpack  pack_ip_addr / unpack_ip_addr over the IPv4 / port boundary grid
Implementation-side oracle (independent of the model, written from Annex J):
  spec_frame gives the octets the standard prescribes; ref_cdec is an independent
  reference reading.  Checked on the real code: every emitted frame starts
  0x81, function, and carries a length field equal to its number of octets;
  frame == spec octets; confirmation(indication(m)) == m; a stale stored length
  yields EncodingError or a correct frame, never a wrong one (also with a table
  really mutated after construction); type != 0x81 or length field != datagram
  length raise DecodingError; nothing but DecodingError / KeyError(unknown
  function) ever comes out of the codec; accepted frames are read as the
  reference reads them.
"""
from . import core

LEAN_TARGETS = ["BacVerif.Props.C09", "drv_c09"]
LEANCHECKER = ["BacVerif.Props.C09"]
LEVEL = "proof"
RULE = ("enc: 12 classes x tables of 0..40 entries (+41,100,255,300) x payload lengths 0..1497 (quick: "
        "0..70, boundaries and a sample) x IPv4 octets{0,1,127,128,255} x ports{0,1,47808,65535} x masks "
        "{0,1,0x80000000,0xFF000000,0xFFFFFF00,0xFFFFFFFF} x ttl/remaining{0,1,30,65535}; stale stored "
        "lengths {0,4,correct-1,correct+1,correct+10,65535}; cdec: all function codes 0..255 x body "
        "lengths{0,1,2,5,6,9,10,11,20,30}, mutated frames, all octet strings of length <=2, and of length "
        "<=3 (quick) / <=4 (thorough) starting with 0x81.  distinct = distinct (stream, function, size "
        "class / error kind and length bucket) signatures"
        "; history: message objects sent, looped back through the intermediate BVLPDU, changed and sent again through two real AnnexJCodecs, refused sends/datagrams in between, buffer-aliasing checks"
        "; wave 5: caller-owned input buffers (aliasing on the input side) and a subclass-history stream in forked workers (unregistered user subclasses of the 12 BVLL classes with overridden decode / extra ctor argument, then standard traffic through a plain AnnexJCodec and a registry identity check)"
        "; wave 6: the same datagram delivered twice in a row in the codec histories; udp-socket: ONE small real-socket stream (UDPMultiplexer/UDPDirector on 127.0.0.1, datagrams of 4..65000 octets from a plain socket)")
TRUSTED = ["lean/BacVerif/Model/Bvll.lean is a hand transcription of bvll.py, pack/unpack_ip_addr and "
           "AnnexJCodec; tied by the enc/dec/cdec/bdec/benc/pack/unpack correspondence streams",
           "translator/registries.py (bvl_pdu_types -> Gen/BvlTypes.lean)",
           "socket.inet_aton / inet_ntoa (dotted quad <-> four octets), Python bytes/struct"]
ASSUMPTIONS = ["frames shorter than 65536 octets (put_short masks the length field of longer ones; UDP cannot "
               "carry them and the property's quantifier stops at 1497-octet payloads / 40-entry tables)",
               "B/IP addresses are six octets; ports, TTLs, result codes < 65536, masks < 2^32 (larger values "
               "are masked by put_short/put_long — modelled and compared, outside the quantifier)",
               "octets after the last field of a fixed-size function are ignored (modelled so)"]

CLASSES = {
    0x00: "Result", 0x01: "WriteBroadcastDistributionTable", 0x02: "ReadBroadcastDistributionTable",
    0x03: "ReadBroadcastDistributionTableAck", 0x04: "ForwardedNPDU", 0x05: "RegisterForeignDevice",
    0x06: "ReadForeignDeviceTable", 0x07: "ReadForeignDeviceTableAck",
    0x08: "DeleteForeignDeviceTableEntry", 0x09: "DistributeBroadcastToNetwork",
    0x0A: "OriginalUnicastNPDU", 0x0B: "OriginalBroadcastNPDU",
}
CODE_OF = {v: k for k, v in CLASSES.items()}
RECOMPUTES = (0x03, 0x04, 0x09, 0x0A, 0x0B)     # classes whose encode() recomputes bvlciLength


def GENERATED(ctx):
    from translator import registries
    registries.gen_bvl_types()


# ---------------------------------------------------------------- implementation adapter

_stacks = {}


def stack(which=0):
    """a real AnnexJCodec between two capturing stubs (two independent ones exist)"""
    if which not in _stacks:
        from bacpypes.comm import Client, Server, bind
        from bacpypes.bvllservice import AnnexJCodec

        class Upper(Client):
            got = None

            def confirmation(self, pdu):
                self.got = pdu

        class Lower(Server):
            got = None

            def indication(self, pdu):
                self.got = pdu
        u, c, l = Upper(), AnnexJCodec(), Lower()
        bind(u, c, l)
        _stacks[which] = (u, c, l)
    return _stacks[which]


def mk_ip(hexaddr, mask=None):
    from bacpypes.pdu import Address
    a = Address(bytes.fromhex(hexaddr))
    if mask is not None:
        a.addrMask = mask
    return a


def mk_msg(m, stored=None):
    from bacpypes import bvll as B
    code = m[0]
    cls = getattr(B, CLASSES[code])
    if code == 0x00 or code == 0x05:
        o = cls(m[1])
    elif code in (0x01, 0x03):
        o = cls([mk_ip(a, mask) for a, mask in m[1]])
    elif code in (0x02, 0x06):
        o = cls()
    elif code == 0x04:
        o = cls(mk_ip(m[1]), bytes.fromhex(m[2]))
    elif code == 0x07:
        tbl = []
        for a, ttl, rem in m[1]:
            e = B.FDTEntry()
            e.fdAddress, e.fdTTL, e.fdRemain = mk_ip(a), ttl, rem
            tbl.append(e)
        o = cls(tbl)
    elif code == 0x08:
        o = cls(mk_ip(m[1]))
    else:
        o = cls(bytes.fromhex(m[1]))
    if stored is not None:
        o.bvlciLength = stored
    return o


def jmsg(o):
    name = type(o).__name__
    code = CODE_OF.get(name)
    ah = lambda a: bytes(a.addrAddr).hex()
    if code is None:
        return ["?", name]
    if code == 0x00:
        return [code, o.bvlciResultCode]
    if code in (0x01, 0x03):
        return [code, [[ah(a), a.addrMask] for a in o.bvlciBDT]]
    if code in (0x02, 0x06):
        return [code]
    if code == 0x04:
        return [code, ah(o.bvlciAddress), bytes(o.pduData).hex()]
    if code == 0x05:
        return [code, o.bvlciTimeToLive]
    if code == 0x07:
        return [code, [[ah(e.fdAddress), e.fdTTL, e.fdRemain] for e in o.bvlciFDT]]
    if code == 0x08:
        return [code, ah(o.bvlciAddress)]
    return [code, bytes(o.pduData).hex()]


def err_reply(e, lenient):
    k = core.exc_kind(e)
    if k in lenient:
        k = "other"
    return {"r": "err", "k": k}


def impl(case):
    from bacpypes.bvll import BVLPDU, bvl_pdu_types
    from bacpypes.pdu import PDU, Address, pack_ip_addr, unpack_ip_addr
    op = case["op"]
    try:
        if op == "enc":
            # BVLPDU-level view of <class>.encode
            o = mk_msg(case["m"], case["len"])
            bv = BVLPDU()
            o.encode(bv)
            view = {"fn": bv.bvlciFunction, "len": bv.bvlciLength, "body": bytes(bv.pduData).hex()}
            # and the octets below the real codec
            u, c, l = stack()
            l.got = None
            o = mk_msg(case["m"], case["len"])
            o.pduDestination = Address(("10.1.2.3", 47808))
            u.request(o)
            if l.got is None:
                return {"r": "nothing-sent"}
            view.update({"r": "ok", "hex": bytes(l.got.pduData).hex()})
            return view
        if op == "dec":
            bv = BVLPDU()
            bv.decode(PDU(bytes.fromhex(case["hex"])))
            return {"r": "ok", "fn": bv.bvlciFunction, "len": bv.bvlciLength, "data": bytes(bv.pduData).hex()}
        if op == "cdec":
            u, c, l = stack(case.get("codec", 0))
            u.got = None
            try:
                l.response(PDU(bytes.fromhex(case["hex"]), source=Address(("10.1.2.3", 47808))))
            except KeyError as e:
                return {"r": "unknown", "fn": e.args[0]}
            if u.got is None:
                return {"r": "nothing-delivered"}
            return {"r": "ok", "m": jmsg(u.got), "len": u.got.bvlciLength}
        if op == "bdec":
            if case["fn"] not in bvl_pdu_types:
                return {"r": "unregistered"}
            data = bytes.fromhex(case["hex"])
            bv = BVLPDU(data)
            bv.bvlciFunction, bv.bvlciLength = case["fn"], 4 + len(data)
            o = bvl_pdu_types[case["fn"]]()
            o.decode(bv)
            return {"r": "ok", "m": jmsg(o)}
        if op == "benc":
            bv = BVLPDU(bytes.fromhex(case["hex"]))
            bv.bvlciFunction, bv.bvlciLength = case["fn"], case["len"]
            pdu = PDU()
            bv.encode(pdu)
            return {"r": "ok", "hex": bytes(pdu.pduData).hex()}
        if op == "pack":
            return {"r": "ok", "hex": pack_ip_addr((".".join(str(x) for x in case["ip"]), case["port"])).hex()}
        if op == "unpack":
            ip, port = unpack_ip_addr(bytes.fromhex(case["hex"]))
            return {"r": "ok", "ip": [int(x) for x in ip.split(".")], "port": port}
    except Exception as e:
        lenient = {"enc": ("python:ValueError", "python:TypeError"), "benc": ("python:ValueError", "python:TypeError"),
                   "pack": ("python:OSError",), "unpack": ("python:OSError", "python:error")}.get(op, ())
        return err_reply(e, lenient)
    raise core.Infra("bad op " + op)


# ---------------------------------------------------------------- independent reference (Annex J)

def msg_in_domain(m):
    code = m[0]
    s = lambda x: 0 <= x <= 0xFFFF
    ip = lambda a: len(a) == 12
    if code in (0x00, 0x05):
        return s(m[1])
    if code in (0x01, 0x03):
        return all(ip(a) and 0 <= k <= 0xFFFFFFFF for a, k in m[1])
    if code == 0x04:
        return ip(m[1])
    if code == 0x07:
        return all(ip(a) and s(t) and s(r) for a, t, r in m[1])
    if code == 0x08:
        return ip(m[1])
    return True


def spec_body(m):
    code = m[0]
    if code in (0x00, 0x05):
        return m[1].to_bytes(2, "big")
    if code in (0x01, 0x03):
        return b"".join(bytes.fromhex(a) + k.to_bytes(4, "big") for a, k in m[1])
    if code in (0x02, 0x06):
        return b""
    if code == 0x04:
        return bytes.fromhex(m[1]) + bytes.fromhex(m[2])
    if code == 0x07:
        return b"".join(bytes.fromhex(a) + t.to_bytes(2, "big") + r.to_bytes(2, "big") for a, t, r in m[1])
    return bytes.fromhex(m[1])


def spec_frame(m):
    body = spec_body(m)
    return bytes([0x81, m[0]]) + ((len(body) + 4) & 0xFFFF).to_bytes(2, "big") + body


class Refuse(Exception):
    pass


def ref_header(b):
    if len(b) < 4 or b[0] != 0x81 or int.from_bytes(b[2:4], "big") != len(b):
        raise Refuse()
    return b[1], len(b), bytes(b[4:])


def ref_body(fn, d):
    if fn in (0x00, 0x05):
        if len(d) < 2:
            raise Refuse()
        return [fn, int.from_bytes(d[:2], "big")]
    if fn in (0x01, 0x03, 0x07):
        if len(d) % 10:
            raise Refuse()
        rows = [d[i:i + 10] for i in range(0, len(d), 10)]
        if fn == 0x07:
            return [fn, [[r[:6].hex(), int.from_bytes(r[6:8], "big"), int.from_bytes(r[8:], "big")] for r in rows]]
        return [fn, [[r[:6].hex(), int.from_bytes(r[6:], "big")] for r in rows]]
    if fn in (0x02, 0x06):
        return [fn]
    if fn == 0x04:
        if len(d) < 6:
            raise Refuse()
        return [fn, d[:6].hex(), d[6:].hex()]
    if fn == 0x08:
        if len(d) < 6:
            raise Refuse()
        return [fn, d[:6].hex()]
    return [fn, d.hex()]


def ref_cdec(b):
    try:
        fn, ln, data = ref_header(b)
        if fn not in CLASSES:
            return {"r": "unknown", "fn": fn}
        return {"r": "ok", "m": ref_body(fn, data), "len": ln}
    except Refuse:
        return {"r": "err", "k": "decoding"}


def short_case(case):
    s = core.canon(case)
    return case if len(s) < 700 else {"op": case["op"], "abridged": s[:700]}


def check_frame_header(ctx, case, hexs, fn, kind="length-field"):
    """the core of the property: 0x81, function, length == number of octets"""
    b = bytes.fromhex(hexs)
    if len(b) >= 65536:
        return True
    if len(b) < 4 or b[0] != 0x81 or b[1] != fn or int.from_bytes(b[2:4], "big") != len(b):
        ctx.fail(kind, case, "emitted frame %s… (%d octets) does not start 81 %02x <its own length>" % (
            hexs[:24], len(b), fn), op=case["op"])
        return False
    return True


def oracle(ctx, case, a):
    op = case["op"]
    k = a.get("k", "") if a.get("r") == "err" else ""
    if k.startswith("python:"):
        ctx.fail("unexpected-exception", case, "raised %s" % k, op=op)
        return
    if a.get("r") == "nothing-sent":
        if msg_in_domain(case["m"]) and (case["len"] is None or case["m"][0] in RECOMPUTES):
            ctx.fail("lost", case, "a valid message was neither sent nor refused", op=op)
        return
    if a.get("r") == "nothing-delivered":
        # dropping without an exception is a refusal too (the model would have to
        # follow, the property does not care how a bad datagram is refused)
        if ref_cdec(bytes.fromhex(case["hex"])).get("r") != "err":
            ctx.fail("lost", case, "a well-formed datagram was neither delivered nor refused", op=op)
        return
    if op in ("dec", "cdec", "bdec") and a.get("r") == "err" and k != "decoding":
        ctx.fail("wrong-error", case, "decoder failed with %s, not DecodingError" % k, op=op)
        return
    if op == "enc":
        m = case["m"]
        if a.get("r") == "ok":
            if not check_frame_header(ctx, case, a["hex"], m[0]):
                return
        if not msg_in_domain(m):
            return
        exp = spec_frame(m)
        if len(exp) >= 65536:
            return
        stale = case["len"] is not None and case["len"] != len(exp) and m[0] not in RECOMPUTES
        if a.get("r") != "ok":
            if not stale or k != "encoding":
                ctx.fail("encode-refused", case, "valid message refused: %r" % (a,), op=op)
            return
        if stale:
            ctx.fail("stale-length-emitted", case, "stored length %r, frame of %d octets emitted" % (case["len"], len(exp)), op=op)
            return
        if a["hex"] != exp.hex():
            ctx.fail("layout", case, "octets %s… differ from Annex J %s…" % (a["hex"][:60], exp.hex()[:60]), op=op)
            return
        back = impl({"op": "cdec", "hex": a["hex"]})
        if back != {"r": "ok", "m": m, "len": len(exp)}:
            ctx.fail("roundtrip", case, "confirmation(indication(m)) = %s" % (core.canon(back)[:300],), op=op)
    elif op == "dec":
        b = bytes.fromhex(case["hex"])
        try:
            fn, ln, data = ref_header(b)
            want = {"r": "ok", "fn": fn, "len": ln, "data": data.hex()}
        except Refuse:
            want = {"r": "err", "k": "decoding"}
        if a != want:
            ctx.fail("not-refused" if want["r"] == "err" else "misread", case,
                     "decoded %s, Annex J reading is %s" % (core.canon(a)[:200], core.canon(want)[:200]), op=op)
    elif op == "cdec":
        want = ref_cdec(bytes.fromhex(case["hex"]))
        if a != want:
            ctx.fail("not-refused" if want["r"] == "err" else "misread", case,
                     "codec gave %s, Annex J reading is %s" % (core.canon(a)[:300], core.canon(want)[:300]), op=op)
    elif op == "bdec":
        if case["fn"] not in CLASSES:
            return
        try:
            want = {"r": "ok", "m": ref_body(case["fn"], bytes.fromhex(case["hex"]))}
        except Refuse:
            want = {"r": "err", "k": "decoding"}
        if a != want:
            ctx.fail("not-refused" if want["r"] == "err" else "misread", case,
                     "decoded %s, Annex J reading is %s" % (core.canon(a)[:300], core.canon(want)[:300]), op=op)
    elif op == "benc":
        if a.get("r") == "ok" and 0 <= case["fn"] <= 255:
            check_frame_header(ctx, case, a["hex"], case["fn"])
        data = bytes.fromhex(case["hex"])
        if 0 <= case["fn"] <= 255 and case["len"] == len(data) + 4 < 65536:
            exp = bytes([0x81, case["fn"]]) + case["len"].to_bytes(2, "big") + data
            if a != {"r": "ok", "hex": exp.hex()}:
                ctx.fail("layout", case, "BVLPDU.encode gave %s" % (core.canon(a)[:200],), op=op)
    elif op == "pack":
        ip, port = case["ip"], case["port"]
        if all(0 <= x <= 255 for x in ip) and 0 <= port <= 65535:
            exp = bytes(ip) + port.to_bytes(2, "big")
            if a != {"r": "ok", "hex": exp.hex()}:
                ctx.fail("pack", case, "pack_ip_addr gave %r" % (a,), op=op)
                return
            back = impl({"op": "unpack", "hex": a["hex"]})
            if back != {"r": "ok", "ip": ip, "port": port}:
                ctx.fail("roundtrip", case, "unpack(pack(x)) = %r" % (back,), op=op)
            from bacpypes.pdu import Address
            addr = Address((".".join(map(str, ip)), port))
            if bytes(addr.addrAddr) != exp:
                ctx.fail("pack", case, "Address(tuple).addrAddr = %s" % bytes(addr.addrAddr).hex(), op=op)
    elif op == "unpack":
        b = bytes.fromhex(case["hex"])
        if len(b) >= 6:
            want = {"r": "ok", "ip": list(b[:4]), "port": int.from_bytes(b[4:6], "big")}
            if a != want:
                ctx.fail("unpack", case, "unpack_ip_addr gave %r" % (a,), op=op)


def oracle_mutated_table(ctx, rng):
    """realistic staleness: tables changed AFTER construction.  Whatever the
    codec then emits must carry its own length; otherwise it must refuse with
    EncodingError."""
    from bacpypes import bvll as B
    from bacpypes.pdu import Address
    from bacpypes.errors import EncodingError
    u, c, l = stack()
    for cls_name, attr in (("WriteBroadcastDistributionTable", "bvlciBDT"),
                           ("ReadBroadcastDistributionTableAck", "bvlciBDT"),
                           ("ReadForeignDeviceTableAck", "bvlciFDT")):
        for n0 in (0, 1, 3):
            for delta in (-1, 1, 2):
                if n0 + delta < 0:
                    continue
                def entry():
                    a = mk_ip(bytes(rng.getrandbits(8) for _ in range(6)).hex(), 0xFFFFFF00)
                    if attr == "bvlciFDT":
                        e = B.FDTEntry()
                        e.fdAddress, e.fdTTL, e.fdRemain = a, 30, 5
                        return e
                    return a
                tbl = [entry() for _ in range(n0)]
                o = getattr(B, cls_name)(tbl)
                tbl2 = list(tbl)
                if delta < 0:
                    del tbl2[delta:]
                else:
                    tbl2 += [entry() for _ in range(delta)]
                setattr(o, attr, tbl2)
                o.pduDestination = Address(("10.1.2.3", 47808))
                case = {"op": "mutated-table", "cls": cls_name, "constructed_with": n0, "encoded_with": len(tbl2)}
                l.got = None
                try:
                    u.request(o)
                except EncodingError:
                    ctx.count("mutated-table", (cls_name, "refused"))
                    continue
                except Exception as e:
                    ctx.fail("unexpected-exception", case, "raised %r" % (e,), op="mutated-table")
                    continue
                ctx.count("mutated-table", (cls_name, "sent"))
                check_frame_header(ctx, case, bytes(l.got.pduData).hex(), CODE_OF[cls_name], "stale-length-emitted")


# ---------------------------------------------------------------- frames the service elements produce

def service_stream(ctx, rng):
    """"Every BVLL frame the library produces": the REAL BIPSimple / BIPForeign /
    BIPBBMD elements of bvllservice.py are bound on top of a real AnnexJCodec
    (with a transparent tap in between that records the message objects they
    build) and driven from above (NPDUs to send) and from below (datagrams of
    all twelve functions).  Every frame that comes out below the codec is
    checked (0x81, function, own length; Annex J reading == the object that was
    handed to the codec) and compared with the model's encoding of that object.
    Foreign-device TTLs stay <= 65530 here: BIPBBMD stores remaining = TTL + 5,
    which no longer fits the 16-bit field above that (see notes/C09.md; C13's
    subject, not the codec's)."""
    from .vt import VT
    vt = VT.install()
    from bacpypes.comm import Client, Server, ApplicationServiceElement, bind
    from bacpypes.bvllservice import AnnexJCodec, BIPSimple, BIPForeign, BIPBBMD
    from bacpypes.pdu import Address, PDU, LocalBroadcast
    from bacpypes.errors import EncodingError

    tapped, sent = [], []

    class ASE(ApplicationServiceElement):
        def confirmation(self, pdu):
            pass

    class Top(Client):
        def confirmation(self, pdu):
            pass

    class Tap(Client, Server):
        def indication(self, pdu):
            tapped.append((jmsg(pdu), pdu.bvlciLength))
            self.request(pdu)

        def confirmation(self, pdu):
            self.response(pdu)

    class Bottom(Server):
        def indication(self, pdu):
            sent.append(bytes(pdu.pduData))

    def ip(rng):
        return ("%d.%d.%d.%d" % tuple(rng.choice(IPS + [10, 192]) for _ in range(4)), rng.choice([1, 47808, 47809, 65535]))

    cases, impl_replies = [], []
    n_scen = 60 if ctx.quick else 1200
    lens = payload_lengths(ctx, rng)
    for sc in range(n_scen):
        vt.reset()
        del tapped[:], sent[:]
        kind = ("simple", "foreign", "bbmd")[sc % 3]
        me = Address(ip(rng))
        bbmd_addr = Address(ip(rng))
        if kind == "simple":
            el = BIPSimple()
        elif kind == "foreign":
            el = BIPForeign(bbmd_addr, rng.choice([1, 30, 600, 65530]))
        else:
            el = BIPBBMD(me)
            for _ in range(rng.choice([0, 1, 2, 5, 40])):
                a = ip(rng)
                el.add_peer(Address("%s/%d:%d" % (a[0], rng.choice([0, 8, 24, 31, 32]), a[1])))
            for _ in range(rng.choice([0, 1, 3, 40])):
                el.register_foreign_device(Address(ip(rng)), rng.choice([1, 30, 600, 65530]))
        top, tap, codec, bottom = Top(), Tap(), AnnexJCodec(), Bottom()
        bind(top, el, tap, codec, bottom)
        bind(ASE(), el)
        events = []
        if kind == "foreign":
            events += [("run",), ("up", spec_frame([0x00, 0]), bbmd_addr)]
        for _ in range(14):
            r = rng.random()
            data = bytes.fromhex(rnd(rng, rng.choice(lens)))
            if r < .25:
                events.append(("down", Address(ip(rng)), data))
            elif r < .4:
                events.append(("down", LocalBroadcast(), data))
            else:
                m = rng.choice([[0x00, rng.choice([0, 0x30, 65535])], [0x01, bdt(rng, rng.choice([0, 1, 3]))], [0x02],
                                [0x03, bdt(rng, 2)], [0x04, ipaddr(rng), data.hex()], [0x05, rng.choice([0, 1, 30, 65530])],
                                [0x06], [0x07, fdt(rng, 1)], [0x08, ipaddr(rng)], [0x09, data.hex()],
                                [0x0A, data.hex()], [0x0B, data.hex()]])
                src = bbmd_addr if rng.random() < .3 else Address(ip(rng))
                if kind == "bbmd" and rng.random() < .3 and el.bbmdBDT:
                    src = Address(rng.choice(el.bbmdBDT).addrTuple)
                events.append(("up", spec_frame(m), src))
        for ev in events:
            n_t, n_s = len(tapped), len(sent)
            exc = None
            try:
                if ev[0] == "run":
                    vt.run(until=vt.now + 0.5)
                elif ev[0] == "down":
                    top.request(PDU(ev[2], destination=ev[1]))
                else:
                    # the UDP director fills in both addresses of a received datagram
                    bottom.response(PDU(ev[1], source=ev[2], destination=me if rng.random() < .7 else LocalBroadcast()))
            except EncodingError as e:
                exc = {"r": "err", "k": "encoding"}
            except Exception as e:
                exc = {"r": "err", "k": core.exc_kind(e)}
                ctx.fail("unexpected-exception", {"op": "service", "element": kind, "event": repr(ev)[:300]},
                         "service element / codec raised %r" % (e,), op="service")
            new_t, new_s = tapped[n_t:], sent[n_s:]
            for i, (m, stored) in enumerate(new_t):
                case = {"op": "enc", "m": m, "len": stored}
                if i < len(new_s):
                    hexs = new_s[i].hex()
                    rep = {"r": "ok", "hex": hexs}
                    if check_frame_header(ctx, case, hexs, m[0]) and len(new_s[i]) < 65536:
                        back = ref_cdec(new_s[i])
                        if back != {"r": "ok", "m": m, "len": len(new_s[i])}:
                            ctx.fail("roundtrip", case, "frame built by %s reads back as %s" % (kind, core.canon(back)[:300]), op="service")
                else:
                    rep = exc or {"r": "nothing-sent"}
                    if msg_in_domain(m):
                        ctx.fail("encode-refused", case, "a message built by %s was not sent: %r" % (kind, rep), op="service")
                cases.append(case)
                impl_replies.append(rep)
    if ctx.model_ok and cases:
        b = core.Driver("drv_c09").ask(cases)
        b = [{k: v for k, v in r.items() if k in ("r", "hex", "k")} for r in b]
        ctx.compare_stream("service", cases, impl_replies, b, sig=sig)
    else:
        for c in cases:
            ctx.count("service")
    for c in cases[:2]:
        ctx.sample({"stream": "service", "case": short_case(c)})
    vt.reset()


# ---------------------------------------------------------------- histories: state left behind, object reuse, aliasing

class Probe:
    """stands in for ctx while one step of a history is judged"""

    def __init__(self):
        self.failures = []

    def fail(self, kind, case, what, **fields):
        self.failures.append((kind, what))


def set_params(o, m):
    """give an EXISTING message object the parameters of m, the way code that
    re-uses a message would: attributes reassigned, payload patched in place
    when the size allows"""
    from bacpypes import bvll as B
    code = m[0]

    def payload(hexs):
        data = bytes.fromhex(hexs)
        if len(o.pduData) == len(data):
            o.pduData[:] = data
        else:
            o.pduData = bytearray(data)
    if code == 0x00:
        o.bvlciResultCode = m[1]
    elif code == 0x05:
        o.bvlciTimeToLive = m[1]
    elif code in (0x01, 0x03):
        o.bvlciBDT[:] = [mk_ip(a, mask) for a, mask in m[1]]
    elif code == 0x04:
        o.bvlciAddress = mk_ip(m[1])
        payload(m[2])
    elif code == 0x07:
        tbl = []
        for a, ttl, rem in m[1]:
            e = B.FDTEntry()
            e.fdAddress, e.fdTTL, e.fdRemain = mk_ip(a), ttl, rem
            tbl.append(e)
        o.bvlciFDT[:] = tbl
    elif code == 0x08:
        o.bvlciAddress = mk_ip(m[1])
    elif code in (0x09, 0x0A, 0x0B):
        payload(m[1])


def hist_send(st, slots, probe):
    """one `send` / `loop` step: a message object — a fresh one, or the one kept
    in the slot with its fields changed — goes down through a REAL AnnexJCodec.
    Returns (stateless model case, reply).  `loop` first runs the two-stage
    encoding by hand and decodes the intermediate BVLPDU again (loopback) and
    checks that nobody's buffer is anybody else's."""
    from bacpypes.bvll import BVLPDU
    from bacpypes.pdu import PDU, Address
    m, slot = st["m"], st.get("slot")
    o = slots.get((slot, m[0])) if slot is not None else None
    if o is None:
        if m[0] in (0x04, 0x09, 0x0A, 0x0B):
            # the payload comes in a caller-owned bytearray that is recycled right after construction
            from bacpypes import bvll as B
            payload = bytearray.fromhex(m[-1])
            o = getattr(B, CLASSES[m[0]])(mk_ip(m[1]), payload) if m[0] == 0x04 else getattr(B, CLASSES[m[0]])(payload)
            payload[:] = b"\x30\x01\x0c"
            payload += b"\x99"
        else:
            o = mk_msg(m)
        if slot is not None:
            slots[(slot, m[0])] = o
    else:
        set_params(o, m)
        if not st.get("stale") and msg_in_domain(m):
            o.bvlciLength = len(spec_frame(m))       # what a careful caller does after changing a table
    if st.get("force_len") is not None:
        o.bvlciLength = st["force_len"]
    case = {"op": "enc", "m": m, "len": o.bvlciLength}
    try:
        if st["op"] == "loop":
            bv = BVLPDU()
            o.encode(bv)                              # stage one
            shared = bv.pduData is o.pduData
            echo = type(o)()
            echo.decode(bv)                           # loopback: consumes the intermediate BVLPDU
            if msg_in_domain(m) and jmsg(echo) != m:
                probe.fail("roundtrip", None, "decode(encode(msg)) at BVLPDU level = %s" % (core.canon(jmsg(echo))[:200],))
            shared = shared or echo.pduData is o.pduData or echo.pduData is bv.pduData
            if jmsg(o) != m:
                probe.fail("aliasing", None, "decoding the intermediate BVLPDU changed the ORIGINAL message to %s" % (core.canon(jmsg(o))[:200],))
            echo.pduData += b"\xee"                   # the copy is the receiver's to change
            if echo.pduData:
                echo.pduData[0] ^= 0xFF
            bv2 = BVLPDU()
            o.encode(bv2)
            pdu = PDU()
            bv2.encode(pdu)                           # stage two
            shared = shared or pdu.pduData is bv2.pduData or pdu.pduData is o.pduData or bv2.pduData is o.pduData
            bv2.pduData += b"\xdd"
            del pdu.pduData[:]
            if shared:
                probe.fail("aliasing", None, "message, intermediate BVLPDU, PDU or decoded copy share a pduData buffer")
            elif jmsg(o) != m:
                probe.fail("aliasing", None, "changing the intermediate PDUs / the decoded copy changed the ORIGINAL message to %s" % (core.canon(jmsg(o))[:200],))
        u, c, l = stack(st.get("codec", 0))
        l.got = None
        o.pduDestination = Address(("10.1.2.%d" % (len(slots) % 250 + 1), 47808))
        u.request(o)
        if l.got is None:
            return case, {"r": "nothing-sent"}
        hexs = bytes(l.got.pduData).hex()
        if l.got.pduData is o.pduData:
            probe.fail("aliasing", None, "the datagram PDU shares its buffer with the message")
        del l.got.pduData[:]                          # the director consumes the datagram
        if jmsg(o) != m:
            probe.fail("aliasing", None, "after sending, the message reads %s" % (core.canon(jmsg(o))[:200],))
        return case, {"r": "ok", "hex": hexs}
    except Exception as e:
        return case, err_reply(e, ("python:ValueError", "python:TypeError"))


def hist_recv(st, probe):
    """one `cdec` step: the datagram sits in a CALLER-OWNED bytearray (the
    receive buffer).  Delivering PDU(frame) to the codec must leave the buffer
    alone, the same buffer presented again must be read the same way, and
    changing it afterwards must not change what was delivered."""
    from bacpypes.pdu import PDU, Address, LocalBroadcast
    u, c, l = stack(st.get("codec", 0))
    keep = bytes.fromhex(st["hex"])
    frame = bytearray(keep)
    src = Address(("10.1.2.%d" % st.get("src", 3), 47808))

    def deliver(source):
        u.got = None
        # what the UDP director / multiplexer fill in: the sender, and the direct or the broadcast socket
        dest = {"ucast": lambda: Address(("10.1.2.4", 47808)), "bcast": LocalBroadcast, "none": lambda: None}[st.get("dest", "ucast")]()
        try:
            l.response(PDU(source, source=src, destination=dest))
        except KeyError as e:
            return {"r": "unknown", "fn": e.args[0]}, None
        except Exception as e:
            return err_reply(e, ()), None
        if u.got is None:
            return {"r": "nothing-delivered"}, None
        return {"r": "ok", "m": jmsg(u.got), "len": u.got.bvlciLength}, u.got
    reply, obj = deliver(frame)
    if bytes(frame) != keep:
        probe.fail("aliasing", None, "delivering PDU(frame) changed the caller's receive buffer: %d of %d octets left" % (len(frame), len(keep)))
        return reply
    if st.get("once"):
        return reply                     # a plain single delivery: repeats are separate steps of the history
    again, _ = deliver(frame)
    if again != reply:
        probe.fail("not-repeatable", None, "the same datagram from the same source delivered a second time in a row gives %s, "
                   "the first time %s" % (core.canon(again)[:200], core.canon(reply)[:200]))
    outer = PDU(keep)
    third, _ = deliver(outer.pduData)
    if bytes(outer.pduData) != keep:
        probe.fail("aliasing", None, "delivering PDU(other.pduData) emptied / changed the other PDU")
    if obj is not None:
        before = core.canon(jmsg(obj))
        frame[:] = b"\xff" * len(frame)
        frame += b"\x00"
        if core.canon(jmsg(obj)) != before:
            probe.fail("aliasing", None, "changing the receive buffer after delivery changed the delivered message")
    return reply


def exec_history(steps):
    """run the steps in order in THIS process; [(stateless case, reply, [(kind, what)])]"""
    slots, out = {}, []
    for st in steps:
        probe, reuse = Probe(), Probe()
        if st["op"] in ("send", "loop"):
            case, reply = hist_send(st, slots, reuse)
        elif st["op"] == "cdec":
            case = dict(st)
            reply = hist_recv(st, reuse)
        else:
            case = dict(st)
            reply = impl(case)
        oracle(probe, case, reply)                    # frame == Annex J layout of the CURRENT fields, round trip
        alias = [f for f in reuse.failures if f[0] == "aliasing"]
        out.append((case, reply, alias + probe.failures + [f for f in reuse.failures if f[0] != "aliasing"]))
    return out


def shrink_history(steps, i):
    def fails(cand):
        _stacks.clear()                  # candidates start from fresh codecs, as a replay does
        return bool(exec_history(cand)[-1][2])
    if fails([steps[i]]):
        return [steps[i]]
    for j in range(i - 1, max(-1, i - 10), -1):
        if fails([steps[j], steps[i]]):
            return [steps[j], steps[i]]
    if fails(steps[max(0, i - 10):i + 1]):
        return steps[max(0, i - 10):i + 1]
    return steps[:i + 1]


def run_histories(ctx, stream, histories):
    cases, replies = [], []
    for steps in histories:
        reported = False
        for i, (case, reply, fails) in enumerate(exec_history(steps)):
            cases.append(case)
            replies.append(reply)
            if fails and not reported:
                reported = True
                small = shrink_history(steps, i)
                kind, what = fails[0]
                ctx.fail(kind, {"op": "history", "steps": small},
                         "last step (%s) of this history, run in one process (payloads come from caller-owned bytearrays that "
                         "are recycled after construction, datagrams are delivered out of caller-owned bytearrays): %s" % (
                             steps[i]["op"], what), op="history")
    if ctx.model_ok and cases:
        b = core.Driver("drv_c09").ask(cases)
        # send steps report the octets only (not the BVLPDU-level view of the plain `enc` op)
        b = [{k: v for k, v in r.items() if k in ("r", "k", "hex")} if c["op"] == "enc" else r for r, c in zip(b, cases)]
        ctx.compare_stream(stream, cases, replies, b, sig=sig)
    else:
        for c in cases:
            ctx.count(stream)
    for h in histories[:2]:
        ctx.sample({"stream": stream, "history": [short_case(c) for c in h[:4]]})


# ---------------------------------------------------------------- the real-socket path (loopback UDP)

def udp_frame(case):
    """the datagram of a compact udp case: function, total length, deterministic contents"""
    fn, total = case["fn"], case["total"]
    body = bytes((i * 7 + total) & 0xFF for i in range(total - 4))
    return bytes([0x81, fn]) + total.to_bytes(2, "big") + body


def digest(reply):
    """replies with the long payloads replaced by (length, sha1) — evidence stays small"""
    import hashlib
    def d(x):
        if isinstance(x, str) and len(x) > 64:
            return ["octets", len(x) // 2, hashlib.sha1(x.encode()).hexdigest()[:16]]
        if isinstance(x, list):
            return [d(y) for y in x]
        return x
    return {k: d(v) for k, v in reply.items()}


def udp_stream(ctx, cases):
    """DESIGN.md keeps real sockets out of scope; this ONE small stream is the
    exception: a real UDPMultiplexer / UDPDirector on 127.0.0.1 (ephemeral
    port) under a real AnnexJCodec, driven by a few asyncore polls (no virtual
    clock).  Datagrams are sent from a plain socket; each must arrive upstream
    complete and be decoded to the model's / Annex J reading of those octets."""
    import socket
    try:
        from bacpypes import udp, core as bcore
        from bacpypes.comm import Client, bind
        from bacpypes.bvllservice import AnnexJCodec, UDPMultiplexer
        from bacpypes.pdu import Address
        probe = socket.socket(socket.AF_INET, socket.SOCK_DGRAM)
        probe.bind(("127.0.0.1", 0))
        port = probe.getsockname()[1]
        probe.close()
        mux = UDPMultiplexer(Address("127.0.0.1:%d" % port))
        sender = socket.socket(socket.AF_INET, socket.SOCK_DGRAM)
        sender.bind(("127.0.0.1", 0))
    except OSError as e:
        ctx.notes.append("udp-socket stream skipped: loopback UDP sockets are not usable here (%r)" % (e,))
        return

    class Top(Client):
        got = None

        def confirmation(self, pdu):
            self.got = pdu
    top, codec = Top(), AnnexJCodec()
    bind(top, codec, mux.annexJ)
    me = Address(("127.0.0.1", sender.getsockname()[1]))
    full, replies = [], []
    try:
        for case in cases:
            frame = udp_frame(case)
            top.got, reply = None, None
            sender.sendto(frame, ("127.0.0.1", port))
            for _ in range(40):
                udp.asyncore.loop(timeout=0.05, count=1)
                if bcore.deferredFns:
                    break
            while bcore.deferredFns and reply is None:
                fns = bcore.deferredFns[:]
                del bcore.deferredFns[:]
                for fn, a, k in fns:
                    try:
                        fn(*a, **k)
                    except KeyError as e:
                        reply = {"r": "unknown", "fn": e.args[0]}
                    except Exception as e:
                        reply = err_reply(e, ())
            if reply is None:
                if top.got is None:
                    reply = {"r": "nothing-delivered"}
                else:
                    reply = {"r": "ok", "m": jmsg(top.got), "len": top.got.bvlciLength}
                    if top.got.pduSource != me:
                        ctx.fail("udp-source", dict(case, op="udp"), "datagram from %s delivered with source %s" % (me, top.got.pduSource), op="udp")
            want = ref_cdec(frame)
            if reply != want:
                ctx.fail("udp-path", dict(case, op="udp"), "a %d-octet datagram (function 0x%02x) sent over loopback UDP came out of the real "
                         "UDPMultiplexer + AnnexJCodec as %s, Annex J reading of the octets sent is %s" % (
                             len(frame), case["fn"], core.canon(digest(reply))[:200], core.canon(digest(want))[:200]), op="udp")
            full.append({"op": "cdec", "hex": frame.hex()})
            replies.append(digest(reply))
    finally:
        try:
            mux.close_socket()
        except Exception:
            pass
        sender.close()
    compact = [dict(c, op="udp") for c in cases]
    if ctx.model_ok:
        b = [digest(r) for r in core.Driver("drv_c09").ask(full)]
        ctx.compare_stream("udp-socket", compact, replies, b, sig=lambda c, r: (c["fn"], size_class(c["total"]), r.get("r")))
    else:
        for c in compact:
            ctx.count("udp-socket")
    ctx.sample({"stream": "udp-socket", "case": compact[0]})


UDP_CASES = ([{"fn": 0x0A, "total": n} for n in (4, 1497, 1500, 1501, 1600, 9000, 65000)] +
             [{"fn": 0x04, "total": n} for n in (10, 1500, 1501, 1507)] +
             [{"fn": 0x0B, "total": n} for n in (1500, 1501)] + [{"fn": 0x09, "total": 1501}, {"fn": 0x00, "total": 6},
              {"fn": 0x0C, "total": 1501}, {"fn": 0x01, "total": 1504}])


def shard_udp(ctx, spec):
    import os
    ctx.model_ok = os.path.exists(os.path.join(core.LEAN, ".lake", "build", "bin", "drv_c09"))
    udp_stream(ctx, UDP_CASES[spec::2])


# ---------------------------------------------------------------- user subclasses of the library message classes

class Wrap:
    """ctx whose failures carry the context needed to replay them"""

    def __init__(self, ctx, tag, why):
        self._ctx, self._tag, self._why = ctx, tag, why

    def fail(self, kind, case, what, **f):
        self._ctx.fail(kind, {"op": self._tag, "step": case}, self._why + what, **dict(f, op=self._tag))

    def __getattr__(self, k):
        return getattr(self._ctx, k)


def define_user_subclasses():
    """what an application / vendor extension may do: derive helper classes from
    the library's BVLL message classes — overriding decode, changing the
    constructor, or nothing at all — and use them explicitly, WITHOUT
    registering them.  Which kind is defined last rotates with the function code."""
    from bacpypes import bvll as B
    names = []

    def tagged(base, name):
        class Tagged(base):
            def decode(self, bvlpdu):
                B.BVLCI.update(self, bvlpdu)
                if len(bvlpdu.pduData) >= 2:
                    bvlpdu.get_data(2)              # a two octet tunnel tag of the vendor's own frames
                self.pduData = bvlpdu.get_data(len(bvlpdu.pduData))
        Tagged.__name__ = "Tagged" + name
        return Tagged

    def needs_arg(base, name):
        class NeedsArg(base):
            def __init__(self, port, *args, **kwargs):
                base.__init__(self, *args, **kwargs)
                self.gatewayPort = port
        NeedsArg.__name__ = "NeedsArg" + name
        return NeedsArg

    def plain(base, name):
        class Plain(base):
            pass
        Plain.__name__ = "Plain" + name
        return Plain
    kinds = [tagged, needs_arg, plain]
    for code, name in sorted(CLASSES.items()):
        base = getattr(B, name)
        for k in range(3):
            names.append(kinds[(code + k) % 3](base, name).__name__)
    return names


def check_registry(ctx, names):
    from bacpypes import bvll as B
    for code, name in sorted(CLASSES.items()):
        if B.bvl_pdu_types.get(code) is not getattr(B, name):
            ctx.fail("registry-hijacked", {"op": "subclass-history", "step": {"op": "registry", "fn": code}},
                     "after defining unregistered subclasses (%s…) bvl_pdu_types[0x%02X] is %r, not bacpypes.bvll.%s" % (
                         ", ".join(names[:3]), code, B.bvl_pdu_types.get(code), name), op="subclass-history")
    extra = sorted(set(B.bvl_pdu_types) - set(CLASSES))
    if extra:
        ctx.fail("registry-hijacked", {"op": "subclass-history", "step": {"op": "registry", "fn": extra[0]}},
                 "defining unregistered subclasses added function codes %r to bvl_pdu_types" % (extra,), op="subclass-history")


def shard_subclass(ctx, spec):
    """history: user subclasses of the library message classes exist in the
    process; standard traffic through a plain AnnexJCodec must be answered as
    before (= the model), with the library classes"""
    import os, random
    ctx.model_ok = os.path.exists(os.path.join(core.LEAN, ".lake", "build", "bin", "drv_c09"))
    part, seed = spec
    rng = random.Random(seed)
    from bacpypes import bvll as B
    saved = dict(B.bvl_pdu_types)
    try:
        names = define_user_subclasses()
        w = Wrap(ctx, "subclass-history", "after defining unregistered subclasses of the library message classes: ")
        if part == 0:
            cases = [c for c in gen_cdec(ctx, rng) if c["op"] == "cdec"]
        else:
            msgs = [m for m in gen_msgs(ctx, rng) if msg_in_domain(m) and len(core.canon(m)) < 4000]
            cases = [{"op": "enc", "m": m, "len": None} for m in msgs[::2]]          # full round trips
            cases += [{"op": "cdec", "hex": spec_frame(m).hex()} for m in msgs[1::2]]
            cases += [{"op": "bdec", "fn": fn, "hex": rnd(rng, n)} for fn in sorted(CLASSES) for n in (0, 2, 6, 10, 12)]
        run_cases(w, "subclass-history", cases)
        check_registry(ctx, names)
    finally:
        B.bvl_pdu_types.clear()
        B.bvl_pdu_types.update(saved)
        _stacks.clear()


def gen_histories(ctx, rng):
    """message objects sent, looped back, changed and sent again through the
    same and another codec; refused sends and refused datagrams in between"""
    pay = lambda n: rnd(rng, n)
    hs = []
    # the NPDU-carrying functions: send, loop back, send again; then re-use with new fields
    for code in (0x04, 0x09, 0x0A, 0x0B):
        for n in (0, 1, 8, 14, 480):
            mk = (lambda n_: [code, ipaddr(rng), pay(n_)]) if code == 0x04 else (lambda n_: [code, pay(n_)])
            m1, m2, m3 = mk(n), mk(n), mk(n + 2)
            hs.append([{"op": "send", "m": m1, "slot": 0}, {"op": "loop", "m": m1, "slot": 0}, {"op": "send", "m": m1, "slot": 0}])
            hs.append([{"op": "send", "m": m1, "slot": 0}, {"op": "send", "m": m1, "slot": 0, "codec": 1},
                       {"op": "send", "m": m2, "slot": 0}, {"op": "send", "m": m2, "slot": 0, "codec": 1},
                       {"op": "send", "m": m3, "slot": 0}, {"op": "loop", "m": m3, "slot": 0}, {"op": "send", "m": m1, "slot": 0}])
            if code == 0x04:
                same_npdu = [code, ipaddr(rng), m1[2]]
                hs.append([{"op": "send", "m": m1, "slot": 0}, {"op": "send", "m": same_npdu, "slot": 0},
                           {"op": "send", "m": [code, "00000000ffff", m1[2]], "slot": 0}])
    # every other function: re-use with changed parameters / table sizes, careful and stale
    others = [lambda: [0x00, rng.choice([0, 0x30, 65535])], lambda: [0x01, bdt(rng, rng.choice([0, 1, 3]))], lambda: [0x02],
              lambda: [0x03, bdt(rng, rng.choice([0, 2, 5]))], lambda: [0x05, rng.choice(TTLS)], lambda: [0x06],
              lambda: [0x07, fdt(rng, rng.choice([0, 1, 4]))], lambda: [0x08, ipaddr(rng)]]
    for mk in others:
        for _ in range(3):
            a, b, c = mk(), mk(), mk()
            hs.append([{"op": "send", "m": a, "slot": 1}, {"op": "send", "m": b, "slot": 1}, {"op": "loop", "m": b, "slot": 1},
                       {"op": "send", "m": c, "slot": 1, "stale": True}, {"op": "send", "m": c, "slot": 1},
                       {"op": "send", "m": a, "slot": 1, "codec": 1}])
    # refused sends (wrong stored length, values that cannot be written) and refused datagrams, then valid traffic
    refused = [{"op": "send", "m": [0x00, 7], "force_len": 4}, {"op": "send", "m": [0x01, bdt(rng, 2)], "force_len": 14},
               {"op": "send", "m": [0x07, fdt(rng, 1)], "force_len": 4}, {"op": "send", "m": [0x08, "0a0b"]},
               {"op": "send", "m": [0x04, "0a", "0102"]}, {"op": "send", "m": [0x03, [["c0a80001bac0ff", 0]]]},
               {"op": "cdec", "hex": "810a0005"}, {"op": "cdec", "hex": "8204000a00000000bac0"}, {"op": "cdec", "hex": "810c0004"},
               {"op": "cdec", "hex": "81040009c0a80001ba"}, {"op": "cdec", "hex": "8101000dc0a80001bac0ffffff"}, {"op": "cdec", "hex": ""}]
    valid = [{"op": "send", "m": m} for m in ([0x0A, pay(9)], [0x0B, pay(3)], [0x09, pay(5)], [0x04, ipaddr(rng), pay(7)],
                                               [0x00, 0], [0x05, 30], [0x03, bdt(rng, 2)], [0x07, fdt(rng, 2)], [0x02])]
    good_frames = [spec_frame(st["m"]).hex() for st in valid]
    for r in refused:
        for cdc in (0, 1):
            hs.append([dict(r, codec=cdc), dict(rng.choice(valid), codec=cdc), {"op": "cdec", "hex": rng.choice(good_frames), "codec": cdc},
                       dict(rng.choice(valid), codec=cdc, slot=2), dict(rng.choice(valid), codec=1 - cdc)])
    # the SAME datagram twice in a row (a repeated Who-Is, a retransmission): same source, broadcast and
    # unicast destination, also interleaved with others — every datagram handed to the codec is decoded once
    who_is = "0120ffff00ff1008"
    dups = [spec_frame([0x0B, who_is]).hex(), spec_frame([0x04, "c0a80709bac0", who_is]).hex(), spec_frame([0x0A, who_is]).hex(),
            spec_frame([0x09, who_is]).hex(), spec_frame([0x00, 0]).hex(), spec_frame([0x05, 30]).hex()]
    for fr in dups:
        other = rng.choice([d for d in dups if d != fr])
        for dest in ("bcast", "ucast", "none"):
            one = {"op": "cdec", "hex": fr, "dest": dest, "once": True}
            hs.append([one, one, one])
            hs.append([one, dict(one, src=9), one, {"op": "cdec", "hex": other, "dest": dest, "once": True}, one, one])
            hs.append([one, dict(one, dest="ucast" if dest != "ucast" else "bcast"), one, one, dict(one, codec=1), dict(one, codec=1)])
            hs.append([{"op": "cdec", "hex": fr, "dest": dest}, {"op": "send", "m": [0x0B, who_is]}, {"op": "cdec", "hex": fr, "dest": dest}])
    n = 120 if ctx.quick else 3000
    for _ in range(n):
        steps = []
        for _k in range(rng.choice([6, 10, 16])):
            r = rng.random()
            if r < .15:
                st = dict(rng.choice(refused))
            elif r < .3:
                st = {"op": "cdec", "hex": rng.choice(good_frames + dups[:2]), "dest": rng.choice(["bcast", "bcast", "ucast", "none"]),
                      "src": rng.choice([3, 3, 9])}
                if rng.random() < .6:
                    st["once"] = True
            else:
                code = rng.choice([0x04, 0x04, 0x09, 0x0A, 0x0B, 0x01, 0x03, 0x07, 0x00, 0x08])
                ln = rng.choice([0, 4, 4, 4, 9])
                m = {0x04: lambda: [0x04, ipaddr(rng), pay(ln)], 0x01: lambda: [0x01, bdt(rng, rng.choice([0, 2]))],
                     0x03: lambda: [0x03, bdt(rng, rng.choice([0, 2]))], 0x07: lambda: [0x07, fdt(rng, rng.choice([0, 2]))],
                     0x00: lambda: [0x00, rng.choice([0, 0x60])], 0x08: lambda: [0x08, ipaddr(rng)]}.get(code, lambda: [code, pay(ln)])()
                st = {"op": "loop" if rng.random() < .25 else "send", "m": m}
                if rng.random() < .75:
                    st["slot"] = rng.randrange(2)
                if rng.random() < .1:
                    st["stale"] = True
            st["codec"] = rng.randrange(2)
            steps.append(st)
        hs.append(steps)
    return hs


# ---------------------------------------------------------------- generators

IPS = [0, 1, 127, 128, 255]
PORTS = [0, 1, 47808, 65535]
MASKS = [0, 1, 0x80000000, 0xFF000000, 0xFFFFFF00, 0xFFFFFFFF]
TTLS = [0, 1, 30, 65535]


def ipaddr(rng):
    return (bytes(rng.choice(IPS) if rng.random() < .7 else rng.getrandbits(8) for _ in range(4))
            + (rng.choice(PORTS) if rng.random() < .7 else rng.getrandbits(16)).to_bytes(2, "big")).hex()


def rnd(rng, n):
    return bytes(rng.getrandbits(8) for _ in range(min(n, 16))).hex() + "00" * max(0, n - 16)


def bdt(rng, n):
    return [[ipaddr(rng), rng.choice(MASKS) if rng.random() < .8 else rng.getrandbits(32)] for _ in range(n)]


def fdt(rng, n):
    t = lambda: rng.choice(TTLS) if rng.random() < .8 else rng.getrandbits(16)
    return [[ipaddr(rng), t(), t()] for _ in range(n)]


def payload_lengths(ctx, rng):
    if not ctx.quick:
        return list(range(0, 1498))
    return sorted(set(list(range(0, 71)) + [127, 128, 251, 252, 253, 254, 255, 256, 257, 480, 1020, 1021, 1024,
                                            1476, 1495, 1496, 1497] + rng.sample(range(71, 1497), 40)))


def gen_msgs(ctx, rng):
    ms = [[0x02], [0x06]]
    for c in (0, 1, 0x10, 0x20, 0x30, 0x40, 0x50, 0x60, 255, 256, 65535):
        ms.append([0x00, c])
    for t in TTLS + [2, 255, 256, 65534]:
        ms.append([0x05, t])
    for n in list(range(0, 41)) + [41, 100, 255, 300]:
        ms.append([0x01, bdt(rng, n)])
        ms.append([0x03, bdt(rng, n)])
        ms.append([0x07, fdt(rng, n)])
    # the full address / mask / ttl grids, one entry each
    for a in IPS:
        for p in PORTS:
            addr = (bytes([a, 255 - a, a, a ^ 1]) + p.to_bytes(2, "big")).hex()
            ms.append([0x08, addr])
            ms.append([0x04, addr, rnd(rng, 3)])
            for k in MASKS:
                ms.append([rng.choice([0x01, 0x03]), [[addr, k]]])
            for t in TTLS:
                ms.append([0x07, [[addr, t, rng.choice(TTLS)]]])
    for n in payload_lengths(ctx, rng):
        ms.append([0x04, ipaddr(rng), rnd(rng, n)])
        ms.append([0x09, rnd(rng, n)])
        ms.append([0x0A, rnd(rng, n)])
        ms.append([0x0B, rnd(rng, n)])
    return ms


def gen_enc(ctx, rng):
    cases = [{"op": "enc", "m": m, "len": None} for m in gen_msgs(ctx, rng)]
    # stale stored lengths for every class
    samples = [[0x00, 7], [0x01, bdt(rng, 0)], [0x01, bdt(rng, 2)], [0x02], [0x03, bdt(rng, 2)],
               [0x04, ipaddr(rng), rnd(rng, 5)], [0x05, 30], [0x06], [0x07, fdt(rng, 0)], [0x07, fdt(rng, 3)],
               [0x08, ipaddr(rng)], [0x09, rnd(rng, 4)], [0x0A, rnd(rng, 0)], [0x0B, rnd(rng, 9)]]
    for m in samples:
        good = len(spec_frame(m))
        for ln in (0, 4, good - 1, good, good + 1, good + 10, 65535, 65536 + good):
            cases.append({"op": "enc", "m": m, "len": ln})
    # outside the quantifier: what the encoder really does
    out = [[0x00, 65536], [0x00, 70000], [0x05, 65537], [0x01, [["c0a80001bac0", 1 << 32]]],
           [0x03, [["c0a80001bac0", (1 << 32) + 5]]], [0x07, [["c0a80001bac0", 70000, 65536]]],
           [0x01, [["c0a80001ba", 0]]], [0x01, [["c0a80001ba", 0], ["c0a80001bac0ff", 0]]],   # 5 + 7 octets
           [0x03, [["c0a80001bac0ff", 0]]], [0x07, [["", 1, 2]]], [0x08, ""], [0x08, "0a"], [0x08, "0a0b0c0d0e0f10"],
           [0x04, "0a", "0102"], [0x04, "", ""], [0x0A, rnd(rng, 65531)], [0x0A, rnd(rng, 65532)],
           [0x0B, rnd(rng, 65540)], [0x01, bdt(rng, 6553)], [0x01, bdt(rng, 6554)]]
    cases += [{"op": "enc", "m": m, "len": None} for m in out]
    return cases


def frame(fn, body, length=None, typ=0x81):
    ln = len(body) + 4 if length is None else length
    return bytes([typ, fn]) + (ln & 0xFFFF).to_bytes(2, "big") + body


def gen_cdec(ctx, rng):
    cases = []
    for fn in range(256):
        for n in (0, 1, 2, 5, 6, 9, 10, 11, 20, 30):
            body = bytes(rng.getrandbits(8) for _ in range(n))
            cases.append({"op": "cdec", "hex": frame(fn, body).hex()})
        # type / length disagreements for every function code
        body = bytes(rng.getrandbits(8) for _ in range(10))
        for typ in (0x00, 0x80, 0x82, 0x01, 0xFF):
            cases.append({"op": "cdec", "hex": frame(fn, body, typ=typ).hex()})
        for d in (-14, -5, -1, 1, 2, 256, -256):
            cases.append({"op": "cdec", "hex": frame(fn, body, length=14 + d).hex()})
    for c in list(cases):
        cases.append({"op": "dec", "hex": c["hex"]})
    return cases


def gen_mutated(ctx, rng, frames):
    cases = []
    n = 4000 if ctx.quick else 150000
    frames = [f for f in frames if 0 < len(f) < 1600]
    for _ in range(n):
        b = bytearray(rng.choice(frames))
        kind = rng.randrange(9)
        if kind == 0:
            b[rng.randrange(len(b))] = rng.getrandbits(8)
        elif kind == 1:
            b[rng.randrange(min(4, len(b)))] = rng.choice([0, 1, 0x81, 0x80, 0xFF, rng.getrandbits(8)])
        elif kind == 2:
            del b[rng.randrange(len(b)):]                      # datagram cut short, length field untouched
        elif kind == 3:
            b.insert(rng.randrange(len(b) + 1), rng.getrandbits(8))
        elif kind == 4:
            del b[rng.randrange(len(b))]
        elif kind == 5 and len(b) >= 4:
            ln = (int.from_bytes(b[2:4], "big") + rng.choice([-10, -1, 1, 10, 256])) & 0xFFFF
            b[2:4] = ln.to_bytes(2, "big")                     # length field off, datagram untouched
        elif kind == 6 and len(b) >= 4:
            b[2], b[3] = b[3], b[2]
        elif kind == 7 and len(b) >= 4:
            k = rng.choice([-10, -6, -2, -1, 1, 2, 6, 10])     # consistent length, body resized
            body = b[4:len(b) + k] if k < 0 else b[4:] + bytearray(rng.getrandbits(8) for _ in range(k))
            b = bytearray(frame(b[1], bytes(body)))
        else:
            b = bytearray([0x81]) + bytearray(rng.getrandbits(8) for _ in range(rng.choice([1, 2, 3, 5, 9, 13, 14])))
        cases.append({"op": "cdec", "hex": bytes(b).hex()})
    return cases


def gen_bodies(ctx, rng):
    cases = []
    for fn in sorted(CLASSES) + [0x0C, 0x80, 0xFF]:
        for n in list(range(0, 32)) + [39, 40, 41, 100]:
            cases.append({"op": "bdec", "fn": fn, "hex": bytes(rng.getrandbits(8) for _ in range(n)).hex()})
    for fn in (0, 1, 11, 12, 200, 255, 256, 1000):
        for n in (0, 1, 7):
            for d in (0, 1, -1, 4):
                cases.append({"op": "benc", "fn": fn, "len": n + 4 + d, "hex": rnd(rng, n)})
    cases.append({"op": "benc", "fn": 10, "len": 65535, "hex": "00" * 65531})
    cases.append({"op": "benc", "fn": 10, "len": 65536, "hex": "00" * 65532})
    return cases


def gen_pack(ctx, rng):
    cases = []
    for a in IPS:
        for b in IPS:
            for p in PORTS + [47809, 65536, 70000, 131071]:
                ip = [a, b, rng.choice(IPS), rng.choice(IPS)]
                cases.append({"op": "pack", "ip": ip, "port": p})
    for ip in ([256, 1, 1, 1], [1, 1, 1, 256], [1, 300, 1, 1], [999, 0, 0, 0]):
        cases.append({"op": "pack", "ip": ip, "port": 47808})
    for n in range(0, 9):
        for _ in range(6):
            cases.append({"op": "unpack", "hex": bytes(rng.getrandbits(8) for _ in range(n)).hex()})
    for a in IPS:
        for p in PORTS:
            cases.append({"op": "unpack", "hex": (bytes([a, a ^ 255, 0, a]) + p.to_bytes(2, "big")).hex()})
    return cases


# ---------------------------------------------------------------- signatures

def size_class(n):
    for i, b in enumerate((0, 1, 2, 5, 6, 10, 40, 255, 1497, 65531)):
        if n <= b:
            return i
    return 10


def m_sig(m):
    code = m[0]
    if code in (0x01, 0x03, 0x07):
        return (code, min(len(m[1]), 41), size_class(len(m[1][0][0]) // 2) if m[1] else "-")
    if code == 0x04:
        return (code, size_class(len(m[1]) // 2), size_class(len(m[2]) // 2))
    if code in (0x08, 0x09, 0x0A, 0x0B):
        return (code, size_class(len(m[1]) // 2))
    if code in (0x00, 0x05):
        return (code, m[1] > 65535)
    return (code,)


def sig(case, r):
    op = case["op"]
    n = len(case.get("hex", "")) // 2
    if r.get("r") == "err":
        extra = ()
        if op in ("dec", "cdec"):
            b = bytes.fromhex(case["hex"][:8])
            extra = (min(n, 5), b[:1] == b"\x81", b[1] if len(b) > 1 and b[1] < 12 else 12,
                     (len(b) >= 4 and int.from_bytes(b[2:4], "big") == n))
        elif op == "bdec":
            extra = (case["fn"], min(n, 11))
        elif op == "enc":
            extra = m_sig(case["m"]) + (case["len"] is None,)
        elif op == "benc":
            extra = (min(case["fn"], 256), case["len"] - n)
        return ("err", r["k"]) + extra
    if op == "enc":
        return m_sig(case["m"]) + (case["len"] is None,)
    if op == "dec":
        return (min(r["fn"], 12), size_class(len(r["data"]) // 2))
    if op == "cdec":
        return ("unknown",) if r["r"] == "unknown" else m_sig(r["m"]) if "m" in r else (r.get("r"),)
    if op == "bdec":
        return m_sig(r["m"]) if r.get("r") == "ok" else (r.get("r"),)
    if op == "benc":
        return (min(case["fn"], 12), size_class(n))
    if op == "pack":
        return (case["port"] > 65535, tuple(x in (0, 255) for x in case["ip"]))
    return (min(n, 8),)


# ---------------------------------------------------------------- run

def run_cases(ctx, stream, cases):
    drv = core.Driver("drv_c09") if ctx.model_ok else None
    a = [impl(c) for c in cases]
    for c, r in zip(cases, a):
        oracle(ctx, c, r)
    if drv:
        b = drv.ask(cases)
        ctx.compare_stream(stream, cases, a, b, sig=sig)
    else:
        for c in cases:
            ctx.count(stream)
    for c in cases[:2]:
        ctx.sample({"stream": stream, "case": short_case(c)})
    return a


def shard_exh(ctx, spec):
    """all octet strings of `length` with integer value in [lo, hi), through
    the codec (cdec) and, for the short ones, BVLPDU.decode too"""
    length, lo, hi = spec
    hexes = [v.to_bytes(length, "big").hex() if length else "" for v in range(lo, hi)]
    run_cases(ctx, "cdec-exh-%d" % length, [{"op": "cdec", "hex": h} for h in hexes])
    if length <= 3:
        run_cases(ctx, "dec-exh-%d" % length, [{"op": "dec", "hex": h} for h in hexes])


def shard_other(ctx, spec):
    """datagrams of length 3 and 4 that do NOT start with 0x81: every (first,
    second) octet pair with a few tails each (the model proves the refusal
    depends on the first octet only: bvll_refuses_type)"""
    lo, hi, tails, seed = spec
    import random
    rng = random.Random(seed)
    cases = []
    for b0 in range(lo, hi):
        if b0 == 0x81:
            continue
        for b1 in range(256):
            for _ in range(tails):
                for n in (1, 2):
                    tail = bytes(rng.choice([0, 3, 4, 5, rng.getrandbits(8)]) for _ in range(n))
                    cases.append({"op": "cdec", "hex": (bytes([b0, b1]) + tail).hex()})
    run_cases(ctx, "cdec-other-3-4", cases)


def corpus_cases():
    import glob, json, os
    out = []
    for p in sorted(glob.glob(os.path.join(core.VERIF, "corpus", "C09", "*.json"))):
        d = json.load(open(p))
        out.extend(d["cases"] if "cases" in d else [d["case"]])
    return out


def run(ctx):
    rng = ctx.sub_rng("c09")
    cc = corpus_cases()
    if cc:
        run_cases(ctx, "corpus", [c for c in cc if c["op"] != "history"])
        run_histories(ctx, "corpus-history", [c["steps"] for c in cc if c["op"] == "history"])
    # real sockets first, in forked workers, before anything installs the virtual clock
    core.run_shards(ctx, "harness.c09", "shard_udp", [0, 1])
    enc = gen_enc(ctx, rng)
    impl_enc = run_cases(ctx, "enc", enc)
    oracle_mutated_table(ctx, rng)
    service_stream(ctx, ctx.sub_rng("c09-service"))
    run_histories(ctx, "history", gen_histories(ctx, ctx.sub_rng("c09-history")))
    run_cases(ctx, "cdec", gen_cdec(ctx, rng))
    frames = [bytes.fromhex(r["hex"]) for r in impl_enc if r.get("r") == "ok"]
    run_cases(ctx, "cdec-mutated", gen_mutated(ctx, rng, frames))
    run_cases(ctx, "bodies", gen_bodies(ctx, rng))
    run_cases(ctx, "pack", gen_pack(ctx, rng))
    # exhaustive short datagrams: everything up to 2 octets, and everything
    # starting with 0x81 up to 3 (quick) / 4 (thorough) octets
    specs = [(0, 0, 1), (1, 0, 256)] + [(2, lo, lo + 8192) for lo in range(0, 65536, 8192)]
    specs += [(3, 0x810000 + lo, 0x810000 + lo + 8192) for lo in range(0, 65536, 8192)]
    if not ctx.quick:
        step = 1 << 18
        specs += [(4, 0x81000000 + lo, 0x81000000 + lo + step) for lo in range(0, 1 << 24, step)]
    core.run_shards(ctx, "harness.c09", "shard_exh", specs)
    tails = 1 if ctx.quick else 6
    # run-time defined subclasses live and die in forked workers (>= 2 specs: run_shards forks)
    core.run_shards(ctx, "harness.c09", "shard_subclass", [(0, ctx.seed), (1, ctx.seed + 1)])
    core.run_shards(ctx, "harness.c09", "shard_other",
                    [(lo, lo + 16, tails, ctx.seed * 1000 + lo) for lo in range(0, 256, 16)])
    ctx.extra["exhaustive_datagram_length"] = {"any": 2, "starting_0x81": 3 if ctx.quick else 4}


def search(ctx):
    """focused failing-input search: the oracle alone over fresh, larger streams"""
    for rnd_ in range(3):
        rng = ctx.sub_rng("c09-search-%d" % rnd_)
        model_ok, ctx.model_ok = ctx.model_ok, False
        try:
            run_histories(ctx, "search-history", gen_histories(ctx, rng))
        finally:
            ctx.model_ok = model_ok
        if ctx.failures:
            return
        if rnd_ == 0:
            core.run_shards(ctx, "harness.c09", "shard_udp", [0, 1])
            core.run_shards(ctx, "harness.c09", "shard_subclass", [(0, 1), (1, 2)])
            if ctx.failures:
                return
        frames = []
        for c in gen_enc(ctx, rng):
            r = impl(c)
            oracle(ctx, c, r)
            if r.get("r") == "ok":
                frames.append(bytes.fromhex(r["hex"]))
        oracle_mutated_table(ctx, rng)
        for c in gen_cdec(ctx, rng) + gen_mutated(ctx, rng, frames) + gen_bodies(ctx, rng) + gen_pack(ctx, rng):
            oracle(ctx, c, impl(c))
        if ctx.failures:
            return
    for length in (0, 1, 2):
        for v in range(256 ** length):
            c = {"op": "cdec", "hex": v.to_bytes(length, "big").hex() if length else ""}
            oracle(ctx, c, impl(c))
    for v in range(0x810000, 0x820000):
        c = {"op": "cdec", "hex": v.to_bytes(3, "big").hex()}
        oracle(ctx, c, impl(c))


def replay(ctx, payload):
    rec = payload.get("failure") or (payload.get("correspondence_disagreements") or [{}])[0]
    case = rec.get("case")
    if not case or "op" not in case:
        raise core.Infra("nothing to replay")
    if case["op"] == "history":
        run_histories(ctx, "replay", [case["steps"]])
        return
    if case["op"] == "udp":
        udp_stream(ctx, [{"fn": case["fn"], "total": case["total"]}])
        return
    if case["op"] == "subclass-history":
        names = define_user_subclasses()
        if case["step"].get("op") != "registry":
            run_cases(Wrap(ctx, "subclass-history", "after defining unregistered subclasses: "), "replay", [case["step"]])
        check_registry(ctx, names)
        return
    if case["op"] == "mutated-table":
        oracle_mutated_table(ctx, ctx.sub_rng("c09"))
        return
    run_cases(ctx, "replay", [case])
