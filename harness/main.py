import argparse, importlib, os, sys, signal
from . import core


def main():
    ap = argparse.ArgumentParser()
    ap.add_argument("prop")
    ap.add_argument("--tier", default=os.environ.get("VERIF_TIER", "quick"))
    ap.add_argument("--replay", default=None)
    ap.add_argument("--timeout", type=int, default=None)
    a = ap.parse_args()
    tier = a.tier if a.tier in ("quick", "thorough") else "quick"
    try:
        seed = int(os.environ.get("VERIF_SEED", "0"))
    except ValueError:
        seed = 0
    limit = a.timeout or (900 if tier == "quick" else 7200)

    def on_alarm(*_):
        print("INFRA: check timed out after %d s" % limit)
        os._exit(2)
    signal.signal(signal.SIGALRM, on_alarm)
    signal.alarm(limit)
    prop = a.prop.upper()
    try:
        mod = importlib.import_module("harness." + prop.lower())
    except ImportError as e:
        print("INFRA: no check module for %s: %s" % (prop, e))
        sys.exit(2)
    sys.exit(core.run_check(prop, mod, tier, seed, a.replay))


if __name__ == "__main__":
    main()
