"""
C12 — what is sent respects what the peer said it can accept.

Correspondence (model = Model.Tsm through drv_c12, rig = harness/tsmlock.py):
lockstep over the capability grid

  client role : local (max APDU x segmentation x window) x peer device info
                (none | six max-APDU sizes x four segmentation values x
                max-segments {None,2,4,8,16,32,64,65} x NPDU limit) x payload
                lengths at every boundary +-1 (fits unsegmented, 2 segments,
                max-segments boundary); the harness plays a conforming server
                (acks every window) until the request is out
  server role : request header (max-APDU code 0..5 and reserved 6..15 x
                max-segments code 0..7 x segmented-response-accepted) x local
                (segmentation x window) x cached device info x response
                lengths at every boundary +-1; conforming client acks
  windows     : both receiving roles with proposed windows {0,1,2,127,128,255}
                against own {1,2,127}
  relearn     : the peer's record changes (larger<->smaller max APDU, segmentation
                support both ways, max-segments appearing) BETWEEN a transmission and
                its timeout retry; each cut judged against the record known when it
                is cut; also end-to-end (older I-Am too generous, newer one in time)
  mixed       : one access point in both roles: learn (every segmentation value) ->
                serve 1..2 requests from the peer (unsegmented / segmented, SA set /
                clear) -> long request to that peer: segmented only if the I-Am or a
                seen SA flag allows it
  vary        : the scripted receiver raises and lowers its window with every ack
                (a smaller window is granted with a partial ack inside it)
  long        : 257 / 267 (thorough also 513 / 600) segments in both directions, own
                proposal 16, the receiver grants 4 (thorough also 1, 7): the wire
                sequence number wraps; every non-first segment must carry the window
                the last SegmentAck granted
  cache       : the REAL DeviceInfoCache against Model.Tsm.Cache, operation by operation:
                histories of I-Am (4 instances, 3 addresses, as octets) / acquire /
                release; oracle: after an I-Am the lookups by address and by instance
                return what it announced
  cache-history: I-Ams of several instances from several addresses (announcing again,
                taking an address over) interleaved with requests in flight / retried /
                finished; every request is sized by the LATEST I-Am from its destination
  loss        : senders with own window {2,8,16,127} whose first segment / first ack
                is lost 1..2 times (segment timer fires before any SegmentAck), the
                receiver then grants window 1
  reception   : receiving a segmented request / ComplexAck with own window in
                {1,2,8,16,127} != sender's {1,2,3,8,127}; in-order segments with an
                out-of-order / duplicate / stale segment injected at every position

Implementation-side oracle (independent of the model), on the frames the REAL
access point emitted (length = real APCI encoder):
  len(APDU) <= maximum the peer announced (request header / I-Am record);
  segmented only if allowed (SA flag / peer record receives segments; local
  device transmits); number of segments <= the stated maximum; otherwise
  exactly one abort (segmentationNotSupported | apduTooLong) to the requester
  and no data frame; offered window = own in 1..127; used window = min(own,
  proposed), in 1..127 whenever both are; EVERY SegmentAck (ack or nak) carries a
  window <= what the sender proposed in its first segment.  The response limit is
  At every instant a sender has at most `granted window` (1 before the first
  SegmentAck) distinct unacknowledged segments on the wire (lockstep AND wire).
  The response limit is
  decoded by the harness from the header code of the request itself; `learn`
  events with a larger / smaller I-Am maximum precede the request.
End-to-end: two complete stacks (harness/e2e.py) over the fault-free VLAN for
capability pairs x lengths; every frame on the wire is measured against the
RECEIVER's configured capabilities.
"""
import json, os, random
from . import core
from . import tsmlock as T

LEAN_TARGETS = ["BacVerif.Props.C12", "drv_c12"]
LEANCHECKER = ["BacVerif.Props.C12"]
LEVEL = "proof"
RULE = ("grid: six APDU sizes x max-segments codes x four segmentation settings x windows {1,2,127} x "
        "payload lengths at every boundary +-1 (quick: random 1/4 (client) and 1/2 (server) sample of the capability grid, all "
        "boundary lengths), both roles, conforming peer played by the harness; window stream over proposed "
        "{0,1,2,127,128,255}; end-to-end capability pairs over the VLAN. distinct = model branch signatures "
        "x (role, fits|segmented|refused-reason) classes")
TRUSTED = ["lean/BacVerif/Model/Tsm/*.lean hand transcription tied by lockstep",
           "harness/tsmlock.py; the real APCI encoder measures frame lengths",
           "harness/e2e.py (coordinator) for the end-to-end stacks"]
ASSUMPTIONS = ["an application's Error/SimpleAck/Reject/Abort response carries no oversized payload "
               "(only ComplexAck responses are cut); inbound Abort PDUs carry no payload",
               "device information of a peer is not lowered while a request to it is being sent"]

APDUS = [50, 128, 206, 480, 1024, 1476]
MAXSEGS = [None, 2, 4, 8, 16, 32, 64, 65]
WINDOWS = [1, 2, 127]


def GENERATED(ctx):
    from translator import tsm as tr
    tr.generate()


def pattern(n, salt=0):
    return bytes(((i * 131 + (i >> 8) * 17 + salt * 29 + 7) & 0xFF) for i in range(n))


def boundary_lengths(m, uh, sh, maxsegs):
    """payload lengths around every boundary for maximum APDU m"""
    size = m - sh
    pts = {0, 1, m - uh - 1, m - uh, m - uh + 1, 2 * size - 1, 2 * size, 2 * size + 1, 3 * size + 1}
    for n in (maxsegs,):
        if n and n <= 64:
            pts |= {n * size - 1, n * size, n * size + 1}
        elif n:
            pts |= {64 * size + 1}
    return sorted(p for p in pts if p >= 0)


# ---------------------------------------------------------------- oracle pieces

class Fail:
    def __init__(self, ctx, L, label, params):
        self.ctx, self.L, self.label, self.params = ctx, L, label, params

    def __call__(self, kind, what):
        self.ctx.fail(kind, {"label": self.label, "params": self.params, "reset": self.L.reset_line,
                             "events": list(self.L.events)}, what)


def data_frames(outs, t):
    return [o for o in outs if o["o"] == "send" and o["h"][0] == t]


def check_lengths(fail, outs, peer, limit, what):
    for o in outs:
        if o["o"] == "send" and o["peer"] == peer:
            if not isinstance(o["len"], int):
                fail("encode", "frame could not be encoded: %r" % (o,))
            elif o["len"] > limit:
                fail("apdu-too-long", "%s: APDU of %d octets toward a peer that announced %d" % (what, o["len"], limit))


class InFlight:
    """a sender's obligation: at every instant the number of DISTINCT segments it has put
    on the wire since the last SegmentAck that reached it is <= the window granted in THAT
    ack, and <= 1 before the first ack (retransmissions of the same segment do not count
    twice; segments already out when a smaller window arrives are not held against it)."""

    def __init__(self, fail, what):
        self.fail, self.what = fail, what
        self.granted = None
        self.unacked = set()
        self.worst = 0

    def sent(self, seq, win=None):
        # once a SegmentAck has been accepted every segment is a NON-FIRST one (the first is
        # never sent again): its window field is the ACTUAL window, i.e. what the last ack
        # granted - also for segment 256, 512, ... whose wire sequence number is 0 again
        if self.granted is not None and win is not None and win != self.granted:
            self.fail("window-field", "%s: segment with sequence number %d carries window %r, the last SegmentAck granted %d "
                      "(only the first segment of a message offers the sender's own proposal)" % (self.what, seq, win, self.granted))
        self.unacked.add(seq)
        limit = 1 if self.granted is None else self.granted
        self.worst = max(self.worst, len(self.unacked))
        if len(self.unacked) > limit:
            self.fail("window-in-flight", "%s: %d distinct segments %r put on the wire since the last SegmentAck, %s" % (
                self.what, len(self.unacked), sorted(self.unacked),
                "none received yet (only the first segment may be out)" if self.granted is None
                else "which granted window %d" % self.granted))

    def acked(self, seq, win):
        """a SegmentAck (ack or nak) for `seq` with window `win` reached the sender"""
        self.granted = win
        self.unacked = set()

    def feed(self, outs, ptype, seq_at):
        for o in outs:
            if o["o"] == "send" and o["h"][0] == ptype and o["h"][1]:
                self.sent(o["h"][seq_at], o["h"][seq_at + 1])


def play_acks(L, flight, outs, ptype, rng, win=None, vary=False):
    """the harness plays the RECEIVER of a segmented transfer the access point is sending
    (ptype 0: we are the server of its request; 3: the client of its response): it
    acknowledges every burst until the final segment was seen.  win: fixed window;
    vary: the window changes with every ack (raised and lowered).  A window SMALLER than
    the burst is granted with a partial (negative) ack inside the new window - the only way
    the code accepts it (see notes/C12.md, 'shrinking window').  Returns every output."""
    seq_at, id_at, srv = (7, 6, 1) if ptype == 0 else (4, 3, 0)
    got = []
    guard = 0
    while guard < 600:
        guard += 1
        segs = [o for o in outs if o["o"] == "send" and o["h"][0] == ptype and o["h"][1]]
        if not segs:
            break
        first, last = segs[0]["h"], segs[-1]["h"]
        w = win if not vary else rng.choice([1, 1, 2, 3, 4, 8, 16])
        burst = len(set(f["h"][seq_at] for f in segs))
        if vary and w < burst and last[2]:
            # lower the window: acknowledge only part of the burst, inside the new window
            j = rng.randrange(w)
            a = {"t": 4, "srv": srv, "nak": 1, "id": first[id_at], "seq": (first[seq_at] + j) % 256, "win": w}
            final = False
        else:
            a = {"t": 4, "srv": srv, "id": last[id_at], "seq": last[seq_at], "win": w}
            final = not last[2]
        flight.acked(a["seq"], w)
        outs = L.frame(0, a)["out"]
        flight.feed(outs, ptype, seq_at)
        got += outs
        if final:
            break
    return got


def client_expect(cfg, di, n):
    """what C12 demands of a request of n octets toward a peer with record `di` (None: no
    record, the client may assume its own maximum) -> (expectation, limit, count, peer_max)"""
    if di and di["maxApdu"] is not None:
        limit = di["maxApdu"] if di["maxNpdu"] is None else min(di["maxApdu"], di["maxNpdu"])
    else:
        limit = cfg["maxApdu"]
    fits = n + 4 <= limit
    size = limit - 6
    count = 1 if fits else (-(-n // size) if size > 0 else 0)
    may_tx = cfg["seg"] in (1, 3)
    peer_rx = (di is None) or di["seg"] in (2, 3)
    peer_max = di["maxSegs"] if di else None
    if fits:
        expect = "unsegmented"
    elif size <= 0:
        expect = ("abort", 11)
    elif not may_tx or not peer_rx:
        expect = ("abort", 4)
    elif peer_max and count > peer_max:
        expect = ("abort", 11)
    else:
        expect = "segmented"
    return expect, limit, count, peer_max


def judge_client_cut(fail, cfg, n, exp, all_out, gone, what="request"):
    """the oracle for one (re)cut of a client request: `all_out` = everything emitted from
    the cut until the request was out; gone = no client transaction is left"""
    expect, limit, count, peer_max = exp
    check_lengths(fail, all_out, 0, limit, what)
    reqs = data_frames(all_out, 0)
    confs = [o for o in all_out if o["o"] == "conf"]
    if expect == "unsegmented":
        if len(reqs) != 1 or reqs[0]["h"][1] or confs:
            fail("unsegmented", "%s: a request that fits was not sent as one unsegmented APDU: %r" % (what, all_out))
    elif expect == "segmented" and not reqs:
        fail("segment-count", "%s: a request that must be segmented produced no request frame: %r" % (what, all_out))
    elif expect == "segmented":
        if any(not f["h"][1] for f in reqs):
            fail("segmentation", "%s: unsegmented frame in a segmented request" % what)
        seqs = [f["h"][7] for f in reqs if f["h"][1]]
        total = len(set(seqs)) if count <= 256 else len(reqs)
        if total != count or reqs[-1]["h"][2]:
            fail("segment-count", "%s: expected %d segments, saw %d distinct (last more-follows=%s)" % (
                what, count, total, reqs[-1]["h"][2]))
        if peer_max and total > peer_max:
            fail("segments-bound", "%s: %d segments toward a peer accepting %d" % (what, total, peer_max))
        segd = [f for f in reqs if f["h"][1]]
        if segd and (segd[0]["h"][8] != cfg["window"] or not (1 <= segd[0]["h"][8] <= 127)):
            fail("window-range", "first segment proposes window %r (own %r)" % (segd[0]["h"][8], cfg["window"]))
        for f in segd[1:]:
            if not (1 <= f["h"][8] <= 127):
                fail("window-range", "segment carries window %r" % f["h"][8])
    else:
        reason = expect[1]
        if reqs or len(confs) != 1 or confs[0]["h"][0] != 7 or confs[0]["h"][3] != reason \
                or len(all_out) != 1 or not gone:
            fail("cannot-send", "%s: expected only an abort %d to the application, got %r" % (what, reason, all_out))


# ---------------------------------------------------------------- client role

def client_scenario(ctx, label, cfg, di, n, rng, loss=0, vary=False, rseed=None, fixed_win=None):
    """request of n octets toward peer 0; conforming server acks until all is out.
    loss = k: the first segment (or the server's first ack) is lost k times, i.e. the
    segment timer fires k times before any SegmentAck arrives.  vary: the server changes
    the window it grants with every ack."""
    if rseed is None:
        rseed = rng.getrandbits(48)
    rng = random.Random(rseed)      # every random choice of the scenario derives from rseed (replayable)
    try:
        L = T.Lock(cfg, [[0, di]] if di else [], strict_learn=True)
    except T.LearnError as e:
        ctx.fail("iam-not-learned", {"label": label, "params": {"role": "client", "cfg": cfg, "di": di, "n": n}},
                 "the limits a peer announces in its I-Am are never used for requests: %s" % e)
        L = T.Lock(cfg, [[0, di]] if di else [])
    L.label = label
    fail = Fail(ctx, L, label, {"role": "client", "cfg": cfg, "di": di, "n": n, "loss": loss, "vary": vary, "rseed": rseed, "fixed_win": fixed_win})
    r = L.request(0, 200, pattern(n))
    outs = list(r["out"])
    flight = InFlight(fail, "request")
    flight.feed(outs, 0, 7)
    all_out = list(outs)
    for _ in range(loss):
        if not L.smap.clientTransactions or L.smap.clientTransactions[0].state != 1:
            break
        rr = L.fire_next()
        if rr is None:
            break
        more = rr[1]["out"]
        flight.feed(more, 0, 7)
        all_out += more
        if data_frames(more, 0):
            outs = more
    exp = client_expect(cfg, di, n)
    if exp[0] == "segmented":
        all_out += play_acks(L, flight, outs, 0, rng, win=fixed_win or (1 if loss else rng.choice([1, 2, 3, cfg["window"]])), vary=vary)
    judge_client_cut(fail, cfg, n, exp, all_out, not L.smap.clientTransactions)
    expect = exp[0]
    ctx.count("client-class", ("client", expect if isinstance(expect, str) else "abort%d" % expect[1], bool(vary)))
    return L


def relearn_scenario(ctx, label, cfg, d1, d2, n, rng, rseed=None):
    """the peer's record CHANGES between a transmission and its timeout retry (a newer
    I-Am, an edited record): request with record d1, nobody answers, `learn` d2, the APDU
    timer fires.  Every frame is judged against the capabilities known WHEN IT IS CUT:
    the first attempt against d1, the retry against d2."""
    if rseed is None:
        rseed = rng.getrandbits(48)
    rng = random.Random(rseed)      # every random choice of the scenario derives from rseed (replayable)
    L = T.Lock(cfg, [[0, d1]])
    L.label = label
    fail = Fail(ctx, L, label, {"role": "relearn", "cfg": cfg, "d1": d1, "d2": d2, "n": n, "rseed": rseed})
    r = L.request(0, 200, pattern(n))
    outs = list(r["out"])
    flight = InFlight(fail, "request")
    flight.feed(outs, 0, 7)
    e1 = client_expect(cfg, d1, n)
    all1 = list(outs)
    if e1[0] == "segmented":
        all1 += play_acks(L, flight, outs, 0, rng, win=rng.choice([1, 2, 4]))
    judge_client_cut(fail, cfg, n, e1, all1, not L.smap.clientTransactions, "first attempt")
    if not L.smap.clientTransactions or L.smap.clientTransactions[0].state != 2:
        ctx.count("relearn-class", ("no-retry", e1[0] if isinstance(e1[0], str) else "abort"))
        return L
    L.learn(0, d2)
    rr = L.fire_next()                       # the APDU timeout: the request is cut again
    outs2 = list(rr[1]["out"]) if rr else []
    flight2 = InFlight(fail, "retry")
    flight2.feed(outs2, 0, 7)
    e2 = client_expect(cfg, d2, n)
    all2 = list(outs2)
    if e2[0] == "segmented":
        all2 += play_acks(L, flight2, outs2, 0, rng, win=rng.choice([1, 2, 4]))
    judge_client_cut(fail, cfg, n, e2, all2, not L.smap.clientTransactions, "retry after the record changed")
    cls = lambda e: e[0] if isinstance(e[0], str) else "abort%d" % e[0][1]
    ctx.count("relearn-class", (cls(e1), cls(e2), d1["maxApdu"] > d2["maxApdu"], d1["seg"] == d2["seg"]))
    return L


SHAPES = [("unseg", 0), ("unseg", 1), ("seg", 0), ("seg", 1)]


def mixed_role_scenario(ctx, label, cfg, s0, shapes, rng, rseed=None):
    """one access point in both roles: it learns (I-Am) that peer 0 supports segmentation
    value s0, SERVES one or two requests from that peer (unsegmented / segmented, SA flag
    set / clear), and later sends a long request of its own to that peer.
    Oracle: the request is segmented only toward a peer whose ANNOUNCED capability (I-Am)
    or DEMONSTRATED receive capability (it sent a request with segmented-response-accepted)
    allows it; otherwise the application gets abort segmentationNotSupported."""
    if rseed is None:
        rseed = rng.getrandbits(48)
    rng = random.Random(rseed)      # every random choice of the scenario derives from rseed (replayable)
    m = 206
    L = T.Lock(cfg, [[0, {"maxApdu": m, "seg": s0, "maxSegs": None, "maxNpdu": None}]])
    L.label = label
    fail = Fail(ctx, L, label, {"role": "mixed", "cfg": cfg, "s0": s0, "shapes": shapes, "rseed": rseed})
    can_rx = s0 in (2, 3)
    inv = 30
    for shape, sa in shapes:
        inv += 1
        hdr = {"t": 0, "id": inv, "svc": 200, "maxResp": 2, "maxSegs": 3, "sa": sa}
        if shape == "unseg":
            L.frame(0, dict(hdr, hex="0102"))
        else:
            L.frame(0, dict(hdr, seg=1, mor=1, seq=0, win=2, hex="0102"))
            L.frame(0, dict(hdr, seg=1, mor=0, seq=1, win=2, hex="0304"))
        L.response(0, {"t": 2, "id": inv, "svc": 200})
        if sa:
            can_rx = True            # it asked for a segmented response: it can receive segments
    if L.smap.serverTransactions:
        fail("mixed", "a served request left a transaction: %r" % (L.snapshot()["sv"],))
    n = 3 * (m - 6) + 5
    r = L.request(0, 200, pattern(n))
    outs = list(r["out"])
    flight = InFlight(fail, "request")
    flight.feed(outs, 0, 7)
    reqs = data_frames(outs, 0)
    confs = [o for o in outs if o["o"] == "conf"]
    if can_rx and cfg["seg"] in (1, 3):
        outs += play_acks(L, flight, outs, 0, rng, win=2)
        judge_client_cut(fail, cfg, n, ("segmented", m, 4, None), outs, not L.smap.clientTransactions, "request after serving")
    else:
        if reqs or len(confs) != 1 or confs[0]["h"][0] != 7 or confs[0]["h"][3] != 4 or L.smap.clientTransactions:
            fail("segmentation-allowed", "a request was cut into segments toward a peer whose I-Am says %s and which never "
                 "set segmented-response-accepted (served before: %r): %r" % (T.SEG_NAMES[s0], shapes, outs[:2]))
    ctx.count("mixed-class", (s0, tuple(shapes), can_rx))
    return L


# ---------------------------------------------------------------- server role

def server_scenario(ctx, label, cfg, di, hdr, n, rng, loss=0, vary=False, rseed=None, fixed_win=None):
    """request with capability header `hdr` from peer 0; application answers with n octets;
    loss = k: the first response segment (or the client's first ack) is lost k times"""
    if rseed is None:
        rseed = rng.getrandbits(48)
    rng = random.Random(rseed)      # every random choice of the scenario derives from rseed (replayable)
    L = T.Lock(cfg, [])
    L.label = label
    fail = Fail(ctx, L, label, {"role": "server", "cfg": cfg, "di": di, "hdr": hdr, "n": n, "loss": loss, "vary": vary, "rseed": rseed, "fixed_win": fixed_win})
    if di:
        # the application learns about the peer (I-Am) BEFORE the request arrives: its
        # maximum may be larger or smaller than what the request header will announce
        L.learn(0, di)
    a = {"t": 0, "id": 7, "svc": 200, "maxResp": hdr["maxResp"], "maxSegs": hdr["maxSegs"], "sa": hdr["sa"], "hex": "01"}
    r = L.frame(0, a)
    all_out = list(r["out"])
    table = [50, 128, 206, 480, 1024, 1476]
    if hdr["maxResp"] > 5:
        # reserved code: refused with an abort, no transaction
        ab = [o for o in all_out if o["o"] == "send" and o["h"][0] == 7]
        if len(all_out) != 1 or len(ab) != 1 or L.smap.serverTransactions:
            fail("reserved-code", "reserved max-APDU code %d: %r" % (hdr["maxResp"], all_out))
        ctx.count("server-class", ("server", "reserved"))
        return L
    # the limit for the answer is what the REQUEST BEING ANSWERED announced (decoded here from
    # the header code, independently of the stack); a cached value may lower, never raise it
    announced = table[hdr["maxResp"]]
    limit = announced
    if di and di["maxApdu"] is not None:
        limit = min(limit, di["maxApdu"])
    if di and di["maxNpdu"] is not None:
        limit = min(limit, di["maxNpdu"])
    r = L.response(0, {"t": 3, "id": 7, "svc": 200, "hex": pattern(n).hex()})
    outs = r["out"]
    all_out += outs
    flight = InFlight(fail, "response")
    flight.feed(outs, 3, 4)
    for _ in range(loss):
        if not L.smap.serverTransactions or L.smap.serverTransactions[0].state != 4:
            break
        rr = L.fire_next()
        if rr is None:
            break
        more = rr[1]["out"]
        flight.feed(more, 3, 4)
        all_out += more
        if data_frames(more, 3):
            outs = more
    fits = n + 3 <= limit
    size = limit - 5
    count = 1 if fits else (-(-n // size) if size > 0 else 0)
    maxsegs = [None, 2, 4, 8, 16, 32, 64, None][hdr["maxSegs"]]
    if fits:
        expect = "unsegmented"
    elif size <= 0:
        expect = ("abort", 11)
    elif cfg["seg"] not in (1, 3) or not hdr["sa"]:
        expect = ("abort", 4)
    elif maxsegs is not None and count > maxsegs:
        expect = ("abort", 11)
    else:
        expect = "segmented"
    if expect == "segmented":
        all_out += play_acks(L, flight, outs, 3, rng, win=fixed_win or (1 if loss else rng.choice([1, 2, 3, cfg["window"]])), vary=vary)
    acks = data_frames(all_out, 3)
    check_lengths(fail, all_out, 0, announced, "response")
    aborts = [o for o in all_out if o["o"] == "send" and o["h"][0] == 7]
    if expect == "unsegmented":
        if len(acks) != 1 or acks[0]["h"][1] or aborts:
            fail("unsegmented", "a response that fits was not sent as one unsegmented APDU: %r" % (all_out[1:],))
    elif expect == "segmented" and not acks:
        fail("segment-count", "a response that must be segmented produced no ComplexAck frame: %r" % (all_out[1:],))
    elif expect == "segmented":
        if any(not f["h"][1] for f in acks):
            fail("segmentation", "unsegmented frame in a segmented response")
        if not hdr["sa"]:
            fail("segmentation-allowed", "segmented response although the request did not accept one")
        total = len(set(f["h"][4] for f in acks if f["h"][1])) if count <= 256 else len(acks)
        if total != count or acks[-1]["h"][2]:
            fail("segment-count", "expected %d segments, saw %d" % (count, total))
        if maxsegs is not None and total > maxsegs:
            fail("segments-bound", "%d segments, request accepts %d" % (total, maxsegs))
        segd = [f for f in acks if f["h"][1]]
        if segd and (segd[0]["h"][5] != cfg["window"] or not (1 <= segd[0]["h"][5] <= 127)):
            fail("window-range", "first segment proposes window %r (own %r)" % (segd[0]["h"][5], cfg["window"]))
        for f in segd[1:]:
            if not (1 <= (f["h"][5] or 0) <= 127):
                fail("window-range", "segment carries window %r" % f["h"][5])
    else:
        reason = expect[1]
        if acks or len(aborts) != 1 or aborts[0]["h"][1] != 1 or aborts[0]["h"][3] != reason \
                or len(outs) != 1 or L.smap.serverTransactions:
            fail("cannot-send", "expected only an abort %d to the requester, got %r" % (reason, outs))
    ctx.count("server-class", ("server", expect if isinstance(expect, str) else "abort%d" % expect[1]))
    return L


# ---------------------------------------------------------------- windows

def window_scenario(ctx, label, own, proposed):
    """both receiving roles: the window we answer with"""
    cfg = T.default_cfg()
    cfg.update(seg=3, window=own, maxSegs=16)
    L = T.Lock(cfg, [])
    L.label = label
    fail = Fail(ctx, L, label, {"role": "window", "own": own, "proposed": proposed})
    # server receiving a segmented request
    r = L.frame(0, {"t": 0, "id": 3, "svc": 200, "maxResp": 5, "maxSegs": 4, "sa": 1, "seg": 1, "mor": 1,
                    "seq": 0, "win": proposed, "hex": "aa"})
    acks = [o for o in r["out"] if o["o"] == "send" and o["h"][0] == 4]
    # client receiving a segmented response
    L.request(1, 200, b"q")
    r2 = L.frame(1, {"t": 3, "id": 1, "svc": 200, "seg": 1, "mor": 1, "seq": 0, "win": proposed, "hex": "bb"})
    acks2 = [o for o in r2["out"] if o["o"] == "send" and o["h"][0] == 4]
    for who, ak in (("server", acks), ("client", acks2)):
        if len(ak) != 1:
            fail("window", "%s: expected one segment ack, got %r" % (who, ak))
            continue
        w = ak[0]["h"][5]
        if w > proposed:
            fail("window-range", "%s uses window %d, the sender proposed %d" % (who, w, proposed))
        if 1 <= proposed <= 127 and 1 <= own <= 127 and not (1 <= w <= 127):
            fail("window-range", "%s uses window %d (own %d, proposed %d)" % (who, w, own, proposed))
        if who == "server" and w != min(own, proposed):
            fail("window-range", "server uses window %d, expected min(%d,%d)" % (w, own, proposed))
    return L


# ---------------------------------------------------------------- reception with faults

def reception_scenario(ctx, label, own, prop, direction, pos, kind):
    """we RECEIVE a segmented message (direction 'server': a request; 'client': a
    ComplexAck) whose sender proposed window `prop` while our own proposal is
    `own`; segments arrive in order except at position `pos`, where a fault
    segment is injected: out-of-order (last+2), duplicate (last) or stale (last-1).
    Oracle: EVERY SegmentAck the real code emits (ack or nak) carries a window in
    1..127 that does not exceed what the sender proposed in its first segment."""
    cfg = T.default_cfg()
    cfg.update(seg=3, window=own, maxSegs=16)
    L = T.Lock(cfg, [])
    L.label = label
    fail = Fail(ctx, L, label, {"role": "reception", "own": own, "proposed": prop, "direction": direction,
                                "pos": pos, "kind": kind})
    outs = []
    if direction == "server":
        def seg(seq, mor):
            return {"t": 0, "id": 5, "svc": 200, "maxResp": 5, "maxSegs": 4, "sa": 1, "seg": 1, "mor": mor,
                    "seq": seq % 256, "win": prop, "hex": "%02x%02x" % (seq % 256, 0xa0)}
    else:
        L.request(0, 200, b"q")
        def seg(seq, mor):
            return {"t": 3, "id": 1, "svc": 200, "seg": 1, "mor": mor, "seq": seq % 256, "win": prop,
                    "hex": "%02x%02x" % (seq % 256, 0xb0)}
    total = 6
    last = -1
    for i in range(total):
        if i == pos and i > 0:
            bad = {"ooo": last + 2, "dup": last, "stale": last - 1}[kind]
            outs += L.frame(0, seg(bad, 1))["out"]
        outs += L.frame(0, seg(i, 0 if i == total - 1 else 1))["out"]
        last = i
    acks = [o for o in outs if o["o"] == "send" and o["h"][0] == 4]
    if not acks:
        fail("window", "no segment ack at all while receiving: %r" % (outs,))
    for o in acks:
        w = o["h"][5]
        if w is None or w > prop:
            fail("window-range", "%s %s offers window %r, the sender proposed %d (own %d)" % (
                direction, "nak" if o["h"][1] else "ack", w, prop, own))
        elif not (1 <= w <= 127):
            fail("window-range", "%s segment ack carries window %r (own %d, proposed %d)" % (direction, w, own, prop))
    ctx.count("reception-class", (direction, kind, own > prop, any(o["h"][1] for o in acks)))
    return L


# ---------------------------------------------------------------- the device-information cache

# device instance numbers and station numbers OVERLAP on purpose: the cache keeps records under
# the instance (an int) and under the address in ONE dict, and Address.__eq__ coerces ints
# (Address(10) == 10): the stations are 10, 11, 12; the instances 10, 11, 12 (a device whose
# instance equals its own or ANOTHER device's MAC) and 7.  In the unchanged tree the two kinds
# of key never meet because hash(Address) is the hash of a tuple, not of the station number.
CACHE_MACS = [10, 11, 12]
CACHE_INSTS = [10, 11, 12, 7]


def cache_ops(rng, n):
    """a history of DeviceInfoCache operations over 3 addresses and 4 device instances"""
    ops, nacq = [], 0
    for _ in range(n):
        r = rng.random()
        if r < 0.6 or not ops:
            ops.append(["iam", rng.choice(CACHE_INSTS), rng.randrange(3), rng.choice(APDUS), rng.randrange(4)])
        elif r < 0.8:
            if rng.random() < 0.7:
                ops.append(["acq", "a", rng.randrange(3)])
            else:
                ops.append(["acq", "i", rng.choice(CACHE_INSTS)])
            nacq += 1
        else:
            ops.append(["rel", rng.randrange(max(1, nacq))])
    return ops


def cache_shard(ctx, items):
    """the REAL DeviceInfoCache against Model.Tsm.Cache, operation by operation (I-Ams arrive
    as hand-encoded octets decoded by the library), plus the oracle: right after an I-Am of
    instance i from address a the lookups by a and by i return what it announced."""
    L = T.Lock(T.default_cfg(), [])
    from bacpypes.app import DeviceInfoCache
    from bacpypes.pdu import Address
    A = [Address(m) for m in CACHE_MACS]
    addrs, insts = [0, 1, 2], list(CACHE_INSTS)
    cases, impl = [], []
    for ops in items:
        cache = DeviceInfoCache()
        handles, views = [], []

        def view():
            out = []
            for k in [A[a] for a in addrs] + insts:
                rec = cache.get_device_info(k)
                if rec is None:
                    out.append(None)
                    continue
                seg = rec.segmentationSupported
                out.append([rec.deviceIdentifier, ([i for i, x in enumerate(A) if x == rec.address] + [99])[0],
                            rec.maxApduLengthAccepted,
                            T.SEG_NAMES.index(seg) if seg in T.SEG_NAMES else -1,
                            rec.maxSegmentsAccepted, rec.maxNpduLength, getattr(rec, "_ref_count", 0)])
            return out
        case = {"op": "cache", "ops": ops, "addrs": addrs, "insts": insts}
        for n, o in enumerate(ops):
            try:
                if o[0] == "iam":
                    cache.iam_device_info(L.decode_iam(L.iam_octets(o[1], o[3], T.SEG_CODES[o[4]]), A[o[2]]))
                elif o[0] == "acq":
                    rec = cache.acquire(A[o[2]] if o[1] == "a" else o[2])
                    if rec is not None:
                        handles.append(rec)
                elif o[0] == "rel":
                    if o[1] < len(handles):
                        try:
                            cache.release(handles[o[1]])
                        except RuntimeError:
                            pass          # "reference count": modelled as no change
            except Exception as e:
                ctx.fail("cache-exception", dict(case, upto=n + 1), "DeviceInfoCache raised %s: %s at operation %d %r" % (
                    type(e).__name__, e, n, o))
            v = view()
            views.append(v)
            if o[0] == "iam":
                want = [o[1], o[2], o[3], o[4]]
                by_a, by_i = v[addrs.index(o[2])], v[len(addrs) + insts.index(o[1])]
                if by_a is None or by_a[:4] != want or by_i is None or by_i[:4] != want:
                    ctx.fail("latest-iam", dict(case, upto=n + 1),
                             "after the I-Am of device %d from address %d (max APDU %d, %s) the cache returns %r for the "
                             "address and %r for the instance" % (o[1], o[2], o[3], T.SEG_NAMES[o[4]], by_a, by_i))
        cases.append(case)
        impl.append({"r": "ok", "views": views})
    if ctx.model_ok:
        model = core.Driver("drv_c12").ask(cases)
        ctx.compare_stream("cache", cases, impl, model,
                           sig=lambda c, m: (len(c["ops"]), sum(1 for o in c["ops"] if o[0] == "iam") % 5,
                                             sum(1 for v in (m.get("views") or [[]])[-1] if v is None)))
    else:
        ctx.count("cache", n=len(cases))


def cache_history_scenario(ctx, label, rng, rseed=None):
    """the cache and the state machines together: I-Ams of 2..4 device instances from 2..3
    addresses (devices announcing again, other instances taking an address over) interleaved
    with requests that are in flight / retried / finished.  Oracle: every request is sized
    by the LATEST I-Am received from its destination address."""
    if rseed is None:
        rseed = rng.getrandbits(48)
    rng = random.Random(rseed)
    cfg = T.default_cfg()
    cfg.update(seg=3, window=rng.choice([1, 2, 4]), maxApdu=1476, maxSegs=None, retries=3)
    L = T.Lock(cfg, [])
    L.label = label
    fail = Fail(ctx, L, label, {"role": "cache-history", "rseed": rseed})
    naddr, ninst = rng.choice([2, 3]), rng.choice([2, 3, 4])
    latest = {}                     # address -> capabilities of the latest I-Am from it
    where = {}                      # instance -> address it announced from last

    def live_to(a):
        return [t for t in L.smap.clientTransactions if L.peer_of(t.pdu_address) == a]

    def finish(a):
        for t in list(live_to(a)):
            if t.state == 1:        # still sending: play the peer
                pass
            L.frame(a, {"t": 2, "id": t.invokeID, "svc": 200})
            if t in L.smap.clientTransactions:
                L.frame(a, {"t": 7, "srv": 1, "id": t.invokeID, "reason": 0})

    def big_request(a):
        di = latest[a]
        n = rng.choice([di["maxApdu"] - 3, 2 * di["maxApdu"], di["maxApdu"] + 200])
        n_before = len(live_to(a))
        r = L.request(a, 200, pattern(n))
        outs = list(r["out"])
        flight = InFlight(fail, "request to %d" % a)
        flight.feed(outs, 0, 7)
        exp = client_expect(cfg, di, n)
        if exp[0] == "segmented":
            # play_acks talks to peer 0 only: ack by hand here
            guard = 0
            cur = outs
            while guard < 300:
                guard += 1
                segs = [o for o in cur if o["o"] == "send" and o["h"][0] == 0 and o["h"][1]]
                if not segs:
                    break
                last = segs[-1]["h"]
                flight.acked(last[7], 2)
                cur = L.frame(a, {"t": 4, "srv": 1, "id": last[6], "seq": last[7], "win": 2})["out"]
                flight.feed(cur, 0, 7)
                outs += cur
                if not last[2]:
                    break
        judge_client_cut(fail, cfg, n, exp, outs, len(live_to(a)) == n_before,
                         "request to address %d (latest I-Am from it: device %d, max APDU %d, %s)" % (
                             a, di["inst"], di["maxApdu"], T.SEG_NAMES[di["seg"]]))
        finish(a)

    for _step in range(rng.choice([6, 9, 12])):
        r = rng.random()
        if r < 0.45 or not latest:
            # instance numbers that are other devices' (or their own) station / hash values:
            # addresses 0,1,2 of the rig are station 10, station 11 and 2:10
            i, a = [11, 10, 522, 7][rng.randrange(ninst)], rng.randrange(naddr)
            if i in where and where[i] != a:
                finish(a)
                finish(where[i])    # the instance moves: requests holding either record end first
                latest.pop(where[i], None) if L.view(where[i]) is None else None
            m, g = rng.choice(APDUS), rng.randrange(4)
            try:
                L.iam(i, a, m, g, peers=tuple(range(naddr)))
            except Exception as e:
                fail("cache-exception", "DeviceInfoCache.iam_device_info raised %s: %s on the I-Am of device %d from address %d" % (
                    type(e).__name__, e, i, a))
                return L
            where[i] = a
            latest[a] = {"maxApdu": m, "seg": g, "maxSegs": None, "maxNpdu": None, "inst": i}
            for b in list(latest):
                if L.view(b) is None:
                    latest.pop(b)   # the address lost its record (its device moved away)
        elif r < 0.65:
            a = rng.choice(sorted(latest))
            L.request(a, 200, b"small")         # stays in flight (maybe retried below)
        elif r < 0.75:
            if L.vt.tm.tasks:
                L.fire_next()                     # a retry of something in flight
        elif r < 0.85:
            a = rng.choice(sorted(latest))
            finish(a)
        else:
            big_request(rng.choice(sorted(latest)))
    for a in sorted(latest):
        big_request(a)
    ctx.count("cache-history", (naddr, ninst, len(L.events) // 8))
    return L


def relearn_grid():
    """(m1, seg1) -> (m2, seg2, maxsegs2): the record changes between attempt and retry"""
    out = []
    for m1 in APDUS:
        for m2 in APDUS:
            if m1 == m2:
                continue
            for (g1, g2) in ((3, 3), (3, 0), (0, 3), (3, 1), (2, 3)):
                for ms2 in (None, 2):
                    out.append(("L", m1, m2, g1, g2, ms2))
    return out


def mixed_grid():
    out = []
    for s0 in range(4):
        for a in SHAPES:
            out.append(("m", s0, [a]))
            for b in SHAPES:
                out.append(("m", s0, [a, b]))
    return out


def vary_grid():
    out = []
    for own in (1, 4, 16, 127):
        for role in ("client", "server"):
            for m in (50, 128):
                for nseg in (7, 19, 40):
                    for rep in range(2):
                        out.append(("v", own, role, m, nseg, rep))
    return out


def maxsegs_grid():
    """DeviceInfo.maxSegmentsAccepted is a NUMBER read from the peer's device object, not one of
    the header's code points: 3, 5, 33, 65, 100, 200 with segment counts on both sides"""
    out = []
    for ms in (3, 5, 33, 65, 100, 200):
        for delta in (-1, 0, 1, 2):
            for m in (50, 128):
                out.append(("S", ms, ms + delta, m))
    return out


def long_grid(quick):
    """transfers of more than 256 segments (the wire sequence number wraps), both directions,
    own proposal 16, the receiver grants a smaller window"""
    out = []
    for nseg in ((257, 267) if quick else (257, 267, 513, 600)):
        for role in ("client", "server"):
            for grant in ((4,) if quick else (4, 1, 7)):
                out.append(("G", nseg, role, grant))
    return out


def loss_grid():
    """senders whose own window is much larger than what the receiver grants (1), with the
    first segment / the first ack lost 1..2 times"""
    out = []
    for own in (2, 8, 16, 127):
        for role in ("client", "server"):
            for loss in (1, 2):
                for m in (50, 206):
                    for nseg in (3, 9, 20):
                        out.append(("l", own, role, loss, m, nseg))
    return out


RECV_OWN = [1, 2, 8, 16, 127]
RECV_PROP = [1, 2, 3, 8, 127]


def reception_grid():
    out = []
    for own in RECV_OWN:
        for prop in RECV_PROP:
            if own == prop:
                continue
            for direction in ("server", "client"):
                for pos in (1, 2, 3, 5):
                    for kind in ("ooo", "dup", "stale"):
                        out.append(("r", own, prop, direction, pos, kind))
    return out


# ---------------------------------------------------------------- grid

def client_grid(ctx):
    out = []
    for m in APDUS:
        for ms in MAXSEGS:
            for pseg in range(4):
                for w in WINDOWS:
                    out.append(("c", m, ms, pseg, w))
    return out


def server_grid(ctx):
    out = []
    for code in list(range(6)) + [6, 9, 15]:
        for mscode in range(8):
            for sa in (0, 1):
                for w in WINDOWS:
                    out.append(("s", code, mscode, sa, w))
    return out


def shard(ctx, spec):
    kind, items = spec
    locks = []
    for idx, it in items:
        rng = ctx.sub_rng("c12/%s/%d" % (kind, idx))
        cfg = T.default_cfg()
        if it[0] == "c":
            _c, m, ms, pseg, w = it
            cfg.update(seg=rng.choice([3, 3, 3, 1, 0, 2]), window=w, maxApdu=rng.choice(APDUS),
                       maxSegs=rng.choice([None, 2, 16, 64]))
            variants = [{"maxApdu": m, "seg": pseg, "maxSegs": ms, "maxNpdu": None}]
            if idx % 5 == 0:
                variants.append({"maxApdu": m, "seg": pseg, "maxSegs": ms, "maxNpdu": rng.choice([m - 7, m + 9, 60])})
            if idx % 7 == 0:
                variants.append(None)          # no record: the client assumes its own maximum
            if idx % 11 == 0:
                variants.append({"maxApdu": None, "seg": pseg, "maxSegs": ms, "maxNpdu": None})
            for v, di in enumerate(variants):
                lim = cfg["maxApdu"] if (di is None or di["maxApdu"] is None) else (
                    di["maxApdu"] if di["maxNpdu"] is None else min(di["maxApdu"], di["maxNpdu"]))
                for n in boundary_lengths(lim, 4, 6, ms if di else None):
                    if n > 70000:
                        continue
                    locks.append(client_scenario(ctx, "client-%d-%d-%d" % (idx, v, n), dict(cfg), di, n, rng))
        elif it[0] == "s":
            _s, code, mscode, sa, w = it
            cfg.update(seg=rng.choice([3, 3, 3, 1, 0, 2]), window=w)
            hdr = {"maxResp": code, "maxSegs": mscode, "sa": sa}
            variants = [None]
            if code <= 5:
                ann0 = [50, 128, 206, 480, 1024, 1476][code]
                larger = [x for x in APDUS + [300, 2000] if x > ann0]
                smaller = [x for x in APDUS + [49, 100, 300] if x < ann0]
                if idx % 3 == 0 and larger:      # I-Am says MORE than the request header
                    variants.append({"maxApdu": rng.choice(larger), "seg": rng.randrange(4), "maxSegs": None, "maxNpdu": None})
                if idx % 3 == 1 and smaller:     # I-Am says LESS
                    variants.append({"maxApdu": rng.choice(smaller), "seg": rng.randrange(4), "maxSegs": None, "maxNpdu": None})
                if idx % 3 == 2:
                    variants.append({"maxApdu": rng.choice(APDUS), "seg": rng.randrange(4), "maxSegs": None,
                                     "maxNpdu": rng.choice([100, 2000, ann0 - 9])})
            for v, di in enumerate(variants):
                if code > 5:
                    locks.append(server_scenario(ctx, "server-%d-%d-x" % (idx, v), dict(cfg), di, hdr, 10, rng))
                    continue
                lim = [50, 128, 206, 480, 1024, 1476][code]
                if di and di["maxApdu"] is not None:
                    lim = min(lim, di["maxApdu"])
                if di and di["maxNpdu"] is not None:
                    lim = min(lim, di["maxNpdu"])
                msv = [None, 2, 4, 8, 16, 32, 64, None][mscode]
                for n in boundary_lengths(lim, 3, 5, msv):
                    if n > 70000:
                        continue
                    locks.append(server_scenario(ctx, "server-%d-%d-%d" % (idx, v, n), dict(cfg), di, hdr, n, rng))
        elif it[0] == "L":
            _L, m1, m2, g1, g2, ms2 = it
            cfg.update(seg=rng.choice([3, 3, 3, 1, 0]), window=rng.choice(WINDOWS), maxApdu=1476, maxSegs=16,
                       retries=rng.choice([1, 3]))
            d1 = {"maxApdu": m1, "seg": g1, "maxSegs": None, "maxNpdu": None}
            d2 = {"maxApdu": m2, "seg": g2, "maxSegs": ms2, "maxNpdu": None}
            lens = {min(m1, m2) - 4, min(m1, m2) - 3, max(m1, m2) - 4, max(m1, m2) - 3,
                    2 * (min(m1, m2) - 6), 2 * (min(m1, m2) - 6) + 1, (m1 + m2) // 2}
            for n in sorted(x for x in lens if 0 <= x <= 6000):
                locks.append(relearn_scenario(ctx, "relearn-%d-%d" % (idx, n), dict(cfg), d1, d2, n, rng))
        elif it[0] == "H":
            locks.append(cache_history_scenario(ctx, "cache-history-%d" % idx, rng))
        elif it[0] == "m":
            _m, s0, shapes = it
            cfg.update(seg=3, window=2, maxApdu=1024, maxSegs=16)
            locks.append(mixed_role_scenario(ctx, "mixed-%d" % idx, dict(cfg), s0, [tuple(x) for x in shapes], rng))
        elif it[0] == "v":
            _v, own, role, m, nseg, rep = it
            cfg.update(seg=3, window=own, maxSegs=64, maxApdu=1024)
            if role == "client":
                di = {"maxApdu": m, "seg": 3, "maxSegs": None, "maxNpdu": None}
                locks.append(client_scenario(ctx, "vary-c-%d" % idx, dict(cfg), di, (m - 6) * nseg - 3, rng, vary=True))
            else:
                hdr = {"maxResp": {50: 0, 128: 1}[m], "maxSegs": 7, "sa": 1}
                locks.append(server_scenario(ctx, "vary-s-%d" % idx, dict(cfg), None, hdr, (m - 5) * nseg - 3, rng, vary=True))
        elif it[0] == "S":
            _s, ms, count, m = it
            cfg.update(seg=3, window=rng.choice([4, 16]), maxSegs=None, maxApdu=1476)
            di = {"maxApdu": m, "seg": 3, "maxSegs": ms, "maxNpdu": None}
            locks.append(client_scenario(ctx, "maxsegs-%d" % idx, dict(cfg), di, (m - 6) * count - 3, rng, fixed_win=8))
        elif it[0] == "G":
            _g, nseg, role, grant = it
            cfg.update(seg=3, window=16, maxSegs=None, maxApdu=1024)
            if role == "client":
                di = {"maxApdu": 50, "seg": 3, "maxSegs": None, "maxNpdu": None}
                locks.append(client_scenario(ctx, "long-c-%d" % idx, dict(cfg), di, 44 * nseg - 3, rng, fixed_win=grant))
            else:
                hdr = {"maxResp": 0, "maxSegs": 7, "sa": 1}
                locks.append(server_scenario(ctx, "long-s-%d" % idx, dict(cfg), None, hdr, 45 * nseg - 3, rng, fixed_win=grant))
        elif it[0] == "l":
            _l, own, role, loss, m, nseg = it
            cfg.update(seg=3, window=own, maxSegs=64, maxApdu=1024, retries=3)
            if role == "client":
                di = {"maxApdu": m, "seg": 3, "maxSegs": None, "maxNpdu": None}
                locks.append(client_scenario(ctx, "loss-c-%d" % idx, dict(cfg), di, (m - 6) * nseg - 3, rng, loss=loss))
            else:
                hdr = {"maxResp": {50: 0, 206: 2}[m], "maxSegs": 7, "sa": 1}
                locks.append(server_scenario(ctx, "loss-s-%d" % idx, dict(cfg), None, hdr, (m - 5) * nseg - 3, rng, loss=loss))
        elif it[0] == "r":
            _r, own, prop, direction, pos, rkind = it
            locks.append(reception_scenario(ctx, "recv-%d-%d-%s-%d-%s" % (own, prop, direction, pos, rkind),
                                            own, prop, direction, pos, rkind))
        else:
            _w, own, prop = it
            locks.append(window_scenario(ctx, "window-%d-%d" % (own, prop), own, prop))
    T.compare(ctx, kind, locks, exe="drv_c12")
    if locks:
        ctx.sample({"stream": kind, "reset": locks[0].reset_line, "first_events": locks[0].events[:2]})


# ---------------------------------------------------------------- end-to-end

SEGN = ['noSegmentation', 'segmentedTransmit', 'segmentedReceive', 'segmentedBoth']


def e2e_shard(ctx, items):
    from . import e2e_oracle as O
    from . import e2e as E
    for sc in items:
        res = O.run_scenario(sc)
        bad = []
        # every frame on the wire against the RECEIVER's configured capabilities.  A request
        # (type 0) is bound by what the receiver announced in its I-Am, i.e. only when the
        # sender was taught (`know`); everything else is bound by the request being answered.
        cap = {10: sc["a"], 20: sc["b"]}
        segs = {}
        for f in res["frames"]:
            h = E.decode_apdu_header(f[3])
            if not h or "type" not in h:
                continue
            try:
                dst = int(f[2])
            except ValueError:
                continue
            bound = h["type"] != 0 or sc.get("know")
            if bound and h["len"] > cap[dst].get("max_apdu", 1024):
                bad.append(("apdu-too-long", "APDU of %d octets (type %d) sent to a stack that accepts %d" % (
                    h["len"], h["type"], cap[dst].get("max_apdu", 1024))))
            if bound and h.get("seg") and cap[dst].get("seg") not in ("segmentedBoth", "segmentedReceive"):
                bad.append(("segmented-to-nonreceiver", "segment (type %d) sent to a stack with %s" % (
                    h["type"], cap[dst].get("seg"))))
            if h.get("seg") and h["type"] in (0, 3):
                segs.setdefault((dst, h["type"], h["invoke"]), set()).add(h["seq"])
                if not (1 <= h["win"] <= 127):
                    bad.append(("window-range", "segment with window %d on the wire" % h["win"]))
            if h["type"] == 4 and not (1 <= h["win"] <= 127):
                bad.append(("window-range", "segment ack with window %d on the wire" % h["win"]))
        # window in flight, from the wire: per sender and transfer
        flights = {}
        for f in res["frames"]:
            h = E.decode_apdu_header(f[3])
            if not h or "type" not in h:
                continue
            try:
                src, dst = int(f[1]), int(f[2])
            except ValueError:
                continue
            if h["type"] in (0, 3) and h.get("seg"):
                fl = flights.setdefault((src, h["type"], h["invoke"]), InFlight(
                    lambda kind, what: bad.append((kind, what)), "stack %d, type %d" % (src, h["type"])))
                fl.sent(h["seq"])
            elif h["type"] == 4 and f[4] != "drop":
                # srv=1: sent by the server to the sender of a request (type 0); srv=0: to the sender of a response
                key = (dst, 0 if h["srv"] else 3, h["invoke"])
                if key in flights:
                    flights[key].acked(h["seq"], h["win"])
        if sc.get("expect_req"):
            nseg = sum(len(ss) for (dst, t, inv), ss in segs.items() if t == 0)
            outcome0 = (res["conf"][0][1], res["conf"][0][3]) if res["conf"] else ("none", None)
            if sc["expect_req"] == "abort11" and (nseg or outcome0 != ("abort", 11)):
                bad.append(("cannot-send", "the peer's device object says it accepts %d segments, the request needs more: "
                            "%d request segments on the wire, outcome %r (expected abort apduTooLong)" % (
                                sc["b"]["max_segs"], nseg, outcome0)))
            if sc["expect_req"] == "ack" and outcome0[0] != "ack":
                bad.append(("cannot-send", "a request of exactly the %d segments the peer accepts ended in %r" % (
                    sc["b"]["max_segs"], outcome0)))
        for (dst, t, inv), ss in segs.items():
            ms = cap[dst].get("max_segs")
            if t == 0 and sc.get("know") and ms and len(ss) > ms:
                bad.append(("segments-bound", "%d request segments toward a stack whose device object accepts %d" % (len(ss), ms)))
                continue
            # a response is bounded by the request header (the receiver's own setting, encoded);
            # a request by the record the sender holds (only when `know` taught it)
            if ms and ms <= 64 and (t == 3 or sc.get("know")) and len(ss) > ms:
                bad.append(("segments-bound", "%d segments toward a stack accepting %d" % (len(ss), ms)))
        if not res["terminated"]:
            bad.append(("nontermination", "stacks still busy"))
        for kind, what in bad:
            ctx.fail("e2e-" + kind, sc, what)
        outcome = res["conf"][0][1] if res["conf"] else "none"
        ctx.count("e2e", (sc["a"]["max_apdu"], sc["b"]["max_apdu"], sc["a"]["seg"][9:12], sc["b"]["seg"][9:12],
                          outcome, len(res["frames"]) > 2))


def e2e_relearn_shard(ctx, items):
    """end-to-end: stack A believes (older I-Am) that B accepts `told` octets, sends a
    request that fits that, the frame is lost; before A's APDU timeout a newer I-Am teaches
    it B's real, smaller maximum.  Every request frame A puts on the wire AFTER that instant
    must respect B's real capabilities."""
    from . import e2e as E
    from bacpypes.task import FunctionTask
    for sc in items:
        told, real, clen = sc["told"], sc["real"], sc["clen"]
        net = E.E2ENet(policy=lambda i, pdu: "drop" if i == 0 else "ok")
        a = net.add_stack(10, max_apdu=1476, seg="segmentedBoth", max_segs=64, seg_timeout=1500, window=sc.get("window", 4))
        b = net.add_stack(20, max_apdu=real, seg=sc.get("bseg", "segmentedBoth"), max_segs=64, seg_timeout=1500)
        info = a.know(b)
        if info is None:
            ctx.fail("iam-not-learned", sc, "the device information cache did not store the I-Am")
            continue
        info.maxApduLengthAccepted = told           # what the OLDER I-Am said
        info.segmentationSupported = "segmentedBoth"
        b.response_payload = b"ok"
        t0 = net.vt.now
        a.send_cpt(b, bytes((i * 7) & 255 for i in range(clen)))
        when = {"t": None}

        def newer_iam():
            a.know(b)                                # the newer I-Am: B's real capabilities
            when["t"] = net.vt.now
        FunctionTask(newer_iam).install_task(delta=1.0)
        net.run()
        bad = []
        for f in net.lan.log:
            h = E.decode_apdu_header(f[3])
            if not h or h.get("type") != 0 or str(f[1]) != "10":
                continue
            t = f[5] if len(f) > 5 and f[5] is not None else t0
            if when["t"] is not None and t >= when["t"]:
                if h["len"] > real:
                    bad.append(("apdu-too-long", "request APDU of %d octets at t=%.1f, %.1f s after a newer I-Am said %d" % (
                        h["len"], t - t0, t - when["t"], real)))
                if h.get("seg") and sc.get("bseg", "segmentedBoth") not in ("segmentedBoth", "segmentedReceive"):
                    bad.append(("segmented-to-nonreceiver", "segment sent after a newer I-Am said %s" % sc["bseg"]))
        outcome = a.confirmations[0][1] if a.confirmations else "none"
        if not bad and sc.get("bseg", "segmentedBoth") == "segmentedBoth" and outcome != "ack":
            bad.append(("relearn-outcome", "the retry after the newer I-Am did not succeed: %r" % (a.confirmations,)))
        for kind, what in bad[:3]:
            ctx.fail("e2e-" + kind, dict(sc, e2e="relearn"), what)
        ctx.count("e2e-relearn", (told, real, outcome))


def e2e_relearn_cases():
    out = []
    for told, real in ((1024, 206), (1476, 50), (480, 128), (1024, 480), (206, 128)):
        for clen in (real + 40, told - 40, (told + real) // 2):
            out.append({"told": told, "real": real, "clen": clen})
    out.append({"told": 1024, "real": 206, "clen": 600, "bseg": "noSegmentation"})
    out.append({"told": 1024, "real": 206, "clen": 600, "bseg": "segmentedTransmit"})
    return out


def e2e_cases(ctx, rng):
    cases = []
    pairs = [(a, b) for a in APDUS for b in APDUS]
    if ctx.quick:
        pairs = rng.sample(pairs, 10)
    for (ma, mb) in pairs:
        for k in range(2 if ctx.quick else 6):
            sa, sb = rng.choice(SEGN + [SEGN[3]] * 3), rng.choice(SEGN + [SEGN[3]] * 3)
            msa, msb = rng.choice([2, 4, 16, 64]), rng.choice([2, 4, 16, 64])
            lim_req = min(ma, mb) if True else mb
            for clen, slen in ((5, mb - 20), (5, ma - 16), (mb - 20, 5), (5, 2 * ma), (2 * mb, 5),
                               (5, msa * (ma - 5) - 30), (msb * (mb - 6) - 30, 5), (5, msa * (ma - 5) + 40)):
                if clen < 0 or slen < 0 or clen > 40000 or slen > 40000:
                    continue
                cases.append({"clen": clen, "slen": slen, "mode": "ack", "know": rng.random() < 0.7,
                              "a": {"max_apdu": ma, "seg": sa, "max_segs": msa, "seg_timeout": 1500,
                                    "window": rng.choice([1, 2, 5, 127])},
                              "b": {"max_apdu": mb, "seg": sb, "max_segs": msb, "seg_timeout": 1500,
                                    "window": rng.choice([1, 2, 5, 127])}})
    # B's Max_Segments_Accepted is a number that is not a code point of the header; A knows it
    for ms in (3, 5, 33, 100):
        for count in (ms, ms + 1):
            cases.append({"clen": 44 * count - 40, "slen": 5, "mode": "ack", "know": True, "expect_req": "ack" if count <= ms else "abort11",
                          "a": {"max_apdu": 1476, "seg": SEGN[3], "max_segs": 64, "seg_timeout": 1500, "window": 16},
                          "b": {"max_apdu": 50, "seg": SEGN[3], "max_segs": ms, "seg_timeout": 1500, "window": 16}})
    # first segment / first ack lost, sender's window >> receiver's
    for (wa, wb) in ((8, 1), (127, 1), (16, 2), (1, 8)):
        for drop in (0, 1, 2):
            for (clen, slen) in ((600, 5), (5, 600), (600, 600)):
                cases.append({"clen": clen, "slen": slen, "mode": "ack", "know": True, "faults": {str(drop): "drop"},
                              "a": {"max_apdu": 128, "seg": SEGN[3], "max_segs": 64, "seg_timeout": 1500, "window": wa},
                              "b": {"max_apdu": 128, "seg": SEGN[3], "max_segs": 64, "seg_timeout": 1500, "window": wb}})
    return cases


# ---------------------------------------------------------------- run

def corpus_cases():
    d = os.path.join(core.VERIF, "corpus", "C12")
    out = []
    if os.path.isdir(d):
        for f in sorted(os.listdir(d)):
            if f.endswith(".json"):
                out.append((f, json.load(open(os.path.join(d, f)))))
    return out


def run_case(ctx, case, label):
    """one recorded scenario (corpus / replay) on the real code + model"""
    p = case["params"]
    rng = ctx.sub_rng("c12/replay")
    if p["role"] == "client":
        L = client_scenario(ctx, label, p["cfg"], p["di"], p["n"], rng, loss=p.get("loss", 0), vary=p.get("vary", False), rseed=p.get("rseed"), fixed_win=p.get("fixed_win"))
    elif p["role"] == "cache-history":
        L = cache_history_scenario(ctx, label, rng, rseed=p["rseed"])
    elif p["role"] == "relearn":
        L = relearn_scenario(ctx, label, p["cfg"], p["d1"], p["d2"], p["n"], rng, rseed=p.get("rseed"))
    elif p["role"] == "mixed":
        L = mixed_role_scenario(ctx, label, p["cfg"], p["s0"], [tuple(x) for x in p["shapes"]], rng, rseed=p.get("rseed"))
    elif p["role"] == "server":
        L = server_scenario(ctx, label, p["cfg"], p["di"], p["hdr"], p["n"], rng, loss=p.get("loss", 0), vary=p.get("vary", False), rseed=p.get("rseed"), fixed_win=p.get("fixed_win"))
    elif p["role"] == "reception":
        L = reception_scenario(ctx, label, p["own"], p["proposed"], p["direction"], p["pos"], p["kind"])
    else:
        L = window_scenario(ctx, label, p["own"], p["proposed"])
    T.compare(ctx, "corpus", [L], exe="drv_c12")


def iam_probe(ctx):
    """an I-Am is OCTETS: every segmentation code of the standard, written by hand, must come
    out of the library's decoder (and go into the cache) under the name the standard gives it"""
    cfg = T.default_cfg()
    L = T.Lock(cfg, [])
    for idx, name in enumerate(T.SEG_NAMES):
        code = T.SEG_CODES[idx]
        for m in (50, 206, 1476):
            octets = L.iam_octets(4000 + idx, m, code)
            case = {"iam_octets": octets.hex(), "segmentation_code": code, "standard_name": name}
            try:
                iam = L.decode_iam(octets, L.addrs[idx])
                L.cache.iam_device_info(iam)
                rec = L.cache.get_device_info(L.addrs[idx])
            except Exception as e:
                ctx.fail("iam-decoding", case, "I-Am octets %s could not be decoded / cached: %s: %s" % (octets.hex(), type(e).__name__, e))
                continue
            got = None if rec is None else (rec.segmentationSupported, rec.maxApduLengthAccepted, rec.deviceIdentifier)
            if got != (name, m, 4000 + idx):
                ctx.fail("iam-decoding", case, "I-Am octets %s (segmentation code %d = %s, max APDU %d) decoded and cached as %r" % (
                    octets.hex(), code, name, m, got))
            ctx.count("iam-probe", (name, m))


def app_cache_probe(ctx):
    """the device-information cache HANDED to an application is the one it uses: Application,
    ApplicationIOController and BIPSimpleApplication constructed with an explicitly passed
    DeviceInfoCache - still empty / pre-filled / a plain subclass / a container-like subclass
    (defines __len__, empty = falsy) - shared by TWO applications: identity (`app.deviceInfoCache
    is the cache passed`, the access point uses the same object) and behaviour (what one
    application learned from an I-Am sizes the other one's requests).  Plus the same identity
    probe for every other constructor argument the stack takes by `x or Default()`."""
    from bacpypes.comm import bind, Server
    from bacpypes.pdu import Address
    from bacpypes import app as APP, appservice as AS
    from bacpypes.apdu import ConfirmedRequestPDU
    from bacpypes.local.device import LocalDeviceObject
    from bacpypes.netservice import NetworkServiceAccessPoint, RouterInfoCache
    helper = T.Lock(T.default_cfg(), [])
    peer = Address(33)

    class PlainSub(APP.DeviceInfoCache):
        pass

    class ContainerSub(APP.DeviceInfoCache):
        def __len__(self):
            return len(self.cache)

    def device(n):
        return LocalDeviceObject(objectName="probe%d" % n, objectIdentifier=("device", n), maxApduLengthAccepted=1024,
                                 segmentationSupported="segmentedBoth", maxSegmentsAccepted=16, vendorIdentifier=999)

    class Net(Server):
        def __init__(self):
            Server.__init__(self)
            self.sent = []

        def indication(self, pdu):
            self.sent.append(pdu)

    def wire(app_cls, n, cache):
        confs = []

        class A(app_cls):
            def confirmation(self, apdu):
                confs.append(apdu)
                if issubclass(app_cls, APP.ApplicationIOController):
                    app_cls.confirmation(self, apdu)
        if app_cls is APP.BIPSimpleApplication:
            a = A(device(n), "127.0.0.1:%d" % (47900 + n), cache)
            return a, a.smap, None, confs
        a = A(device(n), deviceInfoCache=cache)
        asap = AS.ApplicationServiceAccessPoint()
        smap = AS.StateMachineAccessPoint(a.localDevice)
        smap.deviceInfoCache = a.deviceInfoCache          # as every stack in the repository wires it
        net = Net()
        bind(a, asap, smap, net)
        return a, smap, net, confs

    n = 0
    for app_cls in (APP.Application, APP.ApplicationIOController, APP.BIPSimpleApplication):
        for kind in ("empty", "prefilled", "plain-subclass", "container-subclass"):
            n += 2
            case = {"probe": "app-cache", "application": app_cls.__name__, "cache": kind}
            cache = {"empty": APP.DeviceInfoCache, "prefilled": APP.DeviceInfoCache, "plain-subclass": PlainSub,
                     "container-subclass": ContainerSub}[kind]()
            if kind == "prefilled":
                cache.iam_device_info(helper.decode_iam(helper.iam_octets(77, 480, 0), Address(44)))
            try:
                a1, smap1, net1, c1 = wire(app_cls, n, cache)
                a2, smap2, net2, c2 = wire(app_cls, n + 1, cache)
            except OSError as e:
                ctx.count("app-cache-probe", (app_cls.__name__, kind, "no-socket"))
                continue
            try:
                for who, a, smap in (("first", a1, smap1), ("second", a2, smap2)):
                    if a.deviceInfoCache is not cache:
                        ctx.fail("cache-identity", case, "%s(deviceInfoCache=<%s cache>): the %s application uses %s instead of "
                                 "the cache it was given" % (app_cls.__name__, kind, who,
                                                              "a private DeviceInfoCache" if a.deviceInfoCache is not None else "None"))
                    elif smap.deviceInfoCache is not cache:
                        ctx.fail("cache-identity", case, "the access point of the %s application does not use the cache passed" % who)
                # the first application hears the peer's I-Am: 50 octets, no segmentation
                a1.deviceInfoCache.iam_device_info(helper.decode_iam(helper.iam_octets(500 + n, 50, 3), peer))
                if net2 is not None:
                    req = ConfirmedRequestPDU(200)
                    req.pduDestination = peer
                    req.put_data(pattern(113))
                    if isinstance(a2, APP.ApplicationIOController):
                        from bacpypes.iocb import IOCB
                        iocb = IOCB(req)
                        a2.request_io(iocb)
                        helper.vt.run(until=helper.vt.now + 0.1)      # the IO controller works through deferred functions
                        c2 = [x for x in c2] + ([iocb.ioError] if iocb.ioError is not None and iocb.ioError not in c2 else [])
                    else:
                        a2.request(req)
                    data = [p for p in net2.sent if getattr(p, "apduType", None) == 0]
                    aborted = [x for x in c2 if getattr(x, "apduType", None) == 7 and x.apduAbortRejectReason == 4]
                    if data or len(aborted) != 1:
                        ctx.fail("cache-shared", case, "the first application learned (I-Am) that the peer accepts 50 octets and no "
                                 "segments; the second application, sharing the cache, sent %d request frame(s) (first %s octets, "
                                 "segmented=%s) instead of aborting" % (
                                     len(data), len(data[0].pduData) + 4 if data else "-", bool(data and data[0].apduSeg)))
                ctx.count("app-cache-probe", (app_cls.__name__, kind, "ok"))
            finally:
                for a in (a1, a2):
                    mux = getattr(a, "mux", None)
                    if mux is not None:
                        try:
                            mux.close_socket()
                        except Exception:
                            pass
    # every other `x or Default()` constructor argument: identity
    ric = RouterInfoCache()
    nsap = NetworkServiceAccessPoint(router_info_cache=ric)
    if nsap.router_info_cache is not ric:
        ctx.fail("argument-identity", {"probe": "app-cache", "argument": "NetworkServiceAccessPoint(router_info_cache=...)"},
                 "NetworkServiceAccessPoint replaced the (empty) RouterInfoCache it was given")
    ctx.count("app-cache-probe", ("NetworkServiceAccessPoint", "router_info_cache", "ok"))
    helper.vt.reset(T.START)


def iocb_abort_probe(ctx):
    """cannot-send through the IOCB entry point: a request made with
    ApplicationIOController.request_io() that exceeds what the peer announced (no
    segmentation / too many segments / no room) is aborted; the REQUESTER must learn of it
    whichever way it listens: callback attached BEFORE request_io(), attached right AFTER it
    returned, attached after the event loop ran, or polling ioComplete / ioState / ioError."""
    from bacpypes.comm import bind, Server
    from bacpypes.pdu import Address
    from bacpypes import app as APP, appservice as AS, iocb as IO
    from bacpypes.apdu import ConfirmedRequestPDU
    from bacpypes.local.device import LocalDeviceObject
    helper = T.Lock(T.default_cfg(), [])

    class Net(Server):
        def __init__(self):
            Server.__init__(self)
            self.sent = []

        def indication(self, pdu):
            self.sent.append(pdu)

    n = 0
    for why, max_apdu, seg_code, maxsegs, size, reason in (
            ("peer announced no segmentation", 50, 3, None, 113, 4),
            ("peer accepts 3 segments, 4 needed", 50, 0, 3, 44 * 4 - 3, 11),
            ("peer accepts 100 segments, 101 needed", 50, 0, 100, 44 * 101 - 3, 11)):
        for variant in ("callback-before", "callback-after-request_io", "callback-after-loop", "polling"):
            n += 1
            case = {"probe": "iocb-abort", "why": why, "variant": variant}
            dev = LocalDeviceObject(objectName="io%d" % n, objectIdentifier=("device", 700 + n), maxApduLengthAccepted=1476,
                                    segmentationSupported="segmentedBoth", maxSegmentsAccepted=64, vendorIdentifier=999)
            a = APP.ApplicationIOController(dev)
            asap = AS.ApplicationServiceAccessPoint()
            smap = AS.StateMachineAccessPoint(dev)
            smap.deviceInfoCache = a.deviceInfoCache
            net = Net()
            bind(a, asap, smap, net)
            peer = Address(60 + n)
            a.deviceInfoCache.iam_device_info(helper.decode_iam(helper.iam_octets(800 + n, max_apdu, seg_code), peer))
            a.deviceInfoCache.get_device_info(peer).maxSegmentsAccepted = maxsegs
            req = ConfirmedRequestPDU(200)
            req.pduDestination = peer
            req.put_data(pattern(size))
            iocb = IO.IOCB(req)
            told = []
            cb = lambda i: told.append((i.ioState, getattr(i.ioError, "apduAbortRejectReason", None)))
            if variant == "callback-before":
                iocb.add_callback(cb)
            a.request_io(iocb)
            if variant == "callback-after-request_io":
                iocb.add_callback(cb)
            helper.vt.run(until=helper.vt.now + 0.1)
            if variant == "callback-after-loop":
                iocb.add_callback(cb)
                helper.vt.run(until=helper.vt.now + 0.1)
            data = [p for p in net.sent if getattr(p, "apduType", None) == 0]
            if data:
                ctx.fail("cannot-send", case, "%s: %d request frame(s) went out instead of an abort" % (why, len(data)))
                continue
            if variant == "polling":
                ok = iocb.ioComplete.isSet() and iocb.ioState == IO.ABORTED and \
                    getattr(iocb.ioError, "apduAbortRejectReason", None) == reason
                if not ok:
                    ctx.fail("requester-not-told", case, "%s: polling the IOCB shows ioComplete=%s ioState=%s ioError=%r instead of an "
                             "abort %d" % (why, iocb.ioComplete.isSet(), iocb.ioState, iocb.ioError, reason))
            elif told != [(IO.ABORTED, reason)]:
                ctx.fail("requester-not-told", case, "%s: the request was aborted (ioState=%s, reason %r) but the requester's callback "
                         "(%s) was called %d time(s): %r" % (why, iocb.ioState, getattr(iocb.ioError, "apduAbortRejectReason", None),
                                                           variant, len(told), told))
            ctx.count("iocb-abort-probe", (why, variant))
    helper.vt.reset(T.START)


def run(ctx):
    iam_probe(ctx)
    app_cache_probe(ctx)
    iocb_abort_probe(ctx)
    for name, c in corpus_cases():
        if c.get("op") == "cache":
            cache_shard(ctx, [c["ops"]])
        elif "params" in c:
            run_case(ctx, c, "corpus/" + name)
        else:
            e2e_shard(ctx, [c])
    rng = ctx.sub_rng("c12/grid")
    cg = list(enumerate(client_grid(ctx)))
    sg = list(enumerate(server_grid(ctx)))
    if ctx.quick:
        cg = [x for x in cg if rng.randrange(4) == 0 or x[0] % 97 == 0]
        sg = [x for x in sg if rng.randrange(2) == 0 or x[0] % 89 == 0]
    wins = list(enumerate(("w", own, prop) for own in WINDOWS for prop in (0, 1, 2, 127, 128, 255)))
    specs = []
    for kind, items in (("client", cg), ("server", sg)):
        k = 16
        for i in range(k):
            part = items[i::k]
            if part:
                specs.append((kind, part))
    specs.append(("window", wins))
    specs.append(("loss", list(enumerate(loss_grid()))))
    specs.append(("vary", list(enumerate(vary_grid()))))
    mg = list(enumerate(maxsegs_grid()))
    for i in range(4):
        specs.append(("maxsegs", mg[i::4]))
    lg = list(enumerate(long_grid(ctx.quick)))
    for i in range(4):
        if lg[i::4]:
            specs.append(("long", lg[i::4]))
    specs.append(("mixed", list(enumerate(mixed_grid()))))
    nh = 120 if ctx.quick else 2400
    hg = [(i, ("H",)) for i in range(nh)]
    for i in range(4):
        specs.append(("cache-history", hg[i::4]))
    rl = list(enumerate(relearn_grid()))
    if ctx.quick:
        rl = [x for x in rl if rng.randrange(4) == 0]
    for i in range(6):
        if rl[i::6]:
            specs.append(("relearn", rl[i::6]))
    rg = list(enumerate(reception_grid()))
    for i in range(4):
        specs.append(("reception", rg[i::4]))
    core.run_shards(ctx, "harness.c12", "shard", specs)
    cases = e2e_cases(ctx, ctx.sub_rng("c12/e2e"))
    chunks = [cases[i::16] for i in range(16)]
    core.run_shards(ctx, "harness.c12", "e2e_shard", [c for c in chunks if c])
    crng = ctx.sub_rng("c12/cache")
    histories = [cache_ops(crng, crng.choice([3, 6, 10, 16])) for _ in range(400 if ctx.quick else 12000)]
    core.run_shards(ctx, "harness.c12", "cache_shard", [histories[i::8] for i in range(8)])
    rc = e2e_relearn_cases()
    core.run_shards(ctx, "harness.c12", "e2e_relearn_shard", [rc[i::4] for i in range(4)])


def search(ctx):
    rng = ctx.sub_rng("c12/search")
    items = list(enumerate(client_grid(ctx)))
    rng.shuffle(items)
    shard(ctx, ("client", items[:40]))
    items = list(enumerate(server_grid(ctx)))
    rng.shuffle(items)
    shard(ctx, ("server", items[:40]))


def replay(ctx, payload):
    rec = payload.get("failure") or (payload.get("correspondence_disagreements") or [{}])[0]
    case = rec.get("case")
    if isinstance(case, dict) and "params" in case:
        run_case(ctx, case, "replay")
        return
    if isinstance(case, dict) and case.get("op") == "cache":
        cache_shard(ctx, [case["ops"][:case.get("upto", len(case["ops"]))]])
        return
    if isinstance(case, dict) and case.get("probe") == "iocb-abort":
        iocb_abort_probe(ctx)
        return
    if isinstance(case, dict) and case.get("probe") == "app-cache":
        app_cache_probe(ctx)
        return
    if isinstance(case, dict) and "iam_octets" in case:
        iam_probe(ctx)
        return
    if isinstance(case, dict) and case.get("e2e") == "relearn":
        e2e_relearn_shard(ctx, [case])
        return
    if isinstance(case, dict) and "clen" in case:
        e2e_shard(ctx, [case])
        return
    if isinstance(case, dict) and "events" in case:
        from . import c11
        L = c11.replay_events(ctx, "replay", case["reset"], case["events"])
        T.compare(ctx, "replay", [L], exe="drv_c12")
        return
    raise core.Infra("nothing to replay")
