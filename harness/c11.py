"""
C11 — concurrent transactions never cross.

Correspondence (model = lean/BacVerif/Drv/TsmDrv.lean over Model.Tsm, exe
drv_c11): a REAL StateMachineAccessPoint + ApplicationServiceAccessPoint between
stubs under virtual time (harness/tsmlock.py), compared with the model after
EVERY event (frames with decoded headers, callbacks, raised markers, both
transaction lists with armed deadlines, invoke-ID cursor).

Streams
  mix      : 1..40 concurrent requests over 1..4 peers, forced invoke-ID
             collisions across peers, correct / foreign / late / duplicate /
             wrong-side replies injected at every point, inbound requests with
             equal IDs from different peers, retransmitted requests, application
             answers for live and dead keys, timer expiries, segmentation on
             both sides, application-chosen IDs (free and in use)
  wrap     : > 256 sequential requests (cursor wrap-around) with long-lived
             transactions occupying IDs the cursor has to skip; exhaustion of
             all 255 reachable IDs toward one peer
  reenter  : the stub application submits a request from INSIDE its confirmation
             callback (same peer + same explicit ID | other ID | other peer) with
             1..4 younger transactions outstanding; model = frame, then request
  late     : serving side with (apduTimeout, applicationTimeout, segmentTimeout) in all 27
             orderings of {1000,3000,6000}: the application answers late but within its
             allowance while the client retransmits; also end-to-end (two stacks)
  repeat   : the same peer sends the same invoke ID + octets again AFTER the transaction
             completed: a new request, indicated again, answered with the CURRENT answer
  route-aware: settings.route_aware = True, real NSAP under the access point, 2:5 behind
             routers 11 and 12 = two peers, colliding invoke IDs, both directions
  nextid   : get_next_invoke_id alone for every starting cursor 0..255 against
             random / adversarial occupancies
  corpus   : corpus/C11/*.json (pre-fix witnesses) first

Implementation-side oracle (independent of the model; evaluated on the digests
and outputs of the real code):
  keys unique in both lists after every event; a newly allocated ID is not live
  toward that peer; a chosen ID in use is refused with nothing changed; an
  inbound PDU changes at most the transaction with its (peer, ID) on the side
  its type/server-flag selects, every other transaction digest (timers
  included) is identical before and after; every frame / callback it causes
  carries that peer and ID; with no such live transaction nothing at all
  happens; a request repeated while the first is with the application is not
  indicated again; equal IDs from different peers give two transactions and two
  indications; a confirmation's content is what that peer sent for that ID; a
  request re-issued from inside the confirmation callback stays outstanding and
  gets its own answer.
"""
import json, os
from . import core
from . import tsmlock as T

LEAN_TARGETS = ["BacVerif.Props.C11", "drv_c11"]
LEANCHECKER = ["BacVerif.Props.C11"]
LEVEL = "proof"
RULE = ("lockstep event sequences (generator online against the real access point): mix = random "
        "interleavings of requests to 1..4 peers (1..40 outstanding), replies of every PDU type from the "
        "right peer / a foreign peer / with a wrong ID / after completion / duplicated / with the server "
        "flag flipped, inbound requests (unsegmented, segmented, retransmitted, equal IDs from different "
        "peers), application answers, timer expiries; wrap = 300..600 sequential requests with long-lived "
        "transactions; nextid = all 256 cursor values x occupancy patterns. distinct = distinct model "
        "branch signatures (event kind, state of the addressed transaction before>after, output kinds); "
        "trivial = tick events")
TRUSTED = ["lean/BacVerif/Model/Tsm/*.lean is a hand transcription of appservice.py (SSM, ClientSSM, "
           "ServerSSM, StateMachineAccessPoint, ASAP) tied by the lockstep streams",
           "harness/tsmlock.py (stubs, canonical digests, APCI wire form of injected frames)",
           "peers are compared by Address.__eq__ in the code and by index in the model: the rig uses six "
           "pairwise different station addresses (local, remote, 6-octet)"]
ASSUMPTIONS = ["the application does not abort IOCBs (the property's quantifier has no application-side abort)",
               "device-information records carry one of the four valid segmentation values",
               "header fields of inbound PDUs are in their wire ranges (they come out of APCI.decode)"]


def GENERATED(ctx):
    from translator import tsm as tr
    tr.generate()


# ---------------------------------------------------------------- oracle

def keyed(digests):
    return [(d[0], d[1]) for d in digests]


def side_of(a):
    """which list an inbound PDU addresses: 'sv', 'cl' or None"""
    t = a["t"]
    if t == 0:
        return "sv"
    if t in (2, 3, 5, 6):
        return "cl"
    if t in (4, 7):
        return "cl" if a.get("srv") else "sv"
    return None


class Oracle:
    """evaluates C11 on the real code, event by event"""

    def __init__(self, ctx, lock, label):
        self.ctx, self.L, self.label = ctx, lock, label
        self.prev = lock.snapshot()
        self.sent_by_peer = {}       # (peer, id, kind) -> set of payload digests the harness injected
        self.n = 0

    def fail(self, kind, what, line):
        self.ctx.fail(kind, {"label": self.label, "reset": self.L.reset_line, "events": list(self.L.events)},
                      what, event=line, index=len(self.L.events) - 1)

    def after(self, line, reply):
        prev, cur = self.prev, {k: reply[k] for k in ("cl", "sv", "next", "now")}
        self.prev = cur
        outs = reply["out"]
        for o in outs:
            if o["o"] == "raised" and o["k"].startswith("python:"):
                self.fail("unexpected-exception", "an unmodelled exception left the access point: %s" % o["k"], line)
        # an invoke ID is ONE OCTET: in every live transaction and in every header emitted
        for side in ("cl", "sv"):
            for d in cur[side]:
                if not (0 <= d[1] <= 255):
                    self.fail("invoke-id-range", "live %s transaction toward peer %d has invoke ID %r, which is not an octet" % (
                        "client" if side == "cl" else "server", d[0], d[1]), line)
        inv_at = {0: 6, 2: 1, 3: 3, 4: 3, 5: 1, 6: 1, 7: 2}
        for o in outs:
            if o["o"] in ("send", "ind", "conf"):
                at = inv_at.get(o["h"][0])
                if at is not None and o["h"][at] is not None and not (0 <= o["h"][at] <= 255):
                    self.fail("invoke-id-range", "%s carries invoke ID %r, which is not an octet (the header cannot be encoded)" % (
                        {"send": "frame", "ind": "indication", "conf": "confirmation"}[o["o"]], o["h"][at]), line)
            if o["o"] == "send" and not isinstance(o.get("len"), int):
                self.fail("unencodable-frame", "a frame handed to the network cannot be encoded (%s): %r" % (o.get("len"), o["h"]), line)
        for side in ("cl", "sv"):
            ks = keyed(cur[side])
            if len(set(ks)) != len(ks):
                self.fail("key-unique", "two live %s transactions share (peer, invoke ID): %r" % (side, ks), line)
        e = line["e"]
        if e == "req":
            self.after_request(line, prev, cur, outs)
        elif e == "frame":
            self.after_frame(line, prev, cur, outs)
        elif e == "rsp":
            k = (line["peer"], line["a"].get("id", 0))
            self.others_same("sv", k, prev, cur, line)
            if prev["cl"] != cur["cl"]:
                self.fail("demux", "an application response changed a client transaction", line)
            self.attributed(outs, k, line)
        elif e == "timeout":
            k = (line["peer"], line["id"])
            self.others_same("sv" if line["srv"] else "cl", k, prev, cur, line)
            other = "cl" if line["srv"] else "sv"
            if prev[other] != cur[other]:
                self.fail("demux", "a timer expiry changed a transaction of the other side", line)
            self.attributed(outs, k, line)

    def others_same(self, side, k, prev, cur, line):
        a = [d for d in prev[side] if (d[0], d[1]) != k]
        b = [d for d in cur[side] if (d[0], d[1]) != k]
        if a != b:
            self.fail("demux", "transactions other than %r changed on side %s" % (k, side), line)

    def attributed(self, outs, k, line):
        for o in outs:
            if o["o"] in ("send", "ind", "conf"):
                h = o["h"]
                inv = {0: 6, 2: 1, 3: 3, 4: 3, 5: 1, 6: 1, 7: 2}.get(h[0])
                if o["peer"] != k[0] or (inv is not None and h[inv] != k[1]):
                    self.fail("attribution", "output %r is not attributed to %r" % (o, k), line)

    def after_request(self, line, prev, cur, outs):
        p = line["peer"]
        live_before = set(keyed(prev["cl"]))
        chosen = line["id"]
        if chosen is not None and (p, chosen) in live_before:
            if outs != [{"o": "raised", "k": "idInUse"}] or prev["cl"] != cur["cl"]:
                self.fail("chosen-in-use", "a chosen invoke ID in use toward the peer was not refused cleanly", line)
            return
        new = [d for d in cur["cl"] if d not in prev["cl"]]
        sent = [o for o in outs if o["o"] == "send" and o["h"][0] == 0]
        ids = set([d[1] for d in new] + [o["h"][6] for o in sent])
        for i in ids:
            if (p, i) in live_before:
                self.fail("fresh-id", "request to peer %d got invoke ID %d which is live toward that peer" % (p, i), line)
        if cur["cl"][:len(prev["cl"])] != prev["cl"]:
            self.fail("demux", "a new request changed an existing client transaction", line)
        if prev["sv"] != cur["sv"]:
            self.fail("demux", "a new request changed a server transaction", line)
        for o in outs:
            if o["o"] in ("send", "conf") and o["peer"] != p:
                self.fail("attribution", "request to peer %d produced output for peer %d" % (p, o["peer"]), line)

    def after_frame(self, line, prev, cur, outs):
        a = line["a"]
        p = line["peer"]
        side = side_of(a)
        k = (p, a.get("id", 0))
        if side is None:
            if prev["cl"] != cur["cl"] or prev["sv"] != cur["sv"]:
                self.fail("demux", "a PDU without transaction (type %d) changed a transaction" % a["t"], line)
            return
        other = "cl" if side == "sv" else "sv"
        if prev[other] != cur[other]:
            self.fail("demux", "an inbound PDU changed a transaction of the other side", line)
        self.others_same(side, k, prev, cur, line)
        self.attributed(outs, k, line)
        live = [d for d in prev[side] if (d[0], d[1]) == k]
        if a["t"] != 0 and not live:
            if outs or prev[side] != cur[side]:
                self.fail("late-ignored", "a PDU for no live transaction was not ignored: %r" % (outs,), line)
        if a["t"] == 0 and live and live[0][2] == 3:
            if any(o["o"] == "ind" for o in outs) or prev["sv"] != cur["sv"]:
                self.fail("dup-request", "a request repeated while the original is with the application "
                          "was indicated again / changed the transaction", line)
        # content of a confirmation = what this peer sent for this ID in this very PDU
        # (unsegmented replies; reassembled ones are C05's business)
        for o in outs:
            if o["o"] == "conf" and a["t"] in (2, 3, 5, 6, 7) and not a.get("seg"):
                if o["h"][0] == a["t"] and (o["n"], o["d"]) != (len(a.get("hex", "")) // 2, T.fnv64(bytes.fromhex(a.get("hex", "")))):
                    self.fail("content", "confirmation content differs from the PDU that caused it", line)


# ---------------------------------------------------------------- generators

def rand_cfg(rng, quick_timers=True):
    cfg = T.default_cfg()
    cfg["seg"] = rng.choice([0, 1, 2, 3, 3, 3])
    cfg["maxApdu"] = rng.choice([50, 128, 206, 480, 1024, 1476])
    cfg["maxSegs"] = rng.choice([None, 2, 4, 8, 16, 32, 64, 65])
    cfg["window"] = rng.choice([1, 2, 2, 3, 4, 8, 127])
    cfg["retries"] = rng.choice([0, 1, 2, 3])
    # the three timeouts are INDEPENDENT configuration dimensions (device apduTimeout, device
    # apduSegmentTimeout, access point applicationTimeout): any ordering is legal
    if rng.random() < 0.6:
        cfg["apduTimeout"] = rng.choice(TIMEOUTS)
        cfg["appTimeout"] = rng.choice(TIMEOUTS)
        cfg["segTimeout"] = rng.choice(TIMEOUTS + [1500])
    return cfg


TIMEOUTS = [1000, 3000, 6000]


def advance(L, step, us):
    """let `us` microseconds of virtual time pass, running every timer that becomes due on
    the way through the real TaskManager (one event each)"""
    target = L.now_us() + us
    while True:
        pend = L.pending()
        if pend and pend[0][0] <= target:
            step(L.fire_next)
        else:
            break
    rest = target - L.now_us()
    if rest > 0:
        step(L.tick, rest)


def late_answer_scenario(ctx, rng, label, combo=None):
    """serving side with (apduTimeout, applicationTimeout, segmentTimeout) in any ordering: a
    request arrives, the application answers LATE BUT WITHIN ITS ALLOWANCE (the access point's
    applicationTimeout); meanwhile the client retransmits.  Oracle (C11, duplicate
    suppression): while the application is within its allowance the retransmission is not
    handed to it again, and its answer to the original goes out to the requester."""
    cfg = T.default_cfg()
    ta, tp, ts = combo if combo else (rng.choice(TIMEOUTS), rng.choice(TIMEOUTS), rng.choice(TIMEOUTS))
    cfg.update(apduTimeout=ta, appTimeout=tp, segTimeout=ts, seg=3, maxSegs=16)
    L = T.Lock(cfg, [])
    L.label = label
    O = Oracle(ctx, L, label)

    def step(fn, *a):
        n0 = len(L.events)
        r = fn(*a)
        for i in range(n0, len(L.events)):
            O.after(L.events[i], L.replies[i])
        return r
    p, inv = rng.randrange(3), rng.choice([1, 77, 255])
    segmented = rng.random() < 0.3
    req = {"t": 0, "id": inv, "svc": 200, "maxResp": 5, "maxSegs": 4, "sa": 1, "hex": "0102"}
    n_ind = 0
    if segmented:
        step(L.frame, p, dict(req, seg=1, mor=1, seq=0, win=2))
        r = step(L.frame, p, dict(req, seg=1, mor=0, seq=1, win=2, hex="0304"))
    else:
        r = step(L.frame, p, req)
    n_ind += sum(1 for o in r["out"] if o["o"] == "ind")
    if n_ind != 1:
        O.fail("late-answer", "the request was not indicated exactly once: %r" % (r["out"],), L.events[-1])
        return L
    allowance = tp * 1000                                   # µs the application may take
    answer_at = int(allowance * rng.choice([0.3, 0.55, 0.8, 0.95]))
    # the client retransmits once or twice before the answer (its own timeout is ITS business)
    times = sorted(int(answer_at * f) for f in rng.sample([0.2, 0.4, 0.6, 0.85, 0.97], rng.choice([1, 2, 3])))
    now = 0
    for t in times:
        advance(L, step, t - now)
        now = t
        r = step(L.frame, p, req if not segmented else dict(req, seg=1, mor=1, seq=0, win=2))
        if any(o["o"] == "ind" for o in r["out"]):
            O.fail("dup-request-within-allowance",
                   "a retransmitted request was handed to the application again %d ms after the original, while the "
                   "application is still within its allowance (applicationTimeout %d ms; device apduTimeout %d ms)" % (
                       t // 1000, tp, ta), L.events[-1])
    advance(L, step, answer_at - now)
    r = step(L.response, p, {"t": 3, "id": inv, "svc": 200, "hex": "a1a2a3"})
    sent = [o for o in r["out"] if o["o"] == "send" and o["h"][0] == 3 and o["peer"] == p]
    if len(sent) != 1:
        O.fail("answer-lost", "the application answered %d ms after the request (allowance %d ms, device apduTimeout %d ms) "
               "and nothing went to the requester: %r" % (answer_at // 1000, tp, ta, r["out"]), L.events[-1])
    return L


def e2e_late_shard(ctx, items):
    """end-to-end: client and server stacks with independent (apduTimeout, applicationTimeout,
    segment timeout); the serving application answers late but within the server's
    applicationTimeout; the client retransmits on its own apduTimeout.  The request must be
    handed to the serving application exactly once and the client must get the answer."""
    from . import e2e as E
    from bacpypes.task import FunctionTask
    for sc in items:
        net = E.E2ENet()
        a = net.add_stack(10, apdu_timeout=sc["a_apdu"], seg_timeout=sc["a_seg"], retries=3)
        b = net.add_stack(20, apdu_timeout=sc["b_apdu"], seg_timeout=sc["b_seg"], app_timeout=sc["b_app"], retries=3)
        b.response_payload = b"late"
        orig = b._serve

        def later(apdu, orig=orig):
            FunctionTask(orig, apdu).install_task(delta=sc["delay"] / 1000.0)
        b._serve = later
        a.send_cpt(b, b"question")
        net.run(until=net.vt.now + 60.0)
        outcome = a.confirmations[0][1] if a.confirmations else "none"
        if len(b.indications) != 1:
            ctx.fail("e2e-dup-request-within-allowance", dict(sc, e2e="late"),
                     "the request was handed to the serving application %d times (answer after %d ms, server "
                     "applicationTimeout %d ms, server device apduTimeout %d ms, client apduTimeout %d ms)" % (
                         len(b.indications), sc["delay"], sc["b_app"], sc["b_apdu"], sc["a_apdu"]))
        if sc["delay"] < sc["a_apdu"] * 4 and outcome != "ack":
            ctx.fail("e2e-answer-lost", dict(sc, e2e="late"),
                     "the serving application answered within its allowance, the client got %r" % (a.confirmations[:2],))
        ctx.count("e2e-late", (sc["a_apdu"], sc["b_apdu"], sc["b_app"], outcome))


def e2e_late_cases():
    out = []
    for a_apdu in TIMEOUTS:
        for b_apdu in TIMEOUTS:
            for b_app in TIMEOUTS:
                for frac in (0.5, 0.85):
                    out.append({"a_apdu": a_apdu, "b_apdu": b_apdu, "b_app": b_app, "a_seg": 1500, "b_seg": 1500,
                                "delay": int(b_app * frac) + 37})      # never the very instant of a retransmission
    return out



def rand_di(rng, npeers):
    out = []
    for p in range(npeers):
        if rng.random() < 0.5:
            out.append([p, {"maxApdu": rng.choice([50, 128, 206, 480, 1024, 1476]),
                            "seg": rng.choice([0, 1, 2, 3, 3]),
                            "maxSegs": rng.choice([None, None, 2, 4, 16, 64]),
                            "maxNpdu": rng.choice([None, None, None, 100, 501])}])
    return out


def payload(rng, n):
    return bytes((rng.getrandbits(8) for _ in range(min(n, 6)))) + bytes((i * 7 + n) & 255 for i in range(max(0, n - 6)))


class Mix:
    """online generator of one `mix` scenario"""

    def __init__(self, ctx, rng, label, n_events, reenter=False):
        # reenter: let the stub application re-enter from inside its confirmation callback on
        # some conforming replies (Lock.frame_reenter: ONE call yields TWO events).  Opt-in:
        # other checks (C04 `adv` stream) drive this generator with per-event oracles that
        # read the rig's live state and must see exactly one event per call.
        self.reenter = reenter
        self.rng = rng
        self.npeers = rng.choice([1, 2, 2, 3, 4, 4])
        self.cfg = rand_cfg(rng)
        self.L = T.Lock(self.cfg, rand_di(rng, self.npeers), next_id=rng.choice([1, 1, 0, 250, 255, rng.randrange(256)]))
        self.O = Oracle(ctx, self.L, label)
        self.n_events = n_events
        self.target_live = rng.choice([1, 3, 8, 20, 40])
        self.dead = []           # keys of completed transactions (for late replies)
        self.last_frame = None
        self.big = self.cfg["maxApdu"]

    def do(self, r):
        if r is None:
            return
        if isinstance(r, tuple):
            for x in r:
                if x is not None:
                    self.O.after(self.L.events[self.L.replies.index(x)], x)
            return
        self.O.after(self.L.events[-1], r)

    def step(self, fn, *a):
        n0 = len(self.L.events)
        fn(*a)
        for i in range(n0, len(self.L.events)):
            self.O.after(self.L.events[i], self.L.replies[i])

    def live(self, side):
        trs = self.L.smap.clientTransactions if side == "cl" else self.L.smap.serverTransactions
        return [(self.L.peer_of(t.pdu_address), t.invokeID, t.state, t) for t in trs]

    def new_request(self):
        rng = self.rng
        p = rng.randrange(self.npeers)
        n = rng.choice([0, 1, 5, 5, 5, 40, 47, self.big - 4, self.big - 3, self.big * 2, self.big * 3 + 1])
        inv = None
        r = rng.random()
        if r < 0.15:
            inv = rng.randrange(256)
        elif r < 0.25:
            lv = self.live("cl")
            if lv:
                inv = rng.choice(lv)[1]          # collision: same peer (refused) or another peer (fine)
        self.step(self.L.request, p, rng.choice([200, 200, 200, 201, 199]), payload(rng, n), inv)

    def reply_header(self, p, inv, kind):
        rng = self.rng
        if kind == "simple":
            return {"t": 2, "id": inv, "svc": 200}
        if kind == "complex":
            return {"t": 3, "id": inv, "svc": rng.choice([200, 200, 201, 199]), "hex": payload(rng, rng.choice([0, 3, 30])).hex()}
        if kind == "complexseg":
            return {"t": 3, "id": inv, "svc": 200, "seg": 1, "mor": rng.choice([1, 1, 0]),
                    "seq": rng.choice([0, 0, 0, 1, 2, 255]), "win": rng.choice([1, 2, 3, 127, 0]),
                    "hex": payload(rng, rng.choice([1, 20])).hex()}
        if kind == "error":
            return {"t": 5, "id": inv, "svc": rng.choice([200, 201]), "hex": "9100"}
        if kind == "reject":
            return {"t": 6, "id": inv, "reason": rng.randrange(10)}
        if kind == "abort":
            return {"t": 7, "id": inv, "srv": 1, "reason": rng.randrange(12)}
        if kind == "abort0":
            return {"t": 7, "id": inv, "srv": 0, "reason": rng.randrange(12)}
        if kind == "segack":
            return {"t": 4, "id": inv, "srv": 1, "nak": rng.choice([0, 0, 1]), "seq": rng.choice([0, 1, 2, 3, 255]),
                    "win": rng.choice([1, 2, 3, 8, 127])}
        if kind == "segack0":
            return {"t": 4, "id": inv, "srv": 0, "nak": rng.choice([0, 0, 1]), "seq": rng.choice([0, 1, 2, 3, 255]),
                    "win": rng.choice([1, 2, 3, 8, 127])}
        raise AssertionError(kind)

    def inject(self, p, a):
        self.last_frame = (p, a)
        self.step(self.L.frame, p, a)

    def conforming_reply(self):
        """progress a live client transaction the way a real server would"""
        lv = self.live("cl")
        if not lv:
            return self.new_request()
        p, inv, st, tr = self.rng.choice(lv)
        if st == 1:       # SEGMENTED_REQUEST: ack what has been sent
            sent_upto = ((tr.initialSequenceNumber or 0) + (tr.actualWindowSize or 1) - 1)
            last = min(sent_upto, (tr.segmentCount or 1) - 1) if tr.initialSequenceNumber else 0
            a = {"t": 4, "id": inv, "srv": 1, "seq": last % 256, "win": self.rng.choice([1, 2, 3, 4])}
        elif st == 2 and (tr.segmentCount or 1) > 1 and self.rng.random() < 0.3:
            # a duplicated / delayed final SegmentAck of the segmented request reaches the client
            # that already waits for the confirmation (AWAIT_CONFIRMATION): must change nothing
            a = {"t": 4, "id": inv, "srv": 1, "nak": self.rng.choice([0, 0, 1]),
                 "seq": ((tr.segmentCount or 1) - 1) % 256, "win": tr.actualWindowSize or 1}
        elif st == 2:
            a = self.reply_header(p, inv, self.rng.choice(["simple", "complex", "complex", "error", "reject", "abort", "complexseg"]))
            if a.get("seg"):
                a["seq"] = 0
                a["mor"] = 1
                a["win"] = self.rng.choice([1, 2, 3])
        else:             # SEGMENTED_CONFIRMATION: next segment in order
            a = {"t": 3, "id": inv, "svc": 200, "seg": 1, "mor": self.rng.choice([1, 1, 0]),
                 "seq": ((tr.lastSequenceNumber or 0) + 1) % 256, "win": tr.actualWindowSize or 1,
                 "hex": payload(self.rng, 9).hex()}
        if self.reenter and st == 2 and not a.get("seg") and self.rng.random() < 0.25:
            re = {"peer": self.rng.choice([p, p, self.rng.randrange(self.npeers)]), "svc": 200, "data": b"re",
                  "id": self.rng.choice([inv, inv, None])}
            self.last_frame = (p, a)
            self.step(self.L.frame_reenter, p, a, re)
        else:
            self.inject(p, a)
        if (p, inv) not in [(x[0], x[1]) for x in self.live("cl")]:
            self.dead.append(("cl", p, inv))

    def adversarial_reply(self):
        rng = self.rng
        kinds = ["simple", "complex", "complexseg", "error", "reject", "abort", "abort0", "segack", "segack0"]
        lv = self.live("cl") + self.live("sv")
        r = rng.random()
        if lv and r < 0.35:      # right key, arbitrary PDU
            p, inv, st, tr = rng.choice(lv)
        elif lv and r < 0.6:     # foreign peer, same ID
            p0, inv, st, tr = rng.choice(lv)
            p = rng.choice([q for q in range(max(2, self.npeers)) if q != p0] or [p0])
        elif lv and r < 0.75:    # right peer, neighbouring ID
            p, inv0, st, tr = rng.choice(lv)
            inv = (inv0 + rng.choice([1, 255, 128])) % 256
        elif self.dead and r < 0.9:   # late: after completion
            _s, p, inv = rng.choice(self.dead)
        else:
            p, inv = rng.randrange(max(2, self.npeers)), rng.randrange(256)
        self.inject(p, self.reply_header(p, inv, rng.choice(kinds)))

    def duplicate(self):
        if self.last_frame:
            self.inject(*self.last_frame)

    def inbound_request(self):
        rng = self.rng
        r = rng.random()
        sv = self.live("sv")
        if sv and r < 0.25:      # retransmission of a live one (same key)
            p, inv, st, tr = rng.choice(sv)
        elif sv and r < 0.5:     # same ID from another peer
            p0, inv, st, tr = rng.choice(sv)
            p = rng.choice([q for q in range(max(2, self.npeers)) if q != p0] or [p0])
        else:
            p, inv = rng.randrange(max(2, self.npeers)), rng.choice([1, 1, 2, 3, rng.randrange(256)])
        a = {"t": 0, "id": inv, "svc": rng.choice([200, 200, 200, 201, 202, 199]), "sa": rng.choice([0, 1, 1]),
             "maxResp": rng.choice([0, 1, 2, 3, 4, 5, 5, 6, 15]), "maxSegs": rng.randrange(8),
             "hex": payload(rng, rng.choice([0, 2, 10])).hex()}
        if rng.random() < 0.3:
            a.update(seg=1, mor=rng.choice([1, 1, 0]), seq=rng.choice([0, 0, 1]), win=rng.choice([1, 2, 4, 127, 0]))
        self.inject(p, a)

    def next_segment(self):
        sv = [x for x in self.live("sv") if x[2] == 1]
        if not sv:
            return self.inbound_request()
        p, inv, st, tr = self.rng.choice(sv)
        a = {"t": 0, "id": inv, "svc": 200, "sa": 1, "maxResp": 3, "maxSegs": 3, "seg": 1,
             "mor": self.rng.choice([1, 1, 0]), "seq": ((tr.lastSequenceNumber or 0) + self.rng.choice([1, 1, 1, 0, 2])) % 256,
             "win": tr.actualWindowSize or 1, "hex": payload(self.rng, 8).hex()}
        self.inject(p, a)

    def app_response(self):
        rng = self.rng
        sv = self.live("sv")
        r = rng.random()
        if sv and r < 0.75:
            p, inv, st, tr = rng.choice(sv)
            big = tr.maxApduLengthAccepted or 50
        elif self.dead and r < 0.9:
            _s, p, inv = rng.choice(self.dead)
            big = 50
        else:
            p, inv, big = rng.randrange(max(2, self.npeers)), rng.randrange(256), 50
        t = rng.choice([2, 3, 3, 3, 5, 6, 7, 4])
        a = {"t": t, "id": inv, "svc": 200}
        if t == 3:
            a["hex"] = payload(rng, rng.choice([0, 4, big - 3, big - 2, big * 2, big * 5])).hex()
        elif t == 5:
            a["hex"] = "9100"
        elif t in (6, 7):
            a["reason"] = rng.randrange(10)
            a["srv"] = 1
        self.step(self.L.response, p, a)
        if (p, inv) not in [(x[0], x[1]) for x in self.live("sv")]:
            self.dead.append(("sv", p, inv))

    def ack_response(self):
        sv = [x for x in self.live("sv") if x[2] == 4]
        if not sv:
            return self.app_response()
        p, inv, st, tr = self.rng.choice(sv)
        sent_upto = tr.initialSequenceNumber + (tr.actualWindowSize or 1) - 1 if tr.initialSequenceNumber else 0
        a = {"t": 4, "id": inv, "srv": 0, "nak": self.rng.choice([0, 0, 0, 1]),
             "seq": min(sent_upto, (tr.segmentCount or 1) - 1) % 256, "win": self.rng.choice([1, 2, 3, 5])}
        self.inject(p, a)

    def fire(self):
        self.step(self.L.fire_next)

    def misc(self):
        rng = self.rng
        r = rng.random()
        if r < 0.3:
            self.inject(rng.randrange(self.npeers), {"t": rng.choice([8, 9, 15]), "id": rng.randrange(4)})
        elif r < 0.6:
            self.inject(rng.randrange(self.npeers), {"t": 1, "svc": rng.choice([200, 8, 0]), "hex": "0102"})
        elif r < 0.75:
            self.step(self.L.unconfirmed, rng.randrange(self.npeers), rng.choice([200, 0, 8]), b"\x01")
        elif r < 0.9:
            p = rng.randrange(self.npeers)
            self.step(self.L.learn, p, {"maxApdu": rng.choice([50, 206, 1476]), "seg": rng.randrange(4),
                                        "maxSegs": rng.choice([None, 2, 16]), "maxNpdu": rng.choice([None, None, 300])})
        else:
            self.step(self.L.tick, rng.choice([1, 1000, 100000]))

    def run(self):
        rng = self.rng
        while len(self.L.events) < self.n_events:
            nlive = len(self.L.smap.clientTransactions)
            r = rng.random()
            if nlive < self.target_live and r < 0.3:
                self.new_request()
            elif r < 0.42:
                self.conforming_reply()
            elif r < 0.58:
                self.adversarial_reply()
            elif r < 0.62:
                self.duplicate()
            elif r < 0.72:
                self.inbound_request()
            elif r < 0.76:
                self.next_segment()
            elif r < 0.86:
                self.app_response()
            elif r < 0.9:
                self.ack_response()
            elif r < 0.96:
                self.fire()
            else:
                self.misc()
        return self.L


def wrap_scenario(ctx, rng, label, n):
    """> 256 sequential requests; some stay outstanding so the cursor must skip them"""
    cfg = T.default_cfg()
    cfg["retries"] = 0
    L = T.Lock(cfg, [], next_id=rng.choice([1, 0, 200, 255]))
    O = Oracle(ctx, L, label)
    npeers = rng.choice([1, 2, 3])
    keep = rng.choice([0.0, 0.05, 0.3])

    def step(fn, *a):
        n0 = len(L.events)
        fn(*a)
        for i in range(n0, len(L.events)):
            O.after(L.events[i], L.replies[i])
    for i in range(n):
        p = rng.randrange(npeers)
        step(L.request, p, 200, b"\x00", None)
        if rng.random() >= keep:
            # answer the request just made (its ID is in the frame sent)
            outs = L.replies[-1]["out"]
            if outs and outs[0]["o"] == "send":
                step(L.frame, p, {"t": 2, "id": outs[0]["h"][6], "svc": 200})
        if rng.random() < 0.02:
            step(L.fire_next)
    return L


def exhaust_scenario(ctx, rng, label):
    """fill every reachable ID toward one peer, then one more (refused), another peer still served"""
    cfg = T.default_cfg()
    L = T.Lock(cfg, [], next_id=rng.randrange(256))
    O = Oracle(ctx, L, label)

    def step(fn, *a):
        n0 = len(L.events)
        fn(*a)
        for i in range(n0, len(L.events)):
            O.after(L.events[i], L.replies[i])
    for i in range(258):
        step(L.request, 0, 200, b"", None)
    step(L.request, 1, 200, b"", None)
    # complete one in the middle and ask again
    live = L.smap.clientTransactions
    if live:
        t = live[len(live) // 2]
        step(L.frame, 0, {"t": 2, "id": t.invokeID, "svc": 200})
    step(L.request, 0, 200, b"", None)
    step(L.request, 0, 200, b"", None)
    return L


def reenter_scenario(ctx, rng, label):
    """the application re-enters the stack from inside its confirmation callback: it submits
    a new confirmed request (same peer + same explicit invoke ID | same peer, other ID |
    another peer, same ID) while 1..4 YOUNGER transactions are outstanding behind the
    answered one.  Model: `frame` followed at once by `request`.  Oracle: the reply is
    applied to exactly the transaction that was live with that key when the frame arrived;
    the re-issued request stays outstanding and gets ITS OWN answer."""
    cfg = T.default_cfg()
    cfg["retries"] = rng.choice([0, 3])
    L = T.Lock(cfg, [], next_id=rng.choice([1, 40, 250]))
    L.label = label
    O = Oracle(ctx, L, label)

    def step(fn, *a):
        n0 = len(L.events)
        r = fn(*a)
        for i in range(n0, len(L.events)):
            O.after(L.events[i], L.replies[i])
        return r
    npeers = rng.choice([1, 2, 3])
    p0 = rng.randrange(npeers)
    for _ in range(rng.choice([0, 0, 1, 2])):           # older transactions in front
        step(L.request, rng.randrange(npeers), 200, b"old", None)
    id0 = rng.choice([7, 100, 255, 0])
    step(L.request, p0, 200, b"first", id0)
    for _ in range(rng.choice([1, 1, 2, 3, 4])):        # younger ones behind it
        step(L.request, rng.randrange(npeers), 200, b"young", None)
    mode = rng.choice(["same", "same", "same", "other-id", "other-peer"])
    if mode == "same":
        re = {"peer": p0, "svc": 200, "data": b"again", "id": id0}
    elif mode == "other-id":
        re = {"peer": p0, "svc": 200, "data": b"again", "id": rng.choice([None, (id0 + 77) % 256])}
    else:
        re = {"peer": (p0 + 1) % max(2, npeers), "svc": 200, "data": b"again", "id": id0}
    kind = rng.choice(["simple", "complex", "error", "reject", "abort"])
    a = {"simple": {"t": 2, "id": id0, "svc": 200},
         "complex": {"t": 3, "id": id0, "svc": 200, "hex": "a1a2a3"},
         "error": {"t": 5, "id": id0, "svc": 200, "hex": "9100"},
         "reject": {"t": 6, "id": id0, "reason": 3},
         "abort": {"t": 7, "id": id0, "srv": 1, "reason": 4}}[kind]
    before = keyed(L.snapshot()["cl"])
    r1, r2 = step(L.frame_reenter, p0, a, re)
    case_line = L.events[-1]
    if r2 is None:
        O.fail("reenter", "the answer for a live request produced no confirmation", case_line)
        return L
    # the answer went to the transaction that was live when it arrived, exactly once
    confs1 = [o for o in r1["out"] if o["o"] == "conf"]
    if len(confs1) != 1 or confs1[0]["peer"] != p0:
        O.fail("reenter", "expected one confirmation for (%d,%d), got %r" % (p0, id0, r1["out"]), case_line)
    # the re-issued request is outstanding and nothing was confirmed for it
    got = [o for o in r2["out"] if o["o"] == "conf"]
    if got:
        O.fail("reenter", "a request issued from inside the confirmation callback was answered at once "
               "with the reply of the PREVIOUS transaction: %r" % (got,), case_line)
    new_sent = [o for o in r2["out"] if o["o"] == "send" and o["h"][0] == 0]
    if len(new_sent) != 1:
        O.fail("reenter", "the re-issued request did not go out exactly once: %r" % (r2["out"],), case_line)
        return L
    new_id = new_sent[0]["h"][6]
    if (re["peer"], new_id) not in keyed(r2["cl"]):
        O.fail("reenter", "the re-issued request (%d,%d) is not outstanding afterwards" % (re["peer"], new_id), case_line)
    # every younger transaction is untouched
    for k in before:
        if k != (p0, id0) and k not in keyed(r2["cl"]):
            O.fail("reenter", "transaction %r disappeared" % (k,), case_line)
    # ... and it gets ITS answer (distinct content)
    r3 = step(L.frame, re["peer"], {"t": 3, "id": new_id, "svc": 200, "hex": "e0e1e2e3e4"})
    mine = [o for o in r3["out"] if o["o"] == "conf"]
    if len(mine) != 1 or mine[0]["n"] != 5 or mine[0]["peer"] != re["peer"]:
        O.fail("reenter", "the peer's real answer to the re-issued request was not delivered: %r" % (r3["out"],), L.events[-1])
    # drain: answer the rest
    for (p, i) in keyed(L.snapshot()["cl"]):
        step(L.frame, p, {"t": 2, "id": i, "svc": 200})
    if L.smap.clientTransactions:
        O.fail("reenter", "transactions left after every request was answered", L.events[-1])
    return L


def repeat_scenario(ctx, rng, label):
    """after a transaction COMPLETED, the same peer sending the same invoke ID and the same
    octets again is a NEW request (a client polling by re-submitting one request object - the
    stack wrote the assigned ID into it -, or request 257 after the counter wrapped): it must
    be handed to the application again and answered with the application's CURRENT answer.
    The stub application's answers change from request to request."""
    cfg = T.default_cfg()
    L = T.Lock(cfg, [])
    L.label = label
    O = Oracle(ctx, L, label)

    def step(fn, *a):
        n0 = len(L.events)
        r = fn(*a)
        for i in range(n0, len(L.events)):
            O.after(L.events[i], L.replies[i])
        return r
    p, inv = rng.randrange(3), rng.choice([1, 9, 255, 0])
    req = {"t": 0, "id": inv, "svc": 200, "maxResp": 5, "maxSegs": 0, "sa": rng.choice([0, 1]), "hex": payload(rng, rng.choice([0, 4, 20])).hex()}
    kinds = ["complex", "simple", "error"]
    for round_ in range(rng.choice([2, 3, 4])):
        r = step(L.frame, p, req)
        n_ind = sum(1 for o in r["out"] if o["o"] == "ind" and o["peer"] == p)
        if n_ind != 1:
            O.fail("repeat-after-completion",
                   "request #%d with the same peer, invoke ID %d and octets, sent AFTER the previous one had been answered, "
                   "was not handed to the application (outputs: %r)" % (round_ + 1, inv, r["out"]), L.events[-1])
            return L
        k = kinds[round_ % 3] if rng.random() < 0.5 else "complex"
        current = bytes([0xC0 + round_]) * (3 + round_)
        a = {"complex": {"t": 3, "id": inv, "svc": 200, "hex": current.hex()},
             "simple": {"t": 2, "id": inv, "svc": 200},
             "error": {"t": 5, "id": inv, "svc": 200, "hex": "91%02x" % round_}}[k]
        r = step(L.response, p, a)
        sent = [o for o in r["out"] if o["o"] == "send" and o["peer"] == p]
        want_n = len(bytes.fromhex(a.get("hex", "")))
        if len(sent) != 1 or sent[0]["h"][0] != a["t"] or sent[0]["n"] != want_n or \
                sent[0]["d"] != T.fnv64(bytes.fromhex(a.get("hex", ""))):
            O.fail("repeat-after-completion", "the application's current answer to request #%d did not go out as given: %r" % (
                round_ + 1, r["out"]), L.events[-1])
        if rng.random() < 0.3:
            step(L.tick, rng.choice([1000, 500000, 2000000]))
    return L


def independent_scenario(ctx, rng, label):
    """equal IDs from different peers are served independently (deterministic shape)"""
    cfg = T.default_cfg()
    L = T.Lock(cfg, [], next_id=1)
    O = Oracle(ctx, L, label)
    inv = rng.randrange(256)
    n_ind = 0
    for p in range(4):
        L.frame(p, {"t": 0, "id": inv, "svc": 200, "maxResp": 5, "hex": "%02x" % p})
        O.after(L.events[-1], L.replies[-1])
        n_ind += sum(1 for o in L.replies[-1]["out"] if o["o"] == "ind" and o["peer"] == p and o["h"][6] == inv)
    if n_ind != 4 or len(L.smap.serverTransactions) != 4:
        O.fail("peers-independent", "4 peers sent invoke ID %d: %d indications, %d transactions" % (
            inv, n_ind, len(L.smap.serverTransactions)), L.events[-1])
    # answers go back to the right peer only
    for p in (2, 0, 3, 1):
        L.response(p, {"t": 3, "id": inv, "svc": 200, "hex": "aa%02x" % p})
        O.after(L.events[-1], L.replies[-1])
        outs = L.replies[-1]["out"]
        if [(o["o"], o["peer"], o["n"]) for o in outs] != [("send", p, 2)]:
            O.fail("peers-independent", "answer for peer %d produced %r" % (p, outs), L.events[-1])
    return L


# ---------------------------------------------------------------- nextid stream

def nextid_cases(ctx, rng):
    """get_next_invoke_id alone: every cursor value against occupancy patterns"""
    cases = []
    pats = ["none", "all-but-one", "run", "random", "other-peer", "all"]
    for cur in range(256):
        for pat in (pats if not ctx.quick else rng.sample(pats, 3)):
            if pat == "none":
                occ = []
            elif pat == "all-but-one":
                free = rng.randrange(256)
                occ = [i for i in range(256) if i != free]
            elif pat == "run":
                ln = rng.choice([1, 2, 100, 254, 255])
                occ = [(cur + j) % 256 for j in range(ln)]
            elif pat == "random":
                occ = [i for i in range(256) if rng.random() < 0.7]
            elif pat == "other-peer":
                occ = []
            else:
                occ = list(range(256))
            cases.append({"cur": cur, "occ": occ, "pat": pat})
    return cases


def run_nextid(ctx, cases):
    """each case: build the occupancy with application-chosen IDs, then allocate"""
    cfg = T.default_cfg()
    locks = []
    for c in cases:
        L = T.Lock(cfg, [], next_id=c["cur"])
        peer = 0
        for i in c["occ"]:
            L.request(peer, 200, b"", i)
        if c["pat"] == "other-peer":
            for i in range(0, 256, 3):
                L.request(1, 200, b"", i)
        before = set(keyed(L.snapshot()["cl"]))
        r = L.request(peer, 200, b"", None)
        # oracle
        outs = r["out"]
        if outs and outs[0]["o"] == "send":
            got = outs[0]["h"][6]
            if (peer, got) in before:
                ctx.fail("fresh-id", c, "allocated ID %d is live toward the peer" % got)
            if not (0 <= got < 256):
                ctx.fail("fresh-id", c, "allocated ID %d out of range" % got)
        else:
            free = [i for i in range(256) if (peer, i) not in before]
            # the loop inspects 255 candidates: cur .. cur+254
            reachable = [i for i in free if (i - c["cur"]) % 256 != 255]
            if outs != [{"o": "raised", "k": "noFreeId"}] or reachable:
                ctx.fail("fresh-id", c, "allocation failed although IDs %r are free: %r" % (reachable[:5], outs))
        locks.append(L)
    T.compare(ctx, "nextid", locks)


# ---------------------------------------------------------------- run

def shard_mix(ctx, spec):
    kind, lo, hi, n_events = spec
    locks = []
    for i in range(lo, hi):
        rng = ctx.sub_rng("c11/%s/%d" % (kind, i))
        label = "%s-%d" % (kind, i)
        if kind == "mix":
            locks.append(Mix(ctx, rng, label, n_events, reenter=True).run())
        elif kind == "wrap":
            locks.append(wrap_scenario(ctx, rng, label, n_events))
        elif kind == "exhaust":
            locks.append(exhaust_scenario(ctx, rng, label))
        elif kind == "indep":
            locks.append(independent_scenario(ctx, rng, label))
        elif kind == "reenter":
            locks.append(reenter_scenario(ctx, rng, label))
        elif kind == "repeat":
            locks.append(repeat_scenario(ctx, rng, label))
        elif kind == "late":
            combos = [(x, y, z) for x in TIMEOUTS for y in TIMEOUTS for z in TIMEOUTS]
            locks.append(late_answer_scenario(ctx, rng, label, combos[i % 27]))
    T.compare(ctx, kind, locks)
    if locks:
        ctx.sample({"stream": kind, "reset": locks[0].reset_line, "first_events": locks[0].events[:4]})


def corpus_cases():
    d = os.path.join(core.VERIF, "corpus", "C11")
    out = []
    if os.path.isdir(d):
        for f in sorted(os.listdir(d)):
            if f.endswith(".json"):
                out.append((f, json.load(open(os.path.join(d, f)))))
    return out


def replay_events(ctx, label, reset, events):
    """re-execute a recorded event list on the real code (+ oracle) and the model"""
    L = T.Lock(reset["cfg"], reset.get("di", []), next_id=reset.get("nextId", 1))
    O = Oracle(ctx, L, label)
    skip = False
    for idx, ev in enumerate(events):
        n0 = len(L.events)
        e = ev["e"]
        if skip:
            skip = False
            continue
        if e == "frame" and "re" in ev:
            re = ev["re"]
            _r1, r2 = L.frame_reenter(ev["peer"], ev["a"], {"peer": re["peer"], "svc": re["svc"],
                                                           "data": bytes.fromhex(re["hex"]), "id": re["id"]})
            skip = r2 is not None
            if r2 is not None:
                got = [o for o in r2["out"] if o["o"] == "conf" and o["h"][0] != 7]
                if got:
                    O.fail("reenter", "a request issued from inside the confirmation callback was answered at "
                           "once with the reply of the PREVIOUS transaction: %r" % (got,), ev)
        elif e == "req":
            L.request(ev["peer"], ev["svc"], bytes.fromhex(ev["hex"]), ev["id"])
        elif e == "unconf":
            L.unconfirmed(ev["peer"], ev["svc"], bytes.fromhex(ev["hex"]))
        elif e == "rsp":
            L.response(ev["peer"], ev["a"])
        elif e == "frame":
            L.frame(ev["peer"], ev["a"])
        elif e == "tick":
            if L.vt.tm.tasks and L.vt.tm.tasks[0][0] <= L.vt.now + ev["dt"] / 1e6 + 1e-9:
                continue      # the following timeout event re-creates it
            L.tick(ev["dt"])
        elif e == "timeout":
            L.fire_next()
        elif e == "learn":
            L.learn(ev["peer"], ev["info"])
        elif e == "dcc":
            L.set_dcc(ev["d"])
        for i in range(n0, len(L.events)):
            O.after(L.events[i], L.replies[i])
    return L


def route_aware_probe(ctx):
    """settings.route_aware = True (restored afterwards): the real SMAP + ASAP under a REAL
    NetworkServiceAccessPoint fed hand-encoded routed NPDUs.  The same remote station address
    (2:5) behind two different routers (11, 12) is TWO peers: the peer key of every C11 clause
    includes the route.  Colliding invoke IDs, both directions:
      serving: the same request ID from 2:5@11 and 2:5@12 -> two indications, two transactions,
               each answer leaves through the router its request came through;
      client : two outstanding requests with the same ID to 2:5@11 and 2:5@12 -> each reply is
               applied to the transaction of the router it came through."""
    from bacpypes.settings import settings
    import types
    old = settings.route_aware
    settings.route_aware = True
    try:
        vt = T._vt.VT.install(T.START)
        vt.reset(T.START)
        T.install_raw_services()
        from bacpypes.comm import bind, Server, ApplicationServiceElement
        from bacpypes.pdu import Address, PDU, RemoteStation
        from bacpypes import appservice as AS
        from bacpypes.netservice import NetworkServiceAccessPoint, NetworkServiceElement
        from bacpypes.app import DeviceInfoCache
        from bacpypes.apdu import ComplexAckPDU, ConfirmedRequestPDU
        for inv in (7, 0, 255):
            for order in ((11, 12), (12, 11)):
                case = {"probe": "route-aware", "invoke": inv, "routers": list(order)}
                dev = types.SimpleNamespace(numberOfApduRetries=3, apduTimeout=3000, segmentationSupported='segmentedBoth',
                                            apduSegmentTimeout=1500, maxSegmentsAccepted=16, maxApduLengthAccepted=1024)
                inds, confs, wire = [], [], []

                class App(ApplicationServiceElement):
                    def indication(self, apdu):
                        inds.append(apdu)

                    def confirmation(self, apdu):
                        confs.append(apdu)

                class Link(Server):
                    def indication(self, pdu):
                        wire.append((str(pdu.pduDestination), bytes(pdu.pduData)))
                app, asap, smap, nsap = App(), AS.ApplicationServiceAccessPoint(), AS.StateMachineAccessPoint(dev), NetworkServiceAccessPoint()
                smap.deviceInfoCache = DeviceInfoCache()
                nse = NetworkServiceElement()
                bind(nse, nsap)
                bind(app, asap, smap, nsap)
                nsap.bind(Link(), address=Address(1))
                adapter = nsap.adapters[None]

                def routed(router, apdu, ctl=0x0C):
                    return PDU(bytes([0x01, ctl, 0, 2, 1, 5]) + apdu, source=Address(router), destination=Address(1))
                # ---- serving side
                for r in order:
                    adapter.confirmation(routed(r, bytes([0x00, 0x05, inv, 200, r])))
                vt.run(until=vt.now + 0.05)
                got = sorted((str(a.pduSource), bytes(a.pduData)[0]) for a in inds)
                want = sorted(("2:5@%d" % r, r) for r in order)
                if got != want or len(smap.serverTransactions) != 2:
                    ctx.fail("peers-independent-routes", case,
                             "route_aware: the same request ID %d from 2:5 via router %d and via router %d (two devices): "
                             "indications %r, %d server transaction(s)" % (inv, order[0], order[1], got, len(smap.serverTransactions)))
                for a in list(inds):
                    x = ComplexAckPDU(200, inv)
                    x.pduDestination = a.pduSource
                    x.put_data(b"ans" + bytes(a.pduData))
                    app.response(x)
                vt.run(until=vt.now + 0.05)
                answers = sorted((d, w[-1]) for d, w in wire if w[-4:-1] == b"ans")
                if len(inds) == 2 and answers != sorted((str(r), r) for r in order):
                    ctx.fail("answer-route", case, "route_aware: the answers to 2:5@11 / 2:5@12 left as (router, content) %r" % (answers,))
                # ---- client side
                del wire[:]
                for r in order:
                    d = RemoteStation(2, bytes([5]))
                    d.addrRoute = Address(r)
                    q = ConfirmedRequestPDU(200)
                    q.pduDestination = d
                    q.apduInvokeID = inv
                    q.put_data(bytes([r]))
                    try:
                        app.request(q)
                    except Exception as e:
                        ctx.fail("peers-independent-routes", case, "route_aware: the request with ID %d to 2:5@%d was refused (%s: %s) "
                                 "although the live one is to another device (2:5 behind the other router)" % (inv, r, type(e).__name__, e))
                vt.run(until=vt.now + 0.05)
                # replies arrive in the OPPOSITE order of the requests
                for r in reversed(order):
                    adapter.confirmation(routed(r, bytes([0x30, inv, 200, 0xB0 + r]), ctl=0x08))
                vt.run(until=vt.now + 0.05)
                gotc = sorted((str(a.pduSource), bytes(a.pduData)[0] if a.pduData else None) for a in confs)
                wantc = sorted(("2:5@%d" % r, 0xB0 + r) for r in order)
                if gotc != wantc or smap.clientTransactions:
                    ctx.fail("demux-routes", case, "route_aware: two outstanding requests with ID %d to 2:5@%d and 2:5@%d; the replies were "
                             "confirmed as (peer, content) %r, %d transaction(s) left" % (inv, order[0], order[1], gotc, len(smap.clientTransactions)))
                ctx.count("route-aware-probe", (inv, order))
                vt.reset(T.START)
    finally:
        settings.route_aware = old


def run(ctx):
    route_aware_probe(ctx)
    for name, c in corpus_cases():
        L = replay_events(ctx, "corpus/" + name, c["reset"], c["events"])
        T.compare(ctx, "corpus", [L])
    q = ctx.quick
    n_mix, ev_mix = (32, 240) if q else (1000, 420)
    n_wrap, ev_wrap = (6, 330) if q else (64, 600)
    per = max(1, n_mix // 16)
    specs = [("mix", lo, min(lo + per, n_mix), ev_mix) for lo in range(0, n_mix, per)]
    specs += [("wrap", i, i + 1, ev_wrap) for i in range(n_wrap)]
    specs += [("exhaust", i, i + 1, 0) for i in range(2 if q else 16)]
    specs += [("indep", 0, 8 if q else 64, 0)]
    specs += [("repeat", 0, 40 if q else 800, 0)]
    n_late = 54 if q else 2160
    specs += [("late", lo, min(lo + n_late // 4, n_late), 0) for lo in range(0, n_late, n_late // 4)]
    n_re = 80 if q else 3200
    specs += [("reenter", lo, min(lo + n_re // 8, n_re), 0) for lo in range(0, n_re, n_re // 8)]
    core.run_shards(ctx, "harness.c11", "shard_mix", specs)
    lc = e2e_late_cases()
    if q:
        lc = lc[::2]
    core.run_shards(ctx, "harness.c11", "e2e_late_shard", [lc[i::4] for i in range(4)])
    rng = ctx.sub_rng("c11/nextid")
    cases = nextid_cases(ctx, rng)
    if q:
        cases = cases[::12]
    chunks = [cases[i::16] for i in range(16)]
    core.run_shards(ctx, "harness.c11", "shard_nextid", [c for c in chunks if c])
    # application level (coordinator's end-to-end stream, implementation side only): complete stacks with the
    # IOCB interface, an echo server, requests issued from inside completion callbacks and to several peers at
    # once: every IOCB is completed exactly once and with the answer to ITS OWN request
    from . import c04_impl
    c04_impl.run_app_scripts(ctx, label="c11")


def shard_nextid(ctx, cases):
    run_nextid(ctx, cases)


def search(ctx):
    """focused search when an obligation / the correspondence is broken: the oracle
    already ran over every stream; widen the mix stream with fresh seeds"""
    for i in range(40):
        rng = ctx.sub_rng("c11/search/%d" % i)
        Mix(ctx, rng, "search-%d" % i, 300, reenter=True).run()
        if ctx.failures:
            return


def replay(ctx, payload):
    rec = payload.get("failure") or (payload.get("correspondence_disagreements") or [{}])[0]
    case = rec.get("case")
    if isinstance(case, dict) and "script_scenario" in case:
        from . import c04_impl
        return c04_impl.replay_impl(ctx, case)
    if isinstance(case, dict) and case.get("probe") == "route-aware":
        route_aware_probe(ctx)
        return
    if isinstance(case, dict) and case.get("e2e") == "late":
        e2e_late_shard(ctx, [case])
        return
    if isinstance(case, dict) and "events" in case:
        L = replay_events(ctx, "replay", case["reset"], case["events"])
        T.compare(ctx, "replay", [L])
        return
    if isinstance(case, dict) and "cur" in case:
        run_nextid(ctx, [case])
        return
    raise core.Infra("nothing to replay")
