"""
C13 — B/IP broadcasts reach every node once; foreign registrations expire on time.

Model: lean/BacVerif/Model/Bip.lean driven through lean/Drv/C13.lean.

Correspondence streams
  simple / foreign / bbmd : the REAL BIPSimple / BIPForeign / BIPBBMD between
        stubs (upper client, lower server, service element), under virtual
        time, in lockstep with `bipStep`: after every event the emitted PDUs /
        upward PDUs / SAP PDUs / warnings / exceptions and a digest of the state
        (tables with remaining seconds, registration status, armed deadlines)
        are compared.
  world : whole IP worlds — real B/IP layer + real AnnexJCodec bound to a
        vlan.IPNode by a small multiplexer (the substitution tests/test_bvll
        makes), subnets joined by one vlan.IPRouter — against `World.*` of the
        model: after every event (broadcast, unicast, register, unregister,
        Read-/Delete-FDT, manual registration, time jumps, BBMD failure) the
        ordered observations above every node and the digest of every node.
  theorem-instance : wherever the decidable hypotheses of `bbmd_once` (WF, Pop, Mesh, Home),
        evaluated BY THE LEAN DRIVER on the current model world (whose digest equals the real
        one), hold, the REAL observations must show the theorem's conclusion.
Implementation-side oracle (independent of the model; written from the property)
  per broadcast: deliveries per node counted, source = originator, destination
  = broadcast, never at the originator; on canonical full-mesh layouts every
  other served node exactly once; on arbitrary tables the receiver multiset of
  the characterisation; foreign-device table presence at every event instant
  against the tick arithmetic (present while floor(t) < floor(r)+TTL+5, absent
  from then on, absent at once after Delete-FDT, gone within 5 s of
  unregistering, never duplicated); Read-FDT replies equal the table; the
  foreign device's next renewal is armed before TTL+5 runs out.
"""
import json, socket, struct, collections
from . import core
from .vt import VT

LEAN_TARGETS = ["BacVerif.Props.C13", "drv_c13"]
LEANCHECKER = ["BacVerif.Props.C13"]
LEVEL = "proof"
RULE = ("component lockstep: event sequences per node kind over address pools (so re-registration, "
        "deletion and self-entries hit), TTL grid {0,1,2,5,30,299,300,65535}, BDT masks /32 /24 /16 /28 0 "
        "and odd, every inbound BVLL function incl. an unknown class, every destination address type, "
        "BBMD with and without an upper layer; worlds: 1..5 subnets, 0..1 BBMD, 0..3 ordinary nodes, "
        "0..4 foreign devices (own subnets, BBMD-less subnets, other BBMDs' subnets, and the excluded "
        "same-subnet case), TTL 1..300, full / partial / one-hop tables, 20..60 events at distinct "
        "instants (1 ms before / after the ageing ticks) across registration, renewal, expiry, deletion, "
        "unregistration, manual registration, BBMD failure.  distinct = (stream, model branch signature): "
        "for components the ordered set of output kinds per event and inbound function; for worlds the "
        "operation and the delivery-count class")
TRUSTED = ["lean/BacVerif/Model/Bip.lean is a hand transcription of BIPSimple/BIPForeign/BIPBBMD, "
           "FDTEntry ageing, vlan.IPNetwork/IPRouter; tied by the four lockstep streams",
           "the harness multiplexer (30 lines) replacing UDPMultiplexer/UDPDirector, as tests/test_bvll does",
           "BVLL octet codec is exercised (real AnnexJCodec in the worlds) but modelled by C09, not here",
           "harness/vt.py virtual clock; the float RecurringTask grid (ticks at integer seconds +- ulp)"]
ASSUMPTIONS = ["sub-second alignment: ageing ticks sit on integer seconds of the virtual clock (+- float ulp); "
               "events are placed >= 1 ms away from them; the integer-tick theorems are checked, not proved, "
               "against the float scheduler",
               "exactly-once needs NoEcho (no foreign device on a subnet its own BBMD broadcasts into); where it fails the "
               "theorem bbmd_multiplicity predicts the extra copies and the prediction is compared with the real deliveries",
               "one BBMD per subnet, one IPRouter joining all subnets, all nodes on UDP port 47808"]

START = 1000000.0
PORT = 47808
FULL = 0xFFFFFFFF


def ip_str(ip):
    return socket.inet_ntoa(struct.pack("!L", ip & FULL))


def us(t):
    return int(round(t * 1e6))


# ---------------------------------------------------------------------------
# canonical forms shared by both sides

CAP = []          # observations of the real side, appended by the stubs


def B():
    """lazy import of everything bacpypes (after core.bind_repo)"""
    global _B
    try:
        return _B
    except NameError:
        pass
    import types
    from bacpypes import pdu, bvll, bvllservice, comm, vlan
    ns = types.SimpleNamespace(pdu=pdu, bvll=bvll, svc=bvllservice, comm=comm, vlan=vlan)

    def warn(*_a, **_k):
        CAP.append(["warn"])
    for cls in (bvllservice.BIPSimple, bvllservice.BIPForeign, bvllservice.BIPBBMD):
        cls._warning = staticmethod(warn)

    class Upper(comm.Client):
        def __init__(self, tag=None):
            comm.Client.__init__(self)
            self.tag = tag

        def confirmation(self, p):
            o = ["up"] + ([self.tag] if self.tag is not None else []) + [
                c_addr(p.pduSource), c_dest(p.pduDestination), bytes(p.pduData).hex()]
            CAP.append(o)

    class Lower(comm.Server):
        def indication(self, p):
            CAP.append(["send", c_dest(p.pduDestination), c_bvll(p)])

    class Ase(comm.ApplicationServiceElement):
        def __init__(self, tag=None):
            comm.ApplicationServiceElement.__init__(self)
            self.tag = tag

        def confirmation(self, p):
            CAP.append(["sap"] + ([self.tag] if self.tag is not None else []) + [c_addr(p.pduSource), c_bvll(p)])

        def indication(self, p):
            CAP.append(["sap-ind"])

    class Mux(comm.Client, comm.Server):
        """stands in for UDPMultiplexer + UDPDirector (cf. tests/test_bvll/helpers.FauxMultiplexer)"""

        def __init__(self, addr, network, tag):
            comm.Client.__init__(self)
            comm.Server.__init__(self)
            self.address = addr
            self.tag = tag
            self.unicast_tuple = addr.addrTuple
            self.broadcast_tuple = addr.addrBroadcastTuple
            self.node = vlan.IPNode(addr, network)
            comm.bind(self, self.node)

        def indication(self, p):
            d = p.pduDestination
            if d is not None and d.addrType == pdu.Address.localBroadcastAddr:
                dest = self.broadcast_tuple
            elif d is not None and d.addrType == pdu.Address.localStationAddr:
                dest = pdu.unpack_ip_addr(d.addrAddr)
            else:
                raise RuntimeError("invalid destination address type")
            self.request(pdu.PDU(p, source=self.unicast_tuple, destination=dest))

        def confirmation(self, p):
            src = pdu.Address(p.pduSource)
            if p.pduDestination == self.broadcast_tuple:
                dest = pdu.LocalBroadcast()
            else:
                dest = pdu.Address(p.pduDestination)
            try:
                self.response(pdu.PDU(p, source=src, destination=dest))
            except Exception as e:       # an exception inside a B/IP layer: observed, not propagated
                CAP.append(["err", self.tag, type(e).__name__])

    ns.Upper, ns.Lower, ns.Ase, ns.Mux = Upper, Lower, Ase, Mux
    _B = ns
    return ns


def c_addr(a):
    if a is None:
        return None
    A = B().pdu.Address
    if a.addrType == A.localStationAddr and a.addrLen == 6:
        return [a.addrIP, a.addrPort]
    return ["?", str(a)]


def c_dest(a):
    if a is None:
        return ["o"]
    A = B().pdu.Address
    if a.addrType == A.localStationAddr and a.addrLen == 6:
        return ["s", a.addrIP, a.addrPort]
    if a.addrType == A.localBroadcastAddr:
        return ["b"]
    return ["o"]


def c_bvll(p):
    v = B().bvll
    if isinstance(p, v.Result):
        return ["result", p.bvlciResultCode]
    if isinstance(p, v.WriteBroadcastDistributionTable):
        return ["wbdt", [[e.addrIP, e.addrPort, e.addrMask] for e in p.bvlciBDT]]
    if isinstance(p, v.ReadBroadcastDistributionTableAck):
        return ["rbdtack", [[e.addrIP, e.addrPort, e.addrMask] for e in p.bvlciBDT]]
    if isinstance(p, v.ReadBroadcastDistributionTable):
        return ["rbdt"]
    if isinstance(p, v.ForwardedNPDU):
        return ["fwd", p.bvlciAddress.addrIP, p.bvlciAddress.addrPort, bytes(p.pduData).hex()]
    if isinstance(p, v.RegisterForeignDevice):
        return ["reg", p.bvlciTimeToLive]
    if isinstance(p, v.ReadForeignDeviceTableAck):
        return ["rfdtack", [[e.fdAddress.addrIP, e.fdAddress.addrPort, e.fdTTL, e.fdRemain] for e in p.bvlciFDT]]
    if isinstance(p, v.ReadForeignDeviceTable):
        return ["rfdt"]
    if isinstance(p, v.DeleteForeignDeviceTableEntry):
        return ["del", p.bvlciAddress.addrIP, p.bvlciAddress.addrPort]
    if isinstance(p, v.DistributeBroadcastToNetwork):
        return ["dist", bytes(p.pduData).hex()]
    if isinstance(p, v.OriginalUnicastNPDU):
        return ["ou", bytes(p.pduData).hex()]
    if isinstance(p, v.OriginalBroadcastNPDU):
        return ["ob", bytes(p.pduData).hex()]
    return ["unk"]


def mk_addr(a, mask=None):
    x = B().pdu.Address((ip_str(a[0]), a[1]))
    if mask is not None:
        x.addrMask = mask
    return x


OTHER_DESTS = 4


def mk_dest(d):
    P = B().pdu
    if d[0] == "s":
        return mk_addr(d[1:3])
    if d[0] == "b":
        return P.LocalBroadcast()
    v = d[1] if len(d) > 1 else 0
    return [P.RemoteStation(5, 1), P.RemoteBroadcast(5), P.GlobalBroadcast(), P.Address()][v % OTHER_DESTS]


def mk_bvll(m, src=None, dst=None):
    v = B().bvll
    kw = {}
    if src is not None:
        kw["source"] = src
    if dst is not None:
        kw["destination"] = dst
    k = m[0]
    if k == "result":
        return v.Result(m[1], **kw)
    if k == "wbdt":
        return v.WriteBroadcastDistributionTable([mk_addr(e[:2], e[2]) for e in m[1]], **kw)
    if k == "rbdt":
        return v.ReadBroadcastDistributionTable(**kw)
    if k == "rbdtack":
        return v.ReadBroadcastDistributionTableAck([mk_addr(e[:2], e[2]) for e in m[1]], **kw)
    if k == "fwd":
        return v.ForwardedNPDU(mk_addr(m[1:3]), bytes.fromhex(m[3]), **kw)
    if k == "reg":
        return v.RegisterForeignDevice(m[1], **kw)
    if k == "rfdt":
        return v.ReadForeignDeviceTable(**kw)
    if k == "rfdtack":
        l = []
        for e in m[1]:
            f = v.FDTEntry()
            f.fdAddress, f.fdTTL, f.fdRemain = mk_addr(e[:2]), e[2], e[3]
            l.append(f)
        return v.ReadForeignDeviceTableAck(l, **kw)
    if k == "del":
        return v.DeleteForeignDeviceTableEntry(mk_addr(m[1:3]), **kw)
    if k == "dist":
        return v.DistributeBroadcastToNetwork(bytes.fromhex(m[1]), **kw)
    if k == "ou":
        return v.OriginalUnicastNPDU(bytes.fromhex(m[1]), **kw)
    if k == "ob":
        return v.OriginalBroadcastNPDU(bytes.fromhex(m[1]), **kw)
    if k == "unk":
        return B().pdu.PDU(b"\x01\x02", **kw)
    raise core.Infra("bad bvll " + repr(m))


def sched(task):
    """armed deadline of a real task in integer microseconds (None = not scheduled)"""
    if not getattr(task, "isScheduled", False):
        return None
    return us(task.taskTime)


def digest(bip):
    s = B().svc
    if isinstance(bip, s.BIPBBMD):
        return ["bbmd", c_addr(bip.bbmdAddress),
                [[e.addrIP, e.addrPort, e.addrMask] for e in bip.bbmdBDT],
                [[e.fdAddress.addrIP, e.fdAddress.addrPort, e.fdTTL, e.fdRemain] for e in bip.bbmdFDT],
                bool(bip.serverPeer)]
    if isinstance(bip, s.BIPForeign):
        return ["foreign", bip.registrationStatus, c_addr(bip.bbmdAddress), bip.bbmdTimeToLive,
                sched(bip), sched(bip._registration_timeout_task)]
    return ["simple"]


# ---------------------------------------------------------------------------
# component lockstep: the real side


class RealComp:
    def __init__(self, vt, cfg):
        s, c = B().svc, B().comm
        vt.reset(START)
        self.vt = vt
        kind = cfg["kind"]
        if kind == "simple":
            self.bip = s.BIPSimple()
        elif kind == "foreign":
            self.bip = s.BIPForeign()
        else:
            self.bip = s.BIPBBMD(mk_addr(cfg["addr"]))
            for e in cfg.get("bdt", []):
                self.bip.add_peer(mk_addr(e[:2], e[2]))
        self.lower = B().Lower()
        c.bind(self.bip, self.lower)
        if cfg.get("upper", True):
            self.upper = B().Upper()
            c.bind(self.upper, self.bip)
        self.ase = B().Ase()
        c.bind(self.ase, self.bip)

    def apply(self, ev):
        del CAP[:]
        P = B().pdu
        op = ev["op"]
        bip = self.bip
        try:
            if op == "down":
                bip.indication(P.PDU(bytes.fromhex(ev["data"]), destination=mk_dest(ev["dst"])))
            elif op == "up":
                self.vt.now = ev["now"] / 1e6
                bip.confirmation(mk_bvll(ev["msg"], src=mk_addr(ev["src"]), dst=mk_dest(ev["dst"])))
            elif op == "tick":
                bip.process_task()
            elif op == "addpeer":
                bip.add_peer(mk_addr(ev["e"][:2], ev["e"][2]))
            elif op == "delpeer":
                bip.delete_peer(mk_addr(ev["a"]))
            elif op == "register":
                bip.register(mk_addr(ev["a"]), ev["ttl"])
            elif op == "unregister":
                bip.unregister()
            elif op in ("renew", "expire"):
                task = bip if op == "renew" else bip._registration_timeout_task
                # the float of the armed deadline may sit an ulp off the microsecond value
                self.vt.now = max(ev["now"] / 1e6, task.taskTime if task.isScheduled else 0.0)
                self.vt.run(until=self.vt.now)
                for k, w in self.vt.errors:
                    CAP.append(["raised", k])
                del self.vt.errors[:]
            else:
                raise core.Infra("bad op " + op)
        except core.Infra:
            raise
        except Exception as e:
            CAP.append(["raised", type(e).__name__])
        return {"out": [list(o) for o in CAP], "st": digest(bip)}


# ---------------------------------------------------------------------------
# component lockstep: generators (adaptive on the real side's armed deadlines)

TTLS = [0, 1, 2, 5, 30, 299, 300, 65535]
MASKS = [FULL, 0xFFFFFF00, 0xFFFF0000, 0xFFFFFFF0, 0, 0xFF00FF00, 0x80000000]


def pool(rng, n=4):
    nets = [rng.choice([0x0A000100, 0x0A000200, 0xC0A80100, 0xAC100000, 0x0A0000F0]) for _ in range(2)]
    return [[rng.choice(nets) + rng.choice([2, 3, 10, 254, 255, 0]), rng.choice([PORT, PORT, PORT, 47809])]
            for _ in range(n)]


def rnd_data(rng):
    return bytes(rng.getrandbits(8) for _ in range(rng.choice([0, 1, 3, 8]))).hex()


def rnd_dest(rng, addrs):
    r = rng.random()
    if r < 0.45:
        return ["b"]
    if r < 0.85:
        return ["s"] + rng.choice(addrs)
    return ["o", rng.randrange(OTHER_DESTS)]


def rnd_bdt(rng, addrs):
    return [rng.choice(addrs) + [rng.choice(MASKS)] for _ in range(rng.choice([0, 1, 2, 3]))]


def rnd_fdt(rng, addrs):
    return [rng.choice(addrs) + [rng.choice(TTLS), rng.choice([0, 1, 5, 35, 65540])]
            for _ in range(rng.choice([0, 1, 2]))]


def rnd_msg(rng, addrs, weights=None):
    kinds = ["result", "wbdt", "rbdt", "rbdtack", "fwd", "reg", "rfdt", "rfdtack", "del", "dist", "ou", "ob", "unk"]
    k = rng.choices(kinds, weights=weights)[0] if weights else rng.choice(kinds)
    if k == "result":
        return ["result", rng.choice([0, 0, 0, 0x10, 0x30, 0x50, 0x60, 65535])]
    if k in ("wbdt", "rbdtack"):
        return [k, rnd_bdt(rng, addrs)]
    if k == "fwd":
        return ["fwd"] + rng.choice(addrs) + [rnd_data(rng)]
    if k == "reg":
        return ["reg", rng.choice(TTLS)]
    if k == "rfdtack":
        return [k, rnd_fdt(rng, addrs)]
    if k == "del":
        return ["del"] + rng.choice(addrs)
    if k in ("dist", "ou", "ob"):
        return [k, rnd_data(rng)]
    return [k]


def gen_component(rng, kind, vt, n_events):
    """runs the real component while generating; returns (cfg, events, impl replies)"""
    addrs = pool(rng)
    cfg = {"op": "reset", "kind": kind}
    if kind == "foreign":
        cfg["t0"] = us(START)       # the constructor schedules _registration_expired at once
    if kind == "bbmd":
        cfg["addr"] = addrs[0]
        cfg["upper"] = rng.random() < 0.8
        cfg["bdt"] = []
        if rng.random() < 0.7:
            cfg["bdt"] = [addrs[0] + [rng.choice(MASKS[:2])]] + rnd_bdt(rng, addrs[1:])
            rng.shuffle(cfg["bdt"])
            seen, l = set(), []
            for e in cfg["bdt"]:      # add_peer de-duplicates by address
                if tuple(e[:2]) not in seen:
                    seen.add(tuple(e[:2])); l.append(e)
            cfg["bdt"] = l
    real = RealComp(vt, cfg)
    now = START + rng.choice([0.25, 0.5, 0.003])
    events, replies = [], []

    def do(ev):
        events.append(ev)
        replies.append(real.apply(ev))

    for _ in range(n_events):
        r = rng.random()
        if kind == "simple":
            if r < 0.3:
                do({"op": "down", "dst": rnd_dest(rng, addrs), "data": rnd_data(rng)})
            else:
                do({"op": "up", "now": us(now), "src": rng.choice(addrs), "dst": rnd_dest(rng, addrs),
                    "msg": rnd_msg(rng, addrs)})
        elif kind == "bbmd":
            if r < 0.2:
                do({"op": "down", "dst": rnd_dest(rng, addrs), "data": rnd_data(rng)})
            elif r < 0.35:
                for _k in range(rng.choice([1, 1, 2, 5, 6, 36])):
                    do({"op": "tick"})
            elif r < 0.42:
                do({"op": "addpeer", "e": rng.choice(addrs) + [rng.choice(MASKS)]})
            elif r < 0.46:
                do({"op": "delpeer", "a": rng.choice(addrs)})
            else:
                w = [1, 1, 1, 1, 4, 6, 2, 1, 3, 4, 1, 4, 1]
                do({"op": "up", "now": us(now), "src": rng.choice(addrs), "dst": rnd_dest(rng, addrs),
                    "msg": rnd_msg(rng, addrs, w)})
        else:  # foreign
            bip = real.bip
            dl = [(t, nm) for t, nm in ((sched(bip), "renew"), (sched(bip._registration_timeout_task), "expire"))
                  if t is not None]
            dl.sort()
            tie = len(dl) == 2 and dl[0][0] == dl[1][0]
            if r < 0.30 and dl and not tie:
                t, nm = dl[0]
                now = max(now, t / 1e6)
                do({"op": nm, "now": us(now)})
            elif r < 0.42:
                ttl = rng.choice([-1, 0, 1, 2, 5, 30, 300, 65535])
                do({"op": "register", "a": rng.choice(addrs[:2]), "ttl": ttl})
                d = rng.random()
                if ttl > 0 and d < 0.2:
                    do({"op": "unregister"})                 # back to back, nothing sent yet
                elif ttl > 0 and d < 0.4:
                    do({"op": "renew", "now": us(now)})      # request in flight, no Result yet
                    do({"op": "unregister"})
            elif r < 0.47:
                do({"op": "unregister"})
            elif r < 0.6:
                do({"op": "down", "dst": rnd_dest(rng, addrs), "data": rnd_data(rng)})
            else:
                # move time forward but never past an armed deadline
                target = now + rng.choice([0.0, 0.001, 0.5, 1.0, 7.25, 40.0])
                armed = [t / 1e6 for t, _ in dl if t > 0]
                if armed and target >= min(armed) - 0.0005:
                    target = max(now, min(armed) - 0.0005)
                now = target
                w = [8, 1, 1, 1, 8, 1, 1, 1, 1, 1, 2, 2, 1]
                src = bip.bbmdAddress
                src = [src.addrIP, src.addrPort] if (src is not None and rng.random() < 0.75) else rng.choice(addrs)
                do({"op": "up", "now": us(now), "src": src, "dst": rnd_dest(rng, addrs),
                    "msg": rnd_msg(rng, addrs, w)})
    return cfg, events, replies


def out_shape(outs):
    ks = []
    for o in outs or []:
        k = o[0] + (":" + o[1][0] + ":" + o[2][0] if o[0] == "send" else ":" + o[1] if o[0] == "raised" else "")
        if k not in ks:
            ks.append(k)
    return ",".join(ks)


def sig_comp(case, m):
    ev = case
    fn = ev.get("msg", [""])[0] if ev.get("op") == "up" else ""
    dk = ev.get("dst", [""])[0] if "dst" in ev else ""
    return (ev.get("op"), fn, dk, out_shape(m.get("out")) if isinstance(m, dict) else "")


def compare_seq(ctx, stream, cfg, events, impl, model):
    """lockstep diff of one sequence; a disagreement carries the whole prefix so that it replays"""
    ctx.streams[stream] += len(events)
    for i, (ev, a, b) in enumerate(zip(events, impl, model)):
        b2 = core.strip_br(b)
        if isinstance(b2, dict) and b2.get("r") == "bad-request":
            raise core.Infra("model rejected request %r: %r" % (ev, b2))
        ctx.count(stream, sig_comp(ev, b2))
        if core.canon(a) != core.canon(b2):
            ctx.disagree(stream, {"stream": stream, "cfg": cfg, "events": events[:i + 1]}, a, b2)
            break


def comp_oracle(ctx, kind, cfg, events, replies):
    """properties of a single layer that follow from the property text, evaluated on the real replies"""
    for i, (ev, r) in enumerate(zip(events, replies)):
        case = {"stream": kind, "cfg": cfg, "events": events[:i + 1]}
        for o in r["out"]:
            if o[0] == "raised" and not (kind == "foreign" and (
                    (ev["op"] == "register" and ev["ttl"] <= 0 and o[1] == "ValueError") or
                    (ev["op"] == "up" and ev["msg"][0] == "result" and o[1] == "TypeError"
                     and replies[i]["st"][2] is None))):
                ctx.fail("unexpected-exception", case, "event %r raised %s" % (ev, o[1]))
        st = r["st"]
        if kind == "bbmd":
            fdt = st[3]
            keys = [tuple(e[:2]) for e in fdt]
            if len(keys) != len(set(keys)):
                ctx.fail("fdt-duplicate", case, "foreign device table lists an address twice: %r" % (fdt,))
            if any(e[3] <= 0 for e in fdt):
                ctx.fail("fdt-stale", case, "entry with no time left stays listed: %r" % (fdt,))
            if ev["op"] == "up" and ev["msg"][0] == "reg":
                want = tuple(ev["src"]) + (ev["msg"][1], ev["msg"][1] + 5)
                if [tuple(e) for e in fdt].count(want) != 1:
                    ctx.fail("fdt-register", case, "after Register-Foreign-Device the table lacks %r: %r" % (want, fdt))
            if ev["op"] == "up" and ev["msg"][0] == "del":
                if tuple(ev["msg"][1:3]) in keys:
                    ctx.fail("fdt-delete", case, "deleted entry still listed: %r" % (fdt,))
                prev = replies[i - 1]["st"][3] if i else []
                if [e for e in prev if tuple(e[:2]) != tuple(ev["msg"][1:3])] != fdt:
                    ctx.fail("fdt-delete", case, "deletion disturbed other entries: %r -> %r" % (prev, fdt))
            if ev["op"] == "tick":
                prev = replies[i - 1]["st"][3] if i else []
                want = [e[:3] + [e[3] - 1] for e in prev if e[3] - 1 > 0]
                if want != fdt:
                    ctx.fail("fdt-tick", case, "one-second ageing: %r -> %r, expected %r" % (prev, fdt, want))
            if ev["op"] == "up" and ev["msg"][0] == "rfdt":
                prev = replies[i - 1]["st"][3] if i else []
                acks = [o for o in r["out"] if o[0] == "send" and o[2][0] == "rfdtack"]
                if len(acks) != 1 or acks[0][2][1] != prev or acks[0][1] != ["s"] + ev["src"]:
                    ctx.fail("read-fdt", case, "Read-FDT reply %r does not show the table %r" % (acks, prev))
            # a Distribute-Broadcast is never forwarded back to its sender through the FDT
            if ev["op"] == "up" and ev["msg"][0] == "dist":
                me = tuple(st[1])
                via_bdt = sum(1 for e in st[2] if tuple(e[:2]) != me and
                              ((e[0] | (FULL - e[2] % (FULL + 1))) & FULL, e[1]) == tuple(ev["src"]))
                back = sum(1 for o in r["out"] if o[0] == "send" and o[2][0] == "fwd" and o[1] == ["s"] + ev["src"])
                if back != via_bdt:
                    ctx.fail("echo", case, "Distribute-Broadcast forwarded back to its sender %d times (BDT explains %d)" % (back, via_bdt))
        if kind == "foreign":
            # unregister(), at any point of the device's life: TTL 0 goes to the BBMD, the device has left,
            # nothing stays armed, and no later acknowledgement brings it back until register() is called
            if ev["op"] == "unregister":
                prev = replies[i - 1]["st"] if i else ["foreign", -1, None, None, None, None]
                if prev[2] is not None:
                    want = ["send", ["s"] + prev[2], ["reg", 0]]
                    if [o for o in r["out"] if o[0] == "send"] != [want]:
                        ctx.fail("unregister-not-sent", case, "unregister() with BBMD %r (status %r) sent %r, expected "
                                 "Register-Foreign-Device TTL 0" % (prev[2], prev[1], [o for o in r["out"] if o[0] == "send"]))
                    if st != ["foreign", -2, None, None, None, None]:
                        ctx.fail("unregister-ignored", case, "after unregister() the device is %r" % (st,))
            last_un = max([j for j in range(i + 1) if events[j]["op"] == "unregister" and
                           (j == 0 or replies[j - 1]["st"][2] is not None)] or [-1])
            last_reg = max([j for j in range(i + 1) if events[j]["op"] == "register" and events[j]["ttl"] > 0] or [-1])
            if last_un > last_reg and (st[1] == 0 or st[4] is not None):
                ctx.fail("unregister-ignored", case, "after unregister() (event %d) the device is %r" % (last_un, st))
            # renewal is armed no later than TTL after it fired; expiry tracking TTL+30 after the ack
            if ev["op"] == "renew" and st[3] is not None and st[4] is not None:
                if st[4] - ev["now"] != st[3] * 1000000:
                    ctx.fail("renew-period", case, "next renewal %r us after firing, TTL %r" % (st[4] - ev["now"], st[3]))
            if ev["op"] == "up" and ev["msg"] == ["result", 0] and st[1] == 0 and st[2] == ev["src"] and \
                    (i == 0 or replies[i - 1]["st"][1] != -2) and st[3] is not None:
                # J.5.2.3: the device may consider itself registered for TTL + 30 s after the acknowledgement
                if st[5] is None or st[5] - ev["now"] != (st[3] + 30) * 1000000:
                    ctx.fail("expiry-tracking", case, "after the acknowledgement at %d the registration is tracked until %r, "
                             "expected TTL %d + 30 s" % (ev["now"], st[5], st[3]))
            if ev["op"] == "up" and ev["msg"][0] == "fwd":
                ups = [o for o in r["out"] if o[0] == "up"]
                ok = st[1] == 0 and st[2] == ev["src"]
                if bool(ups) != ok:
                    ctx.fail("foreign-accept", case, "forwarded NPDU from %r %s while status=%r bbmd=%r" % (
                        ev["src"], "delivered" if ups else "dropped", st[1], st[2]))


def run_components(ctx, vt, rng, kind, n_seq, n_events, drv):
    for _ in range(n_seq):
        cfg, events, replies = gen_component(rng, kind, vt, n_events)
        comp_oracle(ctx, kind, cfg, events, replies)
        if drv:
            b = drv.ask([cfg] + events)
            compare_seq(ctx, kind, cfg, events, replies, b[1:])
        else:
            for r in events:
                ctx.count(kind)
        ctx.sample({"stream": kind, "cfg": cfg, "events": events[:3]})


# ---------------------------------------------------------------------------
# worlds: layout generation


def net_ip(i):
    return 0x0A000000 + (i << 8)


def gen_world(rng, quick=True):
    """a layout + an event list.  Everything the oracle needs is in the scenario itself."""
    ns = rng.choice([1, 2, 2, 3, 3, 4, 5])
    mode = rng.choices(["full", "mixed", "partial", "onehop", "odd"], weights=[4, 3, 2, 1, 1])[0]
    nets, bbmds, simples, fds = [], [], [], []
    for i in range(1, ns + 1):
        has_b = rng.random() < (0.9 if mode in ("full", "mixed") else 0.7)
        n = {"id": i, "bcast": [net_ip(i) + 255, PORT], "router": [net_ip(i) + 1, PORT, 0xFFFFFF00, net_ip(i)],
             "prefix": 24, "nodes": []}
        if has_b:
            a = [net_ip(i) + 2, PORT]
            n["nodes"].append({"addr": a, "kind": "bbmd", "bdt": []})
            bbmds.append(a)
        k = rng.randrange(0, 4)
        if mode in ("full", "mixed") and not has_b:
            k = 0          # canonical layouts: ordinary nodes only where a BBMD serves them
        for h in range(k):
            a = [net_ip(i) + 10 + h, PORT]
            n["nodes"].append({"addr": a, "kind": "simple"})
            simples.append(a)
        nets.append(n)
    nf = rng.randrange(0, 5) if bbmds else 0
    nextnet = ns + 1
    for j in range(nf):
        where = rng.random()
        if where < 0.5 or mode in ("full", "mixed") and where < 0.6:
            n = {"id": nextnet, "bcast": [net_ip(nextnet) + 255, PORT],
                 "router": [net_ip(nextnet) + 1, PORT, 0xFFFFFF00, net_ip(nextnet)], "prefix": 24, "nodes": []}
            nets.append(n); nextnet += 1
        else:
            n = rng.choice(nets)
        a = [net_ip(n["id"]) + 100 + j, PORT]
        n["nodes"].append({"addr": a, "kind": "foreign", "t0": us(START)})
        fds.append(a)
    rng.shuffle(nets) if rng.random() < 0.3 else None
    for n in nets:
        if rng.random() < 0.3:
            rng.shuffle(n["nodes"])
    # tables
    for n in nets:
        for nd in n["nodes"]:
            if nd["kind"] != "bbmd":
                continue
            if mode == "full":
                l = [b + [FULL] for b in bbmds]
                if rng.random() < 0.5:
                    rng.shuffle(l)
            elif mode == "mixed":
                # a full mesh whose entries are two-hop or one-hop, chosen per pair (the own entry too)
                l = [b + [rng.choice([FULL, 0xFFFFFF00])] for b in bbmds]
                if rng.random() < 0.5:
                    rng.shuffle(l)
            elif mode == "partial":
                l = [b + [FULL] for b in bbmds if rng.random() < 0.6]
            elif mode == "onehop":
                l = [b + [FULL if (b == nd["addr"] or rng.random() < 0.4) else 0xFFFFFF00] for b in bbmds
                     if rng.random() < 0.85]
            else:
                l = [b + [FULL] for b in bbmds if rng.random() < 0.7]
                if simples and rng.random() < 0.5:
                    l.append(rng.choice(simples) + [FULL])
                if rng.random() < 0.3:
                    l.append([net_ip(9) + 7, PORT, FULL])
            nd["bdt"] = l
    # object identity (invisible to the model): in half of the layouts ONE pool of Address objects is shared
    # by all BBMDs' add_peer calls, the nodes' own addresses and the foreign devices' register() calls — what
    # an application does with `peers = [Address(...), ...]; for b in bbmds: for p in peers: b.add_peer(p)` —
    # in the other half every call gets a fresh object (what tests/test_bvll/helpers.py does)
    layout = {"op": "world", "nets": nets, "now": us(START), "tick": us(START + 1.0),
              "share": rng.random() < 0.5}
    # events
    everyone = bbmds + simples + fds
    events = []
    t_int = 0
    reg = {}            # fd -> current bbmd target (harness-side bookkeeping for sensible choices only)
    manual = []
    n_ev = rng.randrange(20, 41 if quick else 61)
    detached = set()
    seq = [1000]

    def leaving(ev, f, b):
        """directed follow-up of every unregistration (plain, same instant as register(), request in
        flight): optionally a second unregister() 200 us later, then — just after the 5 s grace — a
        Read-FDT over the wire at the BBMD concerned and a broadcast"""
        out = []
        if rng.random() < 0.3:
            out.append({"op": "unregister", "a": f, "t": ev["t"] + 200})
        alive = [a for a in bbmds + simples if tuple(a) not in detached]
        if alive and b in bbmds:
            out.append({"op": "sap", "a": rng.choice(alive), "to": b, "msg": ["rfdt"], "t": ev["t"] + 5000500})
        if alive:
            seq[0] += 1
            out.append({"op": "bcast", "a": rng.choice(alive), "data": "%04x" % seq[0] + "bb", "t": ev["t"] + 5000700})
        return out

    for k in range(n_ev):
        t_int += rng.choice([1, 1, 1, 2, 3, 4, 5, 6, 7, 11, 30, 31, 36, 64, 150, 306])
        frac = 0.001 * (k + 1) if rng.random() < 0.5 else 1.0 - 0.001 * (k + 1)
        t = START + t_int + frac
        r = rng.random()
        ev = None
        after = []
        if fds and (r < 0.22 or (k < len(fds) and r < 0.8)):
            f = fds[k % len(fds)] if k < len(fds) else rng.choice(fds)
            targets = bbmds if rng.random() < 0.9 else (simples + [[net_ip(9) + 9, PORT]])
            if targets and tuple(f) not in detached:
                b = rng.choice(targets)
                ttl = rng.choice([1, 2, 3, 5, 10, 30, 60, 120, 299, 300, rng.randrange(1, 301)])
                if rng.random() < 0.25:
                    # register() and unregister() in the same instant: back to back, or with the request
                    # already in flight (renewal task run, Result not yet back)
                    ev = {"op": "regunreg", "a": f, "bbmd": b, "ttl": ttl, "variant": rng.choice(["pair", "fly"])}
                    reg.pop(tuple(f), None)
                    ev["t"] = us(t)
                    after = leaving(ev, f, b)
                else:
                    ev = {"op": "register", "a": f, "bbmd": b, "ttl": ttl}
                    reg[tuple(f)] = b
        elif r < 0.28 and reg:
            f = list(rng.choice(sorted(reg)))
            ev = {"op": "unregister", "a": f, "t": us(t)}
            after = leaving(ev, f, reg[tuple(f)])
            del reg[tuple(f)]
        elif r < 0.36 and bbmds and everyone:
            x = rng.choice(fds + manual) if (fds + manual) and rng.random() < 0.85 else rng.choice(everyone)
            # (a BIPForeign takes ANY Result from its BBMD for a registration result — see notes)
            frm = rng.choice(bbmds + simples)
            ev = {"op": "sap", "a": frm, "to": rng.choice(bbmds), "msg": ["del"] + x}
        elif r < 0.44 and bbmds and everyone:
            frm = rng.choice(everyone)
            ev = {"op": "sap", "a": frm, "to": rng.choice(bbmds), "msg": ["rfdt"]}
        elif r < 0.50 and bbmds and simples and mode not in ("full", "mixed"):
            # a node registers by hand (never renewed): the table entry must run out on time
            s = rng.choice(simples)
            ev = {"op": "sap", "a": s, "to": rng.choice(bbmds), "msg": ["reg", rng.choice([1, 2, 5, 10, 30, 60])]}
            if s not in manual:
                manual.append(s)
        elif r < 0.53 and bbmds and mode not in ("full", "mixed") and len(detached) < 1:
            b = rng.choice(bbmds)
            ev = {"op": "detach", "a": b}
            detached.add(tuple(b))
        elif r < 0.58 and len(everyone) >= 2:
            a, b = rng.sample(everyone, 2)
            ev = {"op": "ucast", "a": a, "to": b, "data": "%04x" % k + "55"}
        if ev is None:
            if not everyone:
                continue
            ev = {"op": "bcast", "a": rng.choice(everyone), "data": "%04x" % k + "aa"}
        if ev.get("a") is not None and tuple(ev["a"]) in detached and ev["op"] != "detach":
            continue       # a detached node cannot act (vlan raises "unbound node")
        ev["t"] = us(t)
        events.append(ev)
        if after:
            events.extend(after)
            t_int += 6
    return {"stream": "world", "mode": mode, "layout": layout, "events": events}


# ---------------------------------------------------------------------------
# worlds: the real side


class RealWorld:
    def __init__(self, vt, layout):
        s, c, v, P = B().svc, B().comm, B().vlan, B().pdu
        vt.reset(START)
        self.vt = vt
        self.router = v.IPRouter()
        self.nodes = collections.OrderedDict()     # (ip,port) -> dict
        self.order = []
        self.share = bool(layout.get("share"))
        self.pool = {}                             # (ip, port, mask) -> the ONE Address object, when sharing
        if self.share:
            # the nodes' own Address objects first (they carry the subnet's broadcast tuple)
            for n in layout["nets"]:
                for nd in n["nodes"]:
                    a = nd["addr"]
                    x = P.Address("%s/%d:%d" % (ip_str(a[0]), n["prefix"], a[1]))
                    self.pool[(a[0], a[1], x.addrMask)] = x
        for n in layout["nets"]:
            net = v.IPNetwork("net%d" % n["id"])
            if n.get("router"):
                r = n["router"]
                self.router.add_network(P.Address("%s/%d:%d" % (ip_str(r[0]), n["prefix"], r[1])), net)
            for nd in n["nodes"]:
                a = nd["addr"]
                addr = P.Address("%s/%d:%d" % (ip_str(a[0]), n["prefix"], a[1]))
                if self.share:
                    addr = self.pool.setdefault((a[0], a[1], addr.addrMask), addr)
                if nd["kind"] == "simple":
                    bip = s.BIPSimple()
                elif nd["kind"] == "foreign":
                    bip = s.BIPForeign()
                else:
                    bip = s.BIPBBMD(addr)
                    for e in nd.get("bdt", []):
                        bip.add_peer(self.address(e[:2], e[2]))
                codec = s.AnnexJCodec()
                mux = B().Mux(addr, net, a)
                upper = B().Upper(a)
                ase = B().Ase(a)
                c.bind(upper, bip, codec, mux)
                c.bind(ase, bip)
                self.nodes[tuple(a)] = {"bip": bip, "mux": mux, "ase": ase, "net": net, "kind": nd["kind"]}
                self.order.append(tuple(a))

    def address(self, a, mask=FULL):
        """an Address for (ip, port) with that mask: the shared object of the pool, or a fresh one"""
        if not self.share:
            return mk_addr(a, mask)
        key = (a[0], a[1], mask)
        if key not in self.pool:
            self.pool[key] = mk_addr(a, mask)
        return self.pool[key]

    def flush(self, t):
        self.vt.run(until=t)
        for k, w in self.vt.errors:
            CAP.append(["err", None, k])
        del self.vt.errors[:]

    def apply(self, ev):
        P = B().pdu
        t = ev["t"] / 1e6
        del CAP[:]
        self.flush(t)                      # timers up to the instant of the event
        adv = [list(o) for o in CAP]
        del CAP[:]
        op = ev["op"]
        nd = self.nodes.get(tuple(ev["a"])) if "a" in ev else None
        try:
            if op == "bcast":
                nd["bip"].indication(P.PDU(bytes.fromhex(ev["data"]), destination=P.LocalBroadcast()))
            elif op == "ucast":
                nd["bip"].indication(P.PDU(bytes.fromhex(ev["data"]), destination=mk_addr(ev["to"])))
            elif op == "sap":
                nd["ase"].request(mk_bvll(ev["msg"], dst=mk_addr(ev["to"])))
            elif op == "register":
                nd["bip"].register(self.address(ev["bbmd"]), ev["ttl"])
            elif op == "regunreg":
                nd["bip"].register(self.address(ev["bbmd"]), ev["ttl"])
                if ev["variant"] == "fly":
                    # the real task manager runs the renewal task: the request is now in flight
                    task, _delta = self.vt.tm.get_next_task()
                    if task is not nd["bip"]:
                        raise core.Infra("expected the renewal task to be due first")
                    self.vt.tm.process_task(task)
                nd["bip"].unregister()
            elif op == "unregister":
                nd["bip"].unregister()
            elif op == "detach":
                nd["net"].remove_node(nd["mux"].node)
                self.order.remove(tuple(ev["a"]))
            else:
                raise core.Infra("bad world op " + op)
        except core.Infra:
            raise
        except Exception as e:
            CAP.append(["err", ev.get("a"), type(e).__name__])
        self.flush(t)
        return {"adv": adv, "obs": [list(o) for o in CAP], "digest": self.digest()}

    def digest(self):
        return [[list(a), digest(self.nodes[a]["bip"])] for a in self.order]


def model_requests(scn):
    reqs = [scn["layout"]]
    for ev in scn["events"]:
        reqs.append({"op": "advance", "t": ev["t"]})
        e = dict(ev)
        reqs.append(e)
    return reqs


def fold_model(scn, replies):
    """model replies (advance, op pairs) -> the per-event shape of RealWorld.apply"""
    out = []
    it = iter(replies[1:])
    for ev in scn["events"]:
        adv = core.strip_br(next(it)); r = core.strip_br(next(it))
        out.append({"adv": adv.get("obs"), "obs": r.get("obs"), "digest": r.get("digest"),
                    "quiet": bool(adv.get("quiet")) and bool(r.get("quiet"))})
    return out


def theorem_instances(ctx, scn, real, replies):
    """bbmd_multiplicity / bbmd_once applied: wherever the model evaluates the theorem's (decidable)
    hypotheses to true on the current world — WF, Pop, Mesh, Home of originator and target — the REAL
    observations must show the theorem's conclusion: [x != o] + echoes copies at every served node x
    (echoes = 0, i.e. exactly once and never at the originator, whenever NoEcho holds)"""
    n_inst = 0
    for i, (ev, a) in enumerate(zip(scn["events"], real)):
        if ev["op"] != "bcast":
            continue
        hyp = replies[2 + 2 * i].get("hyp")
        if not hyp or not hyp.get("ok"):
            continue
        homes = {(h[0], h[1]): h[2] for h in hyp["homes"]}
        o = tuple(ev["a"])
        if o not in homes:
            continue
        got = collections.Counter(tuple(u[1]) for u in a["obs"] if u[0] == "up")
        for x, want in homes.items():
            n_inst += 1
            if want != (0 if x == o else 1):
                ctx.count("theorem-instance-echo")
            if hyp.get("noecho") and want != (0 if x == o else 1):
                raise core.Infra("driver predicts %d copies under NoEcho" % want)
            if got[x] != want:
                ctx.fail("theorem-instance",
                         {"stream": "world", "mode": scn["mode"], "layout": scn["layout"], "events": scn["events"][:i + 1]},
                         "hypotheses of bbmd_multiplicity hold (evaluated in Lean, NoEcho=%r) but node %r got the "
                         "broadcast of %r %d times, theorem says %d" % (hyp.get("noecho"), x, o, got[x], want),
                         node=list(x), got=got[x], want=want)
        sig = "echo" if any(w > 1 for w in homes.values()) or homes.get(o, 0) > 0 else "once"
        ctx.count("theorem-instance", (scn["mode"], sig), n=0)
    if n_inst:
        ctx.count("theorem-instance", n=n_inst)


# ---------------------------------------------------------------------------
# worlds: the oracle (written from the property, independent of the model)


class Spec:
    """what the property says about a scenario, from the layout and the events alone"""

    def __init__(self, scn):
        self.kind, self.net, self.bdt, self.bcast_of = {}, {}, {}, {}
        self.members = collections.defaultdict(list)
        for n in scn["layout"]["nets"]:
            self.bcast_of[tuple(n["bcast"])] = n["id"]
            for nd in n["nodes"]:
                a = tuple(nd["addr"])
                self.kind[a] = nd["kind"]; self.net[a] = n["id"]
                self.members[n["id"]].append(a)
                if nd["kind"] == "bbmd":
                    self.bdt[a] = [(tuple(e[:2]), e[2]) for e in nd["bdt"]]
        self.detached = set()
        self.unreg = {}      # fd -> (instant of the application's unregister(), BBMD it addressed)
        self.reg = {}        # fd -> dict(bbmd, ttl, t0)   current registration of a real foreign device
        self.arrivals = collections.defaultdict(list)   # (bbmd, addr) -> [(t, "reg", ttl) | (t, "del")]
        self.mode = scn["mode"]
        self.canonical = self._canonical()

    def _canonical(self):
        """the hypotheses of bbmd_once on the static layout (registrations are judged per event)"""
        bb = sorted(self.bdt)
        for a, k in self.kind.items():
            if k != "foreign" and not any(self.net[b] == self.net[a] for b in bb):
                return False
        for b in bb:
            if sorted(e for e, _m in self.bdt[b]) != bb or any(m != FULL for _e, m in self.bdt[b]):
                return False
        return True

    def alive(self, a):
        return a in self.kind and a not in self.detached

    def is_bbmd(self, a):
        return self.alive(a) and self.kind[a] == "bbmd"

    # ---- registrations as the events tell them
    def renewals(self, f, upto):
        """the LAST Register arrival caused by foreign device f's current registration up to `upto` (us)
        (earlier ones are overwritten by it), as a list of at most one instant"""
        r = self.reg.get(f)
        if not r or upto < r["t0"]:
            return []
        p = r["ttl"] * 1000000
        return [r["t0"] + ((upto - r["t0"]) // p) * p]

    def close_registration(self, f, t):
        """f's current registration stops producing renewals at t: materialise the ones so far"""
        r = self.reg.pop(f, None)
        if r:
            self.reg[f] = r
            for x in self.renewals(f, t):
                self.arrivals[(r["bbmd"], f)].append((x, "reg", r["ttl"]))
            del self.reg[f]

    def entry(self, b, x, t):
        """(present?, lastRegisterTime, ttl) of address x in BBMD b's table at time t, by the tick arithmetic"""
        evs = list(self.arrivals.get((b, x), []))
        r = self.reg.get(x)
        if r and r["bbmd"] == b:
            evs += [(y, "reg", r["ttl"]) for y in self.renewals(x, t)]
        evs = sorted(e for e in evs if e[0] <= t)
        last = None
        for e in evs:
            if e[1] == "reg":
                # the entry may already have run out before this arrival; either way it is (re)created
                last = e
            elif e[1] == "del":
                last = None
        if last is None:
            return (False, None, None)
        k = last[0] // 1000000
        return ((t // 1000000) < k + last[2] + 5, last[0], last[2])

    def accepts(self, f, b):
        """foreign device f hands up what BBMD b forwards to it"""
        r = self.reg.get(f)
        return bool(r) and r["bbmd"] == b and self.is_bbmd(b) and r.get("acked", False)

    def note(self, ev):
        """update the history AFTER the event was judged"""
        t = ev["t"]
        op = ev["op"]
        if op == "register":
            f, b = tuple(ev["a"]), tuple(ev["bbmd"])
            self.close_registration(f, t - 1)
            self.unreg.pop(f, None)
            self.reg[f] = {"bbmd": b, "ttl": ev["ttl"], "t0": t, "t00": t, "acked": self.is_bbmd(b)}
        elif op == "regunreg":
            # register() immediately followed by unregister(): whatever was in flight, the last thing the
            # BBMD hears from the device is TTL 0, and the device has left
            f, b = tuple(ev["a"]), tuple(ev["bbmd"])
            self.close_registration(f, t - 1)
            self.arrivals[(b, f)].append((t, "reg", 0))
            self.unreg[f] = (t, b)
        elif op == "unregister":
            f = tuple(ev["a"])
            r = self.reg.get(f)
            self.close_registration(f, t - 1)
            if r:
                self.arrivals[(r["bbmd"], f)].append((t, "reg", 0))
                self.unreg[f] = (t, r["bbmd"])
        elif op == "sap" and ev["msg"][0] == "reg":
            self.canonical = False       # an ordinary node posing as a foreign device: outside bbmd_once
            self.arrivals[(tuple(ev["to"]), tuple(ev["a"]))].append((t, "reg", ev["msg"][1]))
        elif op == "sap" and ev["msg"][0] == "del":
            b, x = tuple(ev["to"]), tuple(ev["msg"][1:3])
            # a deletion also ends the effect of earlier renewals of a live registration
            r = self.reg.get(x)
            if r and r["bbmd"] == b:
                for y in self.renewals(x, t):
                    self.arrivals[(b, x)].append((y, "reg", r["ttl"]))
                r["t0"] = self._next_renewal(r, t)
            self.arrivals[(b, x)].append((t, "del"))
        elif op == "detach":
            self.detached.add(tuple(ev["a"]))

    @staticmethod
    def _next_renewal(r, t):
        p = r["ttl"] * 1000000
        if t < r["t0"]:
            return r["t0"]
        return r["t0"] + ((t - r["t0"]) // p + 1) * p

    # ---- who must hear a broadcast (with multiplicity)
    def fdt_now(self, b, t):
        xs = set(x for (bb, x) in self.arrivals if bb == b) | set(f for f, r in self.reg.items() if r["bbmd"] == b)
        return sorted(x for x in xs if self.entry(b, x, t)[0])

    def expected(self, o, t):
        """receiver multiset of a broadcast from o at time t by the characterisation;
        None for a node = outside the theorem's hypotheses (not judged)"""
        cnt = collections.Counter()
        skip = set()

        def on_net(i):
            return [y for y in self.members[i] if self.alive(y)]

        def fdt_copy(b, exclude=None):
            for x in self.fdt_now(b, t):
                if x == exclude or not self.alive(x):
                    continue
                k = self.kind[x]
                if k == "foreign":
                    if self.accepts(x, b):
                        cnt[x] += 1
                elif k == "simple":
                    cnt[x] += 1
                else:
                    skip.add("bbmd-in-fdt")

        def local_fwd(b):
            for y in on_net(self.net[b]):
                if y == b:
                    continue
                if self.kind[y] == "simple":
                    cnt[y] += 1
                elif self.kind[y] == "foreign":
                    if self.accepts(y, b):
                        cnt[y] += 1
                else:
                    skip.add("two-bbmds")

        def arrive_unicast(b_from, x):
            if not self.alive(x):
                return
            k = self.kind[x]
            if k == "bbmd":
                cnt[x] += 1
                if any(e == x for e, _m in self.bdt[x]):
                    local_fwd(x)
                fdt_copy(x)
            elif k == "simple":
                cnt[x] += 1
            elif self.accepts(x, b_from):
                cnt[x] += 1

        def peers(b, include_self):
            for e, m in self.bdt[b]:
                if e == b:
                    if include_self:
                        local_fwd(b)
                    continue
                tgt = ((e[0] | (FULL - m)) & FULL, e[1])
                if tgt in self.bcast_of:
                    for y in on_net(self.bcast_of[tgt]):
                        if y == b:
                            continue
                        k = self.kind[y]
                        if k == "simple":
                            cnt[y] += 1
                        elif k == "bbmd":
                            cnt[y] += 1
                            fdt_copy(y)
                        elif self.accepts(y, b):
                            cnt[y] += 1
                else:
                    arrive_unicast(b, tgt)

        if not self.alive(o):
            return cnt, skip
        k = self.kind[o]
        if k == "foreign":
            r = self.reg.get(o)
            if not (r and r.get("acked") and self.is_bbmd(r["bbmd"])):
                return cnt, skip
            b = r["bbmd"]
            cnt[b] += 1
            peers(b, include_self=True)
            fdt_copy(b, exclude=o)
            return cnt, skip
        for y in on_net(self.net[o]):
            if y != o and self.kind[y] != "foreign":
                cnt[y] += 1
        for b in on_net(self.net[o]):
            if self.kind[b] == "bbmd":
                peers(b, include_self=False)
                fdt_copy(b)
        return cnt, skip


def world_oracle(ctx, scn, real):
    """judge the real side's observations against the property"""
    sp = Spec(scn)
    events = scn["events"]
    for i, (ev, r) in enumerate(zip(events, real)):
        case = {"stream": "world", "mode": scn["mode"], "layout": scn["layout"], "events": events[:i + 1]}
        t = ev["t"]
        for o in r["adv"] + r["obs"]:
            if o[0] == "err":
                if ev["op"] == "unregister" and tuple(ev["a"]) not in sp.reg and o[2] in ("RuntimeError", "AttributeError"):
                    continue    # unregister() of a device that is not registered: the call itself raises (notes)
                ctx.fail("unexpected-exception", case, "exception %s at node %r" % (o[2], o[1]))
        if r["adv"]:
            ctx.fail("spontaneous", case, "PDUs handed upward while only time passed: %r" % (r["adv"][:3],))
        ups = [o for o in r["obs"] if o[0] == "up"]
        if ev["op"] == "bcast":
            o_addr = tuple(ev["a"])
            got = collections.Counter()
            for u in ups:
                got[tuple(u[1])] += 1
                if u[2] != list(o_addr):
                    ctx.fail("wrong-source", case, "node %r was told source %r, originator is %r" % (u[1], u[2], o_addr))
                if u[3] != ["b"]:
                    ctx.fail("wrong-destination", case, "broadcast handed up with destination %r" % (u[3],))
                if u[4] != ev["data"]:
                    ctx.fail("wrong-payload", case, "payload changed: %r" % (u[4],))
            want, skip = sp.expected(o_addr, t)
            # (an originator hears itself only where the tables send its own broadcast back at it: a
            #  foreign device inside a subnet its BBMD broadcasts to, a BDT entry naming an ordinary
            #  node — both outside the hypotheses of bbmd_once; the characterisation predicts them)
            for f, (u, _b) in sp.unreg.items():
                if got[f]:
                    ctx.fail("served-after-unregister", case,
                             "foreign device %r called unregister() at t=%d and is still handed broadcasts at t=%d" % (f, u, t),
                             node=list(f), unregistered_at=u)
            if got[o_addr] and not want[o_addr] and not skip:
                ctx.fail("echo", case, "broadcast handed back to its originator %r (%d times)" % (o_addr, got[o_addr]))
            # nodes outside the hypotheses: a foreign device on the subnet of its own BBMD
            unjudged = set()
            for f, rr in sp.reg.items():
                if sp.alive(f) and rr["bbmd"] in sp.net and sp.net[rr["bbmd"]] == sp.net[f]:
                    unjudged.add(f)
            if not skip:
                for a in sp.kind:
                    if a in unjudged or not sp.alive(a):
                        continue
                    if got[a] != want[a]:
                        ctx.fail("delivery-count", case,
                                 "broadcast from %r at t=%d: node %r (%s) got it %d times, the tables say %d" % (
                                     o_addr, t, a, sp.kind[a], got[a], want[a]),
                                 node=list(a), got=got[a], want=want[a], mode=scn["mode"])
            # the headline on canonical layouts: every other served node exactly once
            if sp.canonical and not sp.detached and not skip:
                origin_ok = sp.kind[o_addr] != "foreign" or (
                    sp.reg.get(o_addr, {}).get("acked") and sp.is_bbmd(sp.reg[o_addr]["bbmd"]))
                if origin_ok and o_addr not in unjudged and got[o_addr]:
                    ctx.fail("echo", case, "full-mesh layout: broadcast handed back to its originator %r" % (o_addr,))
                for a, k in sp.kind.items():
                    if a == o_addr or a in unjudged or not origin_ok:
                        continue
                    served = True
                    if k == "foreign":
                        rr = sp.reg.get(a)
                        served = bool(rr) and rr.get("acked") and sp.entry(rr["bbmd"], a, t)[0]
                        if rr and rr.get("acked") and not sp.entry(rr["bbmd"], a, t)[0]:
                            continue        # deleted by hand, not yet renewed: "stops at once" judged above
                    if served and got[a] != 1:
                        ctx.fail("not-exactly-once", case,
                                 "full-mesh layout: node %r (%s) got the broadcast of %r %d times" % (a, k, o_addr, got[a]),
                                 node=list(a), got=got[a])
                    if not served and got[a] != 0:
                        ctx.fail("served-unregistered", case,
                                 "foreign device %r is not registered but got the broadcast" % (a,))
        elif ev["op"] == "ucast":
            if [u for u in ups if tuple(u[1]) != tuple(ev["to"])]:
                ctx.fail("unicast-leak", case, "unicast handed up at %r" % ([u[1] for u in ups],))
        elif ups:
            ctx.fail("spontaneous", case, "management traffic handed to a network layer: %r" % (ups[:2],))
        # the history moves on, then the tables are judged at this instant
        sp.note(ev)
        tables = {tuple(a): d for a, d in r["digest"] if d[0] == "bbmd"}
        for b, d in tables.items():
            listed = [tuple(e[:2]) for e in d[3]]
            if len(listed) != len(set(listed)):
                ctx.fail("fdt-duplicate", case, "BBMD %r lists an address twice: %r" % (b, d[3]))
            want = sp.fdt_now(b, t)
            if sorted(listed) != want:
                ctx.fail("fdt-presence", case,
                         "BBMD %r at t=%d lists %r; registrations and the TTL+5 rule say %r" % (b, t, sorted(listed), want),
                         bbmd=list(b), listed=[list(x) for x in sorted(listed)], want=[list(x) for x in want])
            for e in d[3]:
                pres, last, ttl = sp.entry(b, tuple(e[:2]), t)
                if pres and (e[2] != ttl or e[3] != (last // 1000000) + ttl + 5 - (t // 1000000)):
                    ctx.fail("fdt-remaining", case, "BBMD %r entry %r: expected ttl %r remaining %r" % (
                        b, e, ttl, (last // 1000000) + ttl + 5 - (t // 1000000)))
        # the unregistration clause, from the application's call alone (no model, no table inspection):
        # the device never registers again by itself ...
        for a, d in r["digest"]:
            if d[0] == "foreign" and tuple(a) in sp.unreg:
                u = sp.unreg[tuple(a)][0]
                if d[1] == 0 or d[4] is not None:
                    ctx.fail("unregister-ignored", case,
                             "foreign device %r called unregister() at t=%d; at t=%d its status is %r and a renewal is "
                             "armed for %r — it (re-)registers by itself" % (a, u, t, d[1], d[4]),
                             node=list(a), unregistered_at=u)
        if ev["op"] == "sap" and ev["msg"][0] == "rfdt" and sp.is_bbmd(tuple(ev["to"])) and sp.alive(tuple(ev["a"])):
            acks = [o for o in r["obs"] if o[0] == "sap" and o[3][0] == "rfdtack"]
            # ... and 5 s after the call the BBMD it left no longer lists it (Read-FDT over the wire)
            for f, (u, b) in sp.unreg.items():
                if b == tuple(ev["to"]) and t >= u + 5000000:
                    for ack in acks:
                        if list(f) in [e[:2] for e in ack[3][1]]:
                            ctx.fail("unregistered-still-listed", case,
                                     "foreign device %r called unregister() at t=%d; Read-FDT at t=%d still lists it: %r" % (
                                         f, u, t, ack[3][1]), node=list(f), unregistered_at=u)
            tbl = tables.get(tuple(ev["to"]))
            if len(acks) != 1 or tbl is None or acks[0][3][1] != tbl[3] or acks[0][1] != ev["a"]:
                ctx.fail("read-fdt", case, "Read-FDT answered %r, table is %r" % (acks, tbl and tbl[3]))
        # every live registration has its renewal armed before the BBMD would drop it
        for a, d in r["digest"]:
            if d[0] == "foreign":
                rr = sp.reg.get(tuple(a))
                if rr and d[4] is None:
                    ctx.fail("renewal-not-armed", case, "foreign device %r is registered but has no renewal armed" % (a,))
                if rr and d[4] is not None and rr.get("acked"):
                    pres, last, ttl = sp.entry(rr["bbmd"], tuple(a), t)
                    if pres and not (d[4] // 1000000 < last // 1000000 + ttl + 5):
                        ctx.fail("renewal-late", case, "foreign device %r renews at %d, entry of %d runs out first" % (a, d[4], last))
                if rr and rr.get("acked") and sp.is_bbmd(rr["bbmd"]) and d[1] == 0:
                    p_us = rr["ttl"] * 1000000
                    last_ack = rr["t00"] + ((t - rr["t00"]) // p_us) * p_us
                    if d[5] != last_ack + (rr["ttl"] + 30) * 1000000:
                        ctx.fail("expiry-tracking", case, "foreign device %r: last acknowledgement at %d, TTL %d, "
                                 "registration tracked until %r (expected TTL + 30 s)" % (a, last_ack, rr["ttl"], d[5]))
                if rr and rr.get("acked") and d[1] != 0 and sp.is_bbmd(rr["bbmd"]):
                    ctx.fail("registration-lost", case, "foreign device %r lost its registration status (%r)" % (a, d[1]))


def sig_world(case, m):
    return (case.get("op"), case.get("msg", [""])[0] if "msg" in case else "", m.get("br", ""))


def run_world(ctx, vt, scn, drv):
    real_w = RealWorld(vt, scn["layout"])
    real = [real_w.apply(ev) for ev in scn["events"]]
    world_oracle(ctx, scn, real)
    if drv:
        reqs = model_requests(scn)
        b = drv.ask(reqs)
        model = fold_model(scn, b)
        theorem_instances(ctx, scn, real, b)
        # compare per event; signature from the model's branch tags
        for i, (ev, a, m) in enumerate(zip(scn["events"], real, model)):
            br = b[2 + 2 * i].get("br", "")
            ctx.count("world", (ev["op"], ev.get("msg", [""])[0] if "msg" in ev else "", br, scn["mode"]))
            a2 = dict(a); a2["quiet"] = True
            if core.canon(a2) != core.canon(m):
                ctx.disagree("world", {"stream": "world", "mode": scn["mode"], "layout": scn["layout"],
                                       "events": scn["events"][:i + 1]}, a2, m)
                break
        ctx.streams["world"] += len(scn["events"])
    else:
        for ev in scn["events"]:
            ctx.count("world")


# ---------------------------------------------------------------------------
# run / shards / search / replay


def get_vt():
    core.bind_repo()
    B()
    return VT.install(START)


def shard(ctx, spec):
    kind, label, n = spec
    vt = get_vt()
    rng = ctx.sub_rng("c13/%s/%s" % (kind, label))
    drv = core.Driver("drv_c13") if ctx.model_ok else None
    if kind == "world":
        for k in range(n):
            scn = gen_world(rng, ctx.quick)
            run_world(ctx, vt, scn, drv)
            if k < 2:
                ctx.sample({"stream": "world", "mode": scn["mode"], "nets": len(scn["layout"]["nets"]),
                            "events": scn["events"][:3]})
    else:
        run_components(ctx, vt, rng, kind, n, 60, drv)


def corpus_cases():
    import os, glob
    out = []
    for p in sorted(glob.glob(os.path.join(core.VERIF, "corpus", "C13", "*.json"))):
        out.append((os.path.basename(p), json.load(open(p))))
    return out


def run_case(ctx, vt, case, drv):
    """re-run a recorded scenario (corpus / replay)"""
    if case.get("stream") == "world":
        run_world(ctx, vt, case, drv)
        return
    kind = case["stream"]
    cfg, events = case["cfg"], case["events"]
    real = RealComp(vt, cfg)
    replies = [real.apply(ev) for ev in events]
    comp_oracle(ctx, kind, cfg, events, replies)
    if drv:
        b = drv.ask([cfg] + events)
        compare_seq(ctx, kind, cfg, events, replies, b[1:])


def run(ctx):
    vt = get_vt()
    drv = core.Driver("drv_c13") if ctx.model_ok else None
    for name, case in corpus_cases():
        run_case(ctx, vt, case, drv)
    if ctx.quick:
        specs = [("simple", "q", 6), ("bbmd", "q0", 25), ("bbmd", "q1", 25), ("foreign", "q0", 25),
                 ("foreign", "q1", 25)] + [("world", "q%d" % i, 14) for i in range(11)]
    else:
        specs = [("simple", "t", 60)] + [("bbmd", "t%d" % i, 120) for i in range(5)] + \
                [("foreign", "t%d" % i, 120) for i in range(5)] + [("world", "t%d" % i, 120) for i in range(32)]
    core.run_shards(ctx, "harness.c13", "shard", specs)


def search(ctx):
    """focused failing-input search: more worlds of the modes the disagreements came from, and long
    component runs of the disagreeing kinds"""
    vt = get_vt()
    kinds = set(d["stream"] for d in ctx.disagreements) or {"world", "bbmd", "foreign", "simple"}
    specs = []
    for k in sorted(kinds):
        if k == "world":
            specs += [("world", "s%d" % i, 60) for i in range(16)]
        elif k in ("simple", "bbmd", "foreign"):
            specs += [(k, "s%d" % i, 60) for i in range(4)]
    sub = core.Ctx(ctx.prop, ctx.tier, ctx.seed)
    sub.model_ok = False          # oracle only
    core.run_shards(sub, "harness.c13", "shard", specs)
    ctx.failures.extend(sub.failures)


def replay(ctx, payload):
    rec = payload.get("failure") or (payload.get("correspondence_disagreements") or [{}])[0]
    case = rec.get("case")
    if not case:
        raise core.Infra("nothing to replay")
    vt = get_vt()
    drv = core.Driver("drv_c13") if ctx.model_ok else None
    run_case(ctx, vt, case, drv)
