"""
harness.e2e — complete bacpypes application stacks on a fault-injecting VLAN
under virtual time (implementation side only; used by the end-to-end oracles
of C04/C05/C10/C11/C12).

    net = E2ENet(policy=...)                       # FaultNet + virtual clock
    a = net.add_stack(10, max_apdu=206, seg='segmentedBoth', max_segs=4, ...)
    b = net.add_stack(20, ...)
    a.know(b)                                      # warm device-info cache (as an I-Am would)
    a.send_cpt(b, payload=bytes)                   # ConfirmedPrivateTransfer carrying `payload`
    net.run()                                      # real core.run in virtual time
    a.confirmations  -> [(t, kind, invoke, payload|reason)]
    b.indications    -> [(t, invoke, payload)]

Every stack is Application(+IOController) / ASAP / SMAP / NSAP+NSE / vlan.Node —
the repository's own classes, wired as the repository's tests wire them.
"""
from . import vt as _vt


def build_classes():
    import logging
    logging.getLogger("bacpypes").addHandler(logging.NullHandler())
    logging.getLogger("bacpypes").propagate = False
    from bacpypes.comm import bind
    from bacpypes.pdu import Address, LocalBroadcast
    from bacpypes.vlan import Node
    from bacpypes.primitivedata import OctetString
    from bacpypes.constructeddata import Any
    from bacpypes.apdu import (ConfirmedPrivateTransferRequest, ConfirmedPrivateTransferACK,
                               SimpleAckPDU, ComplexAckPDU, ErrorPDU, RejectPDU, AbortPDU,
                               Error, ConfirmedRequestPDU)
    from bacpypes.app import Application, ApplicationIOController
    from bacpypes.appservice import StateMachineAccessPoint, ApplicationServiceAccessPoint
    from bacpypes.netservice import NetworkServiceAccessPoint, NetworkServiceElement
    from bacpypes.local.device import LocalDeviceObject
    from bacpypes.iocb import IOCB

    class Stack:
        def __init__(self, net, devid, max_apdu=1024, seg='segmentedBoth', max_segs=16,
                     window=None, retries=None, apdu_timeout=None, seg_timeout=None,
                     app_timeout=None, use_iocb=False, net_number=None, spell="plain", lan=None, peer_net=None):
            self.net = net
            self.devid = devid
            self.net_number = net_number     # the network layer is told the number of its (only) network
            self.spell = spell               # how THIS stack writes its peers' addresses (see dest())
            self.peer_net = peer_net         # spell "routed": the peers live on that network, behind a router
            self.address = Address(devid)
            self.device = LocalDeviceObject(
                objectName="dev%d" % devid, objectIdentifier=("device", devid),
                maxApduLengthAccepted=max_apdu, segmentationSupported=seg,
                vendorIdentifier=999, **({"maxSegmentsAccepted": max_segs} if max_segs is not None else {}))
            if retries is not None:
                self.device.numberOfApduRetries = retries
            if apdu_timeout is not None:
                self.device.apduTimeout = apdu_timeout
            if seg_timeout is not None:
                self.device.apduSegmentTimeout = seg_timeout
            outer = self
            base = ApplicationIOController if use_iocb else Application

            class App(base):
                def indication(self, apdu):
                    outer._indication(apdu)
                    super(App, self).indication(apdu)

                def confirmation(self, apdu):
                    outer._confirmation(apdu)
                    if use_iocb:
                        super(App, self).confirmation(apdu)

                def do_ConfirmedPrivateTransferRequest(self, apdu):
                    outer._serve(apdu)

            self.app = App(self.device)
            self.asap = ApplicationServiceAccessPoint()
            self.smap = StateMachineAccessPoint(self.device)
            self.smap.deviceInfoCache = self.app.deviceInfoCache
            if window is not None:
                self.smap.proposedWindowSize = window
            if app_timeout is not None:
                self.smap.applicationTimeout = app_timeout
            self.nsap = NetworkServiceAccessPoint()
            self.nse = NetworkServiceElement()
            bind(self.nse, self.nsap)
            bind(self.app, self.asap, self.smap, self.nsap)
            self.node = Node(self.address, lan if lan is not None else net.lan)
            if net_number is None:
                self.nsap.bind(self.node)
            else:
                self.nsap.bind(self.node, net_number, self.address)
            self.confirmations = []
            self.indications = []
            self.iocb_events = []
            self._held = []
            self.slow_delay = 0.4
            self.response_payload = b""      # what the server answers with
            self.server_mode = "ack"         # ack | simple | error | silent | reject | abort
            self.raised = []

        # ---- recording -------------------------------------------------
        def _payload_of(self, apdu, attr):
            v = getattr(apdu, attr, None)
            if v is None:
                return None
            try:
                return bytes(v.cast_out(OctetString))
            except Exception as e:
                return ("undecodable:%s" % type(e).__name__).encode()

        def _indication(self, apdu):
            self.indications.append((self.net.vt.now, apdu.apduInvokeID,
                                     self._payload_of(apdu, "serviceParameters"), str(apdu.pduSource)))

        def _confirmation(self, apdu):
            if isinstance(apdu, ComplexAckPDU):
                rec = ("ack", apdu.apduInvokeID, self._payload_of(apdu, "resultBlock"))
            elif isinstance(apdu, SimpleAckPDU):
                rec = ("simple", apdu.apduInvokeID, None)
            elif isinstance(apdu, ErrorPDU):
                rec = ("error", apdu.apduInvokeID, None)
            elif isinstance(apdu, RejectPDU):
                rec = ("reject", apdu.apduInvokeID, apdu.apduAbortRejectReason)
            elif isinstance(apdu, AbortPDU):
                rec = ("abort", apdu.apduInvokeID, apdu.apduAbortRejectReason)
            else:
                rec = ("other:" + type(apdu).__name__, getattr(apdu, "apduInvokeID", None), None)
            self.confirmations.append((self.net.vt.now,) + rec + (str(apdu.pduSource),))

        def _serve(self, apdu):
            mode = self.server_mode
            if mode == "silent":
                return
            if mode == "slow-echo":
                # the application holds the request and answers later (the answers of one batch go out in
                # REVERSE order of arrival), building each answer from the request object it was handed
                from bacpypes.task import FunctionTask
                self._held.append(apdu)
                if len(self._held) == 1:
                    def answer_all():
                        held, self._held[:] = list(self._held), []
                        for req in reversed(held):
                            r = self._payload_of(req, "serviceParameters") or b""
                            y = ConfirmedPrivateTransferACK(context=req)
                            y.vendorID = 999
                            y.serviceNumber = 1
                            y.resultBlock = Any(OctetString(bytes(reversed(r))))
                            self.app.response(y)
                    FunctionTask(answer_all).install_task(delta=self.slow_delay)
                return
            if mode == "echo":
                # the answer is a function of the request: crossed replies become visible
                req = self._payload_of(apdu, "serviceParameters") or b""
                x = ConfirmedPrivateTransferACK(context=apdu)
                x.vendorID = 999
                x.serviceNumber = 1
                x.resultBlock = Any(OctetString(bytes(reversed(req))))
            elif mode == "ack":
                x = ConfirmedPrivateTransferACK(context=apdu)
                x.vendorID = 999
                x.serviceNumber = 1
                x.resultBlock = Any(OctetString(self.response_payload))
            elif mode == "simple":
                x = SimpleAckPDU(context=apdu)
            elif mode == "error":
                x = Error(errorClass='device', errorCode='operationalProblem', context=apdu)
            elif mode == "reject":
                x = RejectPDU(reason=9, context=apdu)
            elif mode == "abort":
                x = AbortPDU(reason=0, context=apdu)
                x.apduSrv = 1
            self.app.response(x)

        # ---- driving ---------------------------------------------------
        def know(self, other, npdu_len=None):
            """teach this stack about `other` the way an application does on an
            I-Am: DeviceInfoCache.iam_device_info(IAmRequest).  Returns the record
            (None on a tree whose cache does not store new records)."""
            from bacpypes.apdu import IAmRequest, APDU as _APDU, UnconfirmedRequestPDU as _URP
            from bacpypes.pdu import PDU as _PDU
            # the I-Am as OCTETS, encoded here from the standard's numbers (clause 21:
            # segmented-both 0, segmented-transmit 1, segmented-receive 2, no-segmentation 3)
            # and decoded by the library: what a real peer's announcement goes through
            seg = {"segmentedBoth": 0, "segmentedTransmit": 1, "segmentedReceive": 2,
                   "noSegmentation": 3}[other.device.segmentationSupported]
            def _uns(tagno, v):
                n = max(1, (int(v).bit_length() + 7) // 8)
                return bytes([(tagno << 4) | n]) + int(v).to_bytes(n, "big")
            raw = (bytes([0x10, 0x00, 0xC4]) + ((8 << 22) | other.devid).to_bytes(4, "big")
                   + _uns(2, other.device.maxApduLengthAccepted) + bytes([0x91, seg]) + _uns(2, 999))
            x = _APDU()
            x.decode(_PDU(raw, source=other.address, destination=self.address))
            iam = IAmRequest()
            iam.decode(x)
            self.app.deviceInfoCache.iam_device_info(iam)
            info = self.app.deviceInfoCache.get_device_info(other.address)
            if info is not None:
                # not carried by an I-Am; an application that read the property would set it
                if getattr(other.device, "maxSegmentsAccepted", None) is not None:
                    info.maxSegmentsAccepted = other.device.maxSegmentsAccepted
                if npdu_len is not None:
                    info.maxNpduLength = npdu_len
            return info

        def dest(self, other):
            """the peer's address the way this application writes it: the plain station, or — when the
            network layer knows its network number — the same station WITH that number ("1:20" on
            network 1), a fresh object per request or one object reused for all of them"""
            if self.spell == "routed":
                if not hasattr(self, "_dests"):
                    self._dests = {}
                if other.devid not in self._dests:
                    self._dests[other.devid] = Address("%d:%d" % (self.peer_net, other.devid))
                return self._dests[other.devid]
            if self.spell == "plain" or self.net_number is None:
                return other.address
            if self.spell == "net-fresh":
                return Address("%d:%d" % (self.net_number, other.devid))
            if not hasattr(self, "_dests"):
                self._dests = {}
            if other.devid not in self._dests:
                self._dests[other.devid] = Address("%d:%d" % (self.net_number, other.devid))
            return self._dests[other.devid]

        def make_cpt(self, other, payload, invoke=None):
            req = ConfirmedPrivateTransferRequest(
                vendorID=999, serviceNumber=1,
                serviceParameters=Any(OctetString(payload)) if payload is not None else None,
                destination=self.dest(other))
            if invoke is not None:
                req.apduInvokeID = invoke
            return req

        def send_cpt(self, other, payload, invoke=None):
            req = self.make_cpt(other, payload, invoke)
            try:
                if isinstance(self.app, ApplicationIOController):
                    iocb = IOCB(req)
                    idx = len(self.iocb_events)
                    self.iocb_events.append({"callbacks": 0, "iocb": iocb})
                    iocb.add_callback(lambda i, idx=idx: self._iocb_done(idx, i))
                    self.app.request_io(iocb)
                    return iocb
                self.app.request(req)
            except Exception as e:
                self.raised.append((type(e).__name__, str(e)))
            return req

        def send_unconfirmed(self, other):
            """a unicast Who-Is through the same interface the confirmed requests use"""
            from bacpypes.apdu import WhoIsRequest
            req = WhoIsRequest(destination=self.dest(other))
            try:
                if isinstance(self.app, ApplicationIOController):
                    self.app.request_io(IOCB(req))
                else:
                    self.app.request(req)
            except Exception as e:
                self.raised.append((type(e).__name__, str(e)))

        def _iocb_done(self, idx, iocb):
            ev = self.iocb_events[idx]
            ev["callbacks"] += 1
            ev["t"] = self.net.vt.now
            ev["state"] = iocb.ioState
            ev["ok"] = iocb.ioResponse is not None
            ev["err"] = iocb.ioError is not None
            ev["request"] = self._payload_of(iocb.args[0], "serviceParameters")
            ev["response"] = self._payload_of(iocb.ioResponse, "resultBlock") if iocb.ioResponse is not None else None

        def residue(self):
            """what the stack still holds for transactions"""
            r = {"client": len(self.smap.clientTransactions), "server": len(self.smap.serverTransactions)}
            if isinstance(self.app, ApplicationIOController):
                r["queues"] = len(self.app.queue_by_address)
            return r

    return Stack


class E2ENet:
    def __init__(self, policy=None):
        from bacpypes.pdu import LocalBroadcast
        self.vt = _vt.VT.install()
        self.vt.reset()
        FaultNet = _vt.make_faultnet()
        self.lan = FaultNet(broadcast_address=LocalBroadcast(), policy=policy)
        self.Stack = build_classes()
        self.stacks = []

    def add_stack(self, devid, **kw):
        s = self.Stack(self, devid, **kw)
        self.stacks.append(s)
        return s

    def add_router(self, net_a=1, net_b=2, mac=1):
        """a second LAN joined to the first by a real router (NSAP + NSE, no application)"""
        from bacpypes.pdu import Address, LocalBroadcast
        from bacpypes.comm import bind
        from bacpypes.vlan import Node
        from bacpypes.netservice import NetworkServiceAccessPoint, NetworkServiceElement
        FaultNet = _vt.make_faultnet()
        self.lan2 = FaultNet(broadcast_address=LocalBroadcast())
        self.rnsap = NetworkServiceAccessPoint()
        self.rnse = NetworkServiceElement()
        bind(self.rnse, self.rnsap)
        self.rnodes = (Node(Address(mac), self.lan), Node(Address(mac), self.lan2))
        self.rnsap.bind(self.rnodes[0], net_a)
        self.rnsap.bind(self.rnodes[1], net_b)
        return self.lan2

    def run(self, until=None, max_loops=200000):
        return self.vt.run(until=until, max_loops=max_loops)

    def frames(self):
        """decoded (index, src, dst, npdu-stripped apdu bytes, action) of every frame seen"""
        return self.lan.log


def decode_apdu_header(frame):
    """independent minimal decoder: NPCI (no routing info expected on a single LAN) + APCI"""
    b = frame
    if len(b) < 2 or b[0] != 1:
        return None
    ctl = b[1]
    i = 2
    if ctl & 0x20:
        dlen = b[i + 2]; i += 3 + dlen
    if ctl & 0x08:
        slen = b[i + 2]; i += 3 + slen
    if ctl & 0x20:
        i += 1
    if ctl & 0x80:
        return {"net_msg": b[i]}
    a = b[i:]
    if not a:
        return None
    t = a[0] >> 4
    h = {"type": t, "len": len(a)}
    if t == 0:
        h.update(seg=bool(a[0] & 8), mor=bool(a[0] & 4), sa=bool(a[0] & 2),
                 maxsegs=(a[1] >> 4) & 7, maxresp=a[1] & 15, invoke=a[2])
        if h["seg"]:
            h.update(seq=a[3], win=a[4], service=a[5], body=a[6:])
        else:
            h.update(service=a[3], body=a[4:])
    elif t == 1:
        h.update(service=a[1])
    elif t == 2:
        h.update(invoke=a[1], service=a[2])
    elif t == 3:
        h.update(seg=bool(a[0] & 8), mor=bool(a[0] & 4), invoke=a[1])
        if h["seg"]:
            h.update(seq=a[2], win=a[3], service=a[4], body=a[5:])
        else:
            h.update(service=a[2], body=a[3:])
    elif t == 4:
        h.update(nak=bool(a[0] & 2), srv=bool(a[0] & 1), invoke=a[1], seq=a[2], win=a[3])
    elif t == 5:
        h.update(invoke=a[1], service=a[2])
    elif t == 6:
        h.update(invoke=a[1], reason=a[2])
    elif t == 7:
        h.update(srv=bool(a[0] & 1), invoke=a[1], reason=a[2])
    return h
