"""
C04 — a confirmed request ends in exactly one outcome, in bounded time, no residue.

Three ties, one oracle family:

(1) lockstep of the REAL StateMachineAccessPoint + ASAP (harness/tsmlock.py,
    virtual time) against Model.Tsm (lean/BacVerif/Drv/TsmDrv.lean, exe drv_c04),
    digests compared after EVERY event, with generators aimed at C04:
      shape    : one client transaction of every shape (unsegmented / segmented
                 request x every reply kind incl. segmented acks, windows 1..4,
                 retries 0..3) against a scripted conforming server, with every
                 <= 2-fault pattern expressed as an event sequence (drop = the
                 frame event never happens, dup = twice, delay = later /
                 reordered / after the next expiry), then silence to exhaustion
      srvshape : the access point as SERVER of a scripted client (request
                 segmented or not, application answers of every kind and size,
                 or never), same fault patterns, silence to exhaustion
      adv      : long random adversarial sequences (harness.c11.Mix: arbitrary
                 headers from arbitrary peers, concurrent transactions) ending
                 in total silence
    the implementation-side oracle (class Oracle, evaluated on the replies of
    the real code only) checks per event: at most one confirmation per
    (peer, invoke ID) generation; a confirmation in exactly the event in which
    the client transaction leaves the list; no timer without a listed
    transaction, every listed transaction has one; no client-originated frame
    and no confirmation for a key that is not listed (other than by its own
    request); under silence every transaction ends with a confirmation after
    a bounded number of expiries of its own timer and within the virtual-time
    bound; nothing left at the end.
(2) harness/c04_impl.py (complete stacks over the fault VLAN, end to end).
(3) lockstep of a REAL ApplicationIOController + SieveQueue (stub stack below)
    against Model.Iocb: request_io / application abort / confirmations of each
    kind / deferred functions one at a time, several destinations, priorities,
    unconfirmed requests, requests the stack refuses, and RE-ENTRANT operations:
    scripts armed beforehand that the application's completion callback runs
    inside complete_io / abort_io (request_io to the same / another destination,
    abort of other IOCBs).  Oracle: one callback per IOCB, terminal states final,
    the next queued IOCB goes out once the deferred trigger ran, no idle queue
    with waiting IOCBs lacks a pending trigger, empty queues forgotten, every
    IOCB finished at the end.
"""
import json, os
from . import core
from . import tsmlock as T

LEAN_TARGETS = ["BacVerif.Props.C04", "drv_c04"]
LEANCHECKER = ["BacVerif.Props.C04"]
LEVEL = "proof"
RULE = ("lockstep event sequences: shape = single client transactions (request 1 / 3 / 7+ segments x reply "
        "simple / complex / undecodable complex / error / reject / abort / segmented ack of 3 and 6 segments / "
        "silent server; windows 1..4; retries 0..3) against a scripted server with every single fault "
        "(drop, dup, short delay = reorder, long delay = after the next expiry) over every frame and sampled "
        "(thorough: all, short transactions) pairs, then timer expiries to exhaustion; srvshape = the mirror "
        "image with the access point as server; adv = harness.c11.Mix adversarial sequences (arbitrary headers, "
        "1..40 concurrent transactions) followed by silence; iocb = random request_io / abort / confirmation / "
        "deferred sequences over 1..3 destinations; e2e = harness/c04_impl.py scenarios. distinct = distinct "
        "model branch signatures (event kind, state before>after, output kinds) resp. (fault kinds, shape, outcome)")
TRUSTED = ["lean/BacVerif/Model/Tsm/*.lean (hand transcription of appservice.py, tied by lockstep: C11/C12/C04 streams)",
           "lean/BacVerif/Model/Iocb.lean (hand transcription of iocb.py IOCB/IOQueue/IOController/IOQController/"
           "SieveQueue and app.py ApplicationIOController, tied by the iocb lockstep stream)",
           "harness/tsmlock.py rig, harness/e2e.py + e2e_oracle.py + c04_impl.py (end-to-end oracle), harness/vt.py",
           "the scheduler runs a due task (TaskManager, property C14): the liveness theorems count expiries and "
           "assume ticks never jump over a deadline"]
ASSUMPTIONS = ["the application does not abort an IOCB whose request is in flight (known, not claimed: _app_complete "
               "matches the active IOCB by address only; modelled as it is)",
               "DeviceCommunicationControl is 'enable' for the exactly-one clause (a disabled stack drops requests silently)",
               "every ComplexAck the peer sends has a registered decoder (the ASAP drops an ack of an unknown service: "
               "the transaction ends, the application hears nothing)",
               "liveness: local maxApduLengthAccepted >= 50 and maxSegmentsAccepted != 1 (cfgOk, a decidable predicate "
               "on the configuration from which the no-exception hypothesis is PROVED; otherwise every transmission "
               "raises ValueError and the retry counter is reset: no termination)",
               "IOCB re-entrancy: a completion callback may submit new IOCBs to any destination and abort OTHER "
               "IOCBs; it does not abort the IOCB it is called back for",
               "real elapsed time under asyncore is not modelled: bounds are in virtual time and in timer expiries"]

EXE = "drv_c04"


def GENERATED(ctx):
    from translator import tsm as tr
    tr.generate()


# =====================================================================
# implementation-side oracle over one lockstep run

def is_client_frame(h):
    """frame types only a CLIENT transaction emits: request (segments), segment
    ack / abort with the server flag clear"""
    return h[0] == 0 or (h[0] == 4 and h[2] == 0) or (h[0] == 7 and h[1] == 0)


def inv_of(h):
    i = {0: 6, 2: 1, 3: 3, 4: 3, 5: 1, 6: 1, 7: 2}.get(h[0])
    return None if i is None else h[i]


KNOWN_ACK = (200, 201)      # complex-ack services with a decoder in the rig (201: decoder fails)


class Oracle:
    def __init__(self, ctx, lock, label, tight=True):
        self.ctx, self.L, self.label = ctx, lock, label
        self.prev = lock.snapshot()
        self.gen = {}            # key -> confirmations seen in the current generation
        self.expiries = {}       # key -> own expiries since the last arrival / request
        self.since = {}          # key -> virtual µs of the last arrival / request
        self.tight = tight       # no `learn` after the request: the tight bound applies
        self.dropped_ok = {}
        self.segmented = {}      # key -> the request went out segmented
        cfg = lock.cfg
        self.R = cfg["retries"]
        self.T = max(cfg["apduTimeout"], 4 * cfg["segTimeout"]) * 1000

    def fail(self, kind, what, line):
        self.ctx.fail(kind, {"label": self.label, "reset": self.L.reset_line, "events": list(self.L.events)},
                      what, event=line, index=len(self.L.events) - 1)

    def bound(self, k=None):
        """expiries of its own timer a transaction cannot survive under silence.
        While the device information is stable the exact worst case: R+1 for an
        unsegmented request, R+2 for a segmented one (all segments acknowledged: one
        expiry restarts the request, R+1 more exhaust the segment retries);
        2R+1 (theorem `bounded_under_silence`) always."""
        if self.tight:
            if not self.segmented.get(k, True) or self.R == 0:
                return self.R + 1
            return self.R + 2
        return 2 * self.R + 1

    def after(self, line, reply):
        prev, cur = self.prev, {k: reply[k] for k in ("cl", "sv", "next", "now")}
        self.prev = cur
        outs = reply["out"]
        e = line["e"]
        for o in outs:
            if o["o"] == "raised" and o["k"].startswith("python:"):
                self.fail("unexpected-exception", "an unmodelled exception left the access point: %s" % o["k"], line)
        pk = {(d[0], d[1]): d for d in prev["cl"]}
        ck = {(d[0], d[1]): d for d in cur["cl"]}
        removed = [k for k in pk if k not in ck]
        added = [k for k in ck if k not in pk]
        confs = [o for o in outs if o["o"] == "conf"]
        anon = [o for o in outs if o["o"] == "confanon"]
        # ---- which key does the event belong to
        req_key = None
        if e == "req":
            if added:
                req_key = added[0]
            elif confs:
                req_key = (confs[0]["peer"], inv_of(confs[0]["h"]))
            elif line["id"] is not None:
                req_key = (line["peer"], line["id"])
            refused = any(o["o"] == "raised" for o in outs)
            if req_key is not None and not refused and (added or confs):
                if self.gen.get(req_key) == 0 and not self.dropped_ok.get(req_key):
                    self.fail("outcome-count", "request %r re-issued, the previous one never got an outcome" % (req_key,), line)
                self.dropped_ok.pop(req_key, None)
                self.gen[req_key] = 0
                self.segmented[req_key] = any(o["o"] == "send" and o["h"][0] == 0 and o["h"][1] for o in outs)
                self.expiries[req_key] = 0
                self.since[req_key] = cur["now"]
        # ---- one outcome per generation, only for a submitted request
        for o in confs:
            k = (o["peer"], inv_of(o["h"]))
            if k not in self.gen:
                self.fail("spurious-confirm", "confirmation %r for %r which has no submitted request" % (o["h"], k), line)
                continue
            self.gen[k] += 1
            if self.gen[k] > 1:
                self.fail("outcome-count", "second confirmation for %r in one generation" % (k,), line)
            if o["h"][0] not in (2, 3, 5, 6, 7):
                self.fail("outcome-kind", "confirmation of PDU type %d" % o["h"][0], line)
        # ---- confirm in exactly the step that removes the transaction
        for k in removed:
            mine = [o for o in confs if (o["peer"], inv_of(o["h"])) == k]
            if len(mine) + len(anon) != 1:
                d = pk[k]
                dropped = ((e == "frame" and line["a"]["t"] == 3 and line["a"].get("svc") not in KNOWN_ACK)
                           or (d[16] is not None and d[16][0] == 3 and d[16][2] not in KNOWN_ACK))
                if dropped and not mine and not anon:
                    self.dropped_ok[k] = True       # observation (notes/Tsm.md): ack of a service without decoder
                else:
                    self.fail("confirm-iff-removed", "client transaction %r left the list with %d confirmation(s)" % (
                        k, len(mine) + len(anon)), line)
            elif anon and k in self.gen:
                self.gen[k] += 1                    # the bare Error the ASAP substitutes IS the outcome
        for o in confs:
            k = (o["peer"], inv_of(o["h"]))
            if k not in removed and not (e == "req" and k == req_key and k not in ck):
                self.fail("confirm-iff-removed", "confirmation for %r although its transaction did not end in this event" % (k,), line)
        if anon and not removed:
            self.fail("confirm-iff-removed", "anonymous confirmation without a transaction ending", line)
        # ---- nothing for a key that is not listed (quiet after done)
        for o in outs:
            if o["o"] == "send" and is_client_frame(o["h"]):
                k = (o["peer"], inv_of(o["h"]))
                if k not in pk and not (e == "req" and k == req_key):
                    # SERVER-side aborts that go out with the server flag clear: the ASAP's abort of
                    # an undecodable inbound request, and a ServerSSM echoing the client's own abort
                    if not (o["h"][0] == 7 and e == "frame" and (
                            line["a"]["t"] == 0 or (line["a"]["t"] == 7 and not line["a"].get("srv")))):
                        self.fail("late-frame", "client frame %r for %r which is not a listed transaction" % (o["h"], k), line)
        # ---- timers: exactly the listed transactions have one
        pend = self.L.pending()
        listed = {(False, d[0], d[1]) for d in cur["cl"]} | {(True, d[0], d[1]) for d in cur["sv"]}
        armed = {(bool(s), p, i) for (_w, s, p, i) in pend}
        if armed - listed:
            self.fail("residue-timer", "timer(s) armed for transactions not listed: %r" % sorted(armed - listed), line)
        for d in cur["cl"]:
            if d[15] is None:
                self.fail("unarmed", "listed client transaction %r has no timer" % ((d[0], d[1]),), line)
        # ---- bounded: expiries of the own timer since the last arrival
        if e == "frame":
            k = (line["peer"], line["a"].get("id", 0))
            if k in self.expiries:
                self.expiries[k] = 0
                self.since[k] = cur["now"]
            if k in ck and ck[k][15] is not None and ck[k][15] > cur["now"] + self.T:
                self.fail("arrival-extends", "an arrival armed the timer of %r %d us ahead (max %d)" % (
                    k, ck[k][15] - cur["now"], self.T), line)
        if e == "learn":
            self.tight = False
        if e == "timeout" and not line["srv"]:
            k = (line["peer"], line["id"])
            if k in pk:
                self.expiries[k] = self.expiries.get(k, 0) + 1
                if k in ck and self.expiries[k] >= self.bound(k) and not any(o["o"] == "raised" for o in outs):
                    self.fail("expiry-bound", "transaction %r survived %d expiries of its own timer (retries %d)" % (
                        k, self.expiries[k], self.R), line)
                if k in ck and ck[k][15] is not None and ck[k][15] > cur["now"] + self.T:
                    self.fail("arrival-extends", "an expiry armed the timer %d us ahead" % (ck[k][15] - cur["now"]), line)
                if k not in ck and k in self.since and cur["now"] - self.since[k] > self.bound(k) * self.T:
                    self.fail("time-bound", "transaction %r ended %d us after the last arrival, bound %d" % (
                        k, cur["now"] - self.since[k], self.bound(k) * self.T), line)

    def finish(self):
        """the scenario ended in silence: nothing may be left"""
        snap = self.L.snapshot()
        line = self.L.events[-1] if self.L.events else {"e": "none"}
        if snap["cl"] or snap["sv"]:
            self.fail("residue-transaction", "transactions left after silence: %r / %r" % (
                [(d[0], d[1], d[2]) for d in snap["cl"]], [(d[0], d[1], d[2]) for d in snap["sv"]]), line)
        if self.L.vt.tm.tasks:
            self.fail("residue-timer", "%d task(s) still scheduled after silence" % len(self.L.vt.tm.tasks), line)
        for k, n in self.gen.items():
            if n != 1 and not self.dropped_ok.get(k):
                self.fail("outcome-count", "request %r ended with %d confirmations" % (k, n), line)



class Run:
    """a Lock plus its oracle; every event goes through `do`"""

    def __init__(self, ctx, cfg, di, label, next_id=1, tight=True):
        self.L = T.Lock(cfg, di, next_id=next_id)
        self.L.label = label
        self.O = Oracle(ctx, self.L, label, tight=tight)

    def do(self, fn, *a):
        n0 = len(self.L.events)
        fn(*a)
        for i in range(n0, len(self.L.events)):
            self.O.after(self.L.events[i], self.L.replies[i])
        return self.L.replies[n0:]

    def silence(self, limit=400):
        """only timers fire until nothing is scheduled"""
        n = 0
        while self.L.vt.tm.tasks and n < limit:
            self.do(self.L.fire_next)
            n += 1
        if n >= limit:
            self.O.fail("nontermination", "timers still firing after %d expiries of silence" % limit, self.L.events[-1])
            return
        self.O.finish()


# =====================================================================
# scripted peers

def body(n, salt=0):
    return bytes(((i * 37 + salt * 11 + 5) & 255) for i in range(n))


class ServerSim:
    """a conforming server, purely reactive: answers every (re)transmission"""

    def __init__(self, kind, nseg=3, seglen=20, window=2):
        self.kind, self.nseg, self.seglen, self.window = kind, nseg, seglen, window
        self.expected = 0          # next request segment wanted
        self.complete = False
        self.win = None
        self.inwin = 0
        self.aborted = False

    def reply(self, inv):
        k = self.kind
        if k == "silent":
            return []
        if k == "simple":
            return [{"t": 2, "id": inv, "svc": 200}]
        if k == "complex":
            return [{"t": 3, "id": inv, "svc": 200, "hex": body(9).hex()}]
        if k == "complexbad":
            return [{"t": 3, "id": inv, "svc": 201, "hex": body(4).hex()}]
        if k == "error":
            return [{"t": 5, "id": inv, "svc": 200, "hex": "9100"}]
        if k == "errorbad":
            return [{"t": 5, "id": inv, "svc": 201, "hex": "9100"}]
        if k == "reject":
            return [{"t": 6, "id": inv, "reason": 4}]
        if k == "abort":
            return [{"t": 7, "id": inv, "srv": 1, "reason": 3}]
        if k == "segack":
            return [self.segment(inv, 0)]
        raise AssertionError(k)

    def segment(self, inv, i):
        return {"t": 3, "id": inv, "svc": 200, "seg": 1, "mor": 1 if i < self.nseg - 1 else 0,
                "seq": i % 256, "win": self.window, "hex": body(self.seglen, i).hex()}

    def receive(self, o):
        """o: a `send` record of the client; returns the frames the server emits"""
        h = o["h"]
        if self.aborted:
            return []
        if h[0] == 0:
            inv = h[6]
            if not h[1]:                      # unsegmented request
                self.complete = True
                return self.reply(inv)
            seq, win, mor = h[7], h[8], h[2]
            if self.complete:                 # retransmission after completion
                if seq == 0:
                    return [{"t": 4, "id": inv, "srv": 1, "seq": 0, "win": self.win or 1}] + self.reply(inv)
                return []
            if seq == 0 and self.expected <= 1:
                self.expected = 1
                self.win = max(1, min(win, 4))
                self.inwin = 0
                out = [{"t": 4, "id": inv, "srv": 1, "seq": 0, "win": self.win}]
                if not mor:
                    self.complete = True
                    out += self.reply(inv)
                return out
            if seq != self.expected % 256:
                return [{"t": 4, "id": inv, "srv": 1, "nak": 1, "seq": (self.expected - 1) % 256, "win": self.win or 1}]
            self.expected += 1
            self.inwin += 1
            if not mor:
                self.complete = True
                return [{"t": 4, "id": inv, "srv": 1, "seq": seq, "win": self.win}] + self.reply(inv)
            if self.inwin >= self.win:
                self.inwin = 0
                return [{"t": 4, "id": inv, "srv": 1, "seq": seq, "win": self.win}]
            return []
        if h[0] == 4:                         # the client acknowledges response segments
            inv, seq, win = h[3], h[4], h[5]
            if self.kind != "segack":
                return []
            nxt = seq + 1                     # (short transfers: no wrap)
            if h[1]:                          # nak: resend from there
                pass
            if nxt >= self.nseg:
                return []
            return [self.segment(inv, i) for i in range(nxt, min(self.nseg, nxt + max(1, win)))]
        if h[0] == 7:
            self.aborted = True
        return []


class ClientSim:
    """a conforming client toward the access point acting as server: sends a
    request of `nreq` segments window by window, acknowledges a segmented response"""

    def __init__(self, inv, nreq=1, seglen=20, window=2, sa=1, max_resp=0, max_segs=3):
        self.inv, self.nreq, self.seglen, self.window = inv, nreq, seglen, window
        self.sa, self.max_resp, self.max_segs = sa, max_resp, max_segs
        self.got = 0             # response segments received in order
        self.done = False

    def seg(self, i):
        a = {"t": 0, "id": self.inv, "svc": 200, "sa": self.sa, "maxResp": self.max_resp, "maxSegs": self.max_segs,
             "hex": body(self.seglen, i).hex()}
        if self.nreq > 1:
            a.update(seg=1, mor=1 if i < self.nreq - 1 else 0, seq=i % 256, win=self.window)
        return a

    def start(self):
        return [self.seg(0)]

    def receive(self, o):
        h = o["h"]
        if self.done:
            return []
        if h[0] == 4:                         # the server acknowledges request segments
            seq, win = h[4], h[5]
            if h[1]:                          # nak
                pass
            nxt = seq + 1
            if nxt >= self.nreq:
                return []
            return [self.seg(i) for i in range(nxt, min(self.nreq, nxt + max(1, win)))]
        if h[0] == 3:
            if not h[1]:
                self.done = True
                return []
            seq, win, mor = h[4], h[5], h[2]
            if seq != self.got % 256:
                return [{"t": 4, "id": self.inv, "srv": 0, "nak": 1, "seq": (self.got - 1) % 256, "win": win}]
            self.got += 1
            if not mor:
                self.done = True
                return [{"t": 4, "id": self.inv, "srv": 0, "seq": seq, "win": win}]
            if seq == 0 or (self.got - 1) % max(1, win) == 0:
                return [{"t": 4, "id": self.inv, "srv": 0, "seq": seq, "win": win}]
            return []
        if h[0] in (2, 5, 6, 7):
            self.done = True
        return []


# =====================================================================
# shape scenarios: one transaction, a fault plan over its frames

ACTIONS = ["drop", "dup", "delay", "late"]


def play(run, peer, sim, wire, plan, app=None, max_frames=400):
    """deliver the frames of `wire` ([("up"|"down", frame)]) in order under the
    fault plan {frame index: action}; "down" = toward the access point (a frame
    event), "up" = toward the scripted peer.  `app` reacts to indications.
    Returns the number of frames seen (for enumerating fault positions)."""
    L = run.L
    idx = 0
    held = []                 # (release_after_n_deliveries | "late", direction, frame)
    fired_since_hold = [0]

    def emit_from_replies(reps):
        for r in reps:
            for o in r["out"]:
                if o["o"] == "send" and o["peer"] == peer:
                    wire.append(("up", o))
                elif o["o"] == "ind" and app is not None:
                    for a in app(o):
                        emit_from_replies(run.do(L.response, peer, a))

    def deliver(direction, f):
        if direction == "down":
            emit_from_replies(run.do(L.frame, peer, f))
        else:
            for a in sim.receive(f):
                wire.append(("down", a))

    while idx < max_frames:
        if wire:
            direction, f = wire.pop(0)
            act = plan.get(idx, "ok")
            idx += 1
            if act == "drop":
                pass
            elif act == "dup":
                deliver(direction, f)
                deliver(direction, f)
            elif act == "delay":
                held.append([2, direction, f])
            elif act == "late":
                held.append(["late", direction, f])
            else:
                deliver(direction, f)
            for hh in held:
                if hh[0] != "late":
                    hh[0] -= 1
            for hh in [x for x in held if x[0] != "late" and x[0] <= 0]:
                held.remove(hh)
                deliver(hh[1], hh[2])
            continue
        short = [x for x in held if x[0] != "late"]
        if short:
            for hh in short:
                held.remove(hh)
                deliver(hh[1], hh[2])
            continue
        if not L.vt.tm.tasks:
            if held:                      # everything ended: late frames arrive after completion
                for hh in list(held):
                    held.remove(hh)
                    deliver(hh[1], hh[2])
                continue
            break
        # silence: the next timer fires; frames held "late" arrive right after it
        emit_from_replies([r for r in run.do(L.fire_next) if r is not None])
        for hh in [x for x in held if x[0] == "late"]:
            held.remove(hh)
            deliver(hh[1], hh[2])
    if idx >= max_frames:
        run.O.fail("nontermination", "transaction still exchanging frames after %d frames" % max_frames, L.events[-1])
    return idx


def client_shape(ctx, sh, plan, label):
    """sh: {"req": octets, "kind", "nseg", "window", "retries", "swin", "know"}"""
    cfg = T.default_cfg()
    cfg.update(seg=3, maxApdu=50, maxSegs=64, window=sh["window"], retries=sh["retries"])
    di = [[0, {"maxApdu": 50, "seg": 3, "maxSegs": 64, "maxNpdu": None}]] if sh.get("know", True) else []
    run = Run(ctx, cfg, di, label)
    sim = ServerSim(sh["kind"], nseg=sh.get("nseg", 3), window=sh.get("swin", 2))
    wire = []
    reps = run.do(run.L.request, 0, 200, body(sh["req"]), None)
    for r in reps:
        for o in r["out"]:
            if o["o"] == "send":
                wire.append(("up", o))
    n = play(run, 0, sim, wire, plan)
    run.silence()
    return run, n


def server_shape(ctx, sh, plan, label):
    """sh: {"nreq", "answer": kind, "resp": octets, "window", "retries", "cwin", "sa"}"""
    cfg = T.default_cfg()
    cfg.update(seg=3, maxApdu=50, maxSegs=64, window=sh["window"], retries=sh["retries"])
    run = Run(ctx, cfg, [], label)
    inv = sh.get("inv", 7)
    sim = ClientSim(inv, nreq=sh["nreq"], window=sh.get("cwin", 2), sa=sh.get("sa", 1))
    ans = sh["answer"]

    def app(o):
        if o["h"][0] != 0:
            return []
        if ans == "never":
            return []
        if ans == "simple":
            return [{"t": 2, "id": inv, "svc": 200}]
        if ans == "complex":
            return [{"t": 3, "id": inv, "svc": 200, "hex": body(sh.get("resp", 10)).hex()}]
        if ans == "error":
            return [{"t": 5, "id": inv, "svc": 200, "hex": "9100"}]
        if ans == "reject":
            return [{"t": 6, "id": inv, "reason": 2}]
        if ans == "abort":
            return [{"t": 7, "id": inv, "srv": 1, "reason": 1}]
        raise AssertionError(ans)
    wire = [("down", a) for a in sim.start()]
    n = play(run, 0, sim, wire, plan, app=app)
    run.silence()
    return run, n


def client_shapes(quick):
    out = []
    kinds = ["simple", "complex", "complexbad", "error", "errorbad", "reject", "abort", "segack", "silent"]
    for req in (5, 100, 300):
        for kind in kinds:
            for window, retries in (((2, 1),) if quick else ((1, 0), (2, 1), (4, 3), (3, 2))):
                if quick and req == 300 and kind not in ("complex", "segack", "silent"):
                    continue
                sh = {"req": req, "kind": kind, "window": window, "retries": retries, "swin": 1 + (window % 3)}
                out.append(sh)
                if kind == "segack":
                    out.append(dict(sh, nseg=6))
    out.append({"req": 5, "kind": "simple", "window": 2, "retries": 3, "know": False})
    out.append({"req": 100, "kind": "segack", "window": 2, "retries": 0, "swin": 2, "nseg": 4})
    out.append({"req": 5, "kind": "silent", "window": 2, "retries": 3})
    out.append({"req": 100, "kind": "silent", "window": 2, "retries": 3})
    return out


def server_shapes(quick):
    out = []
    for nreq in (1, 3):
        for answer, resp in (("simple", 0), ("complex", 10), ("complex", 120), ("error", 0), ("reject", 0),
                             ("abort", 0), ("never", 0)):
            for window, retries in (((2, 1),) if quick else ((1, 0), (2, 1), (4, 3))):
                out.append({"nreq": nreq, "answer": answer, "resp": resp, "window": window, "retries": retries,
                            "cwin": 1 + (window % 2)})
    out.append({"nreq": 1, "answer": "complex", "resp": 120, "window": 2, "retries": 1, "sa": 0})
    return out


def plans_for(n, rng, quick, exhaustive_pairs):
    """fault plans over frames 0..n-1 (+1 beyond): none, every single, pairs"""
    plans = [{}]
    for i in range(n):
        for a in ACTIONS:
            plans.append({i: a})
    pairs = [(i, j) for i in range(n) for j in range(i + 1, min(n + 2, i + 9))]
    combos = [("drop", "drop"), ("drop", "dup"), ("dup", "delay"), ("late", "drop"), ("delay", "late"),
              ("dup", "dup"), ("late", "late"), ("drop", "late")]
    allp = [{i: a, j: b} for (i, j) in pairs for (a, b) in combos]
    if exhaustive_pairs:
        plans += allp
    else:
        plans += rng.sample(allp, min(len(allp), 10 if quick else 200))
    return plans


def shard_shapes(ctx, spec):
    role, shapes, base = spec["role"], spec["shapes"], spec["base"]
    fn = client_shape if role == "cl" else server_shape
    stream = "shape" if role == "cl" else "srvshape"
    locks = []
    for si, sh in enumerate(shapes):
        rng = ctx.sub_rng("c04/%s/%d" % (stream, base + si))
        run0, n = fn(ctx, sh, {}, "%s-%d/none" % (stream, base + si))
        locks.append(run0.L)
        small = n <= 10
        for pi, plan in enumerate(plans_for(n, rng, ctx.quick, exhaustive_pairs=(not ctx.quick and small))):
            if not plan:
                continue
            run, _ = fn(ctx, sh, plan, "%s-%d/%s" % (stream, base + si, json.dumps(plan, sort_keys=True)))
            run.L.shape = (role, sh, plan)
            locks.append(run.L)
        if len(locks) >= 150:
            T.compare(ctx, stream, locks, exe=EXE)
            locks = []
    if locks:
        T.compare(ctx, stream, locks, exe=EXE)


# =====================================================================
# adversarial sequences ending in silence

def shard_adv(ctx, spec):
    from . import c11
    lo, hi, n_events = spec
    locks = []
    for i in range(lo, hi):
        rng = ctx.sub_rng("c04/adv/%d" % i)
        label = "adv-%d" % i
        mix = c11.Mix(_NullCtx(), rng, label, n_events)
        if ctx.quick:
            # 40 concurrent transactions with multi-kilobyte contexts are C11's business; the
            # digest of every context after every event dominates the model driver's time
            mix.target_live = min(mix.target_live, 12)
        # re-attach OUR oracle to the lock of the generator
        orc = Oracle(ctx, mix.L, label, tight=False)
        mix.L.label = label
        mix.O = _Tee(orc)
        mix.run()
        run = Run.__new__(Run)
        run.L, run.O = mix.L, orc
        # generations whose ack was dropped by the ASAP (no decoder) or which the
        # generator never answered are closed by silence; tolerate dropped ones
        run.silence(limit=4000)
        locks.append(mix.L)
    T.compare(ctx, "adv", locks, exe=EXE)
    if locks:
        ctx.sample({"stream": "adv", "reset": locks[0].reset_line, "first_events": locks[0].events[:3]})


class _NullCtx:
    """c11's generator wants a ctx for ITS oracle; C11 is judged by ./check C11"""
    def fail(self, *a, **k):
        pass


class _Tee:
    def __init__(self, orc):
        self.orc = orc

    def after(self, line, reply):
        self.orc.after(line, reply)

    def fail(self, *a, **k):
        pass


# =====================================================================
# IOCB layer: real ApplicationIOController / SieveQueue vs Model.Iocb

TOK_FAILED, TOK_TRANSITION = 1000001, 1000002


class IoRig:
    """a REAL ApplicationIOController above a stub stack.  IOCBs are named by
    creation index, SieveQueue objects by the order in which they are first seen."""

    def __init__(self):
        core.bind_repo()
        self.vt = T._vt.VT.install(T.START)
        self.vt.reset(T.START)
        from bacpypes.comm import bind, ServiceAccessPoint
        from bacpypes.app import ApplicationIOController
        from bacpypes.pdu import Address
        import bacpypes.core as bcore
        self.bcore = bcore
        rig = self
        self.iocbs = []
        self.qids = {}            # id(queue object) -> qid
        self.qobjs = []           # keep them alive (ids stay unique)

        class StubSap(ServiceAccessPoint):
            def sap_indication(self, apdu):
                rig.outs.append({"o": "sent", "id": apdu._io})
                if apdu._fails:
                    raise RuntimeError("tok:%d" % TOK_FAILED)

        # SieveQueue objects are numbered in CREATION order (several can be created and
        # forgotten inside one event once callbacks re-enter): app.py looks the class up
        # in its module globals, the rig substitutes a recording subclass there
        import bacpypes.app as bapp
        base = getattr(bapp.SieveQueue, "_c04_base", bapp.SieveQueue)

        class RecordingSieveQueue(base):
            _c04_base = base

            def __init__(self, *a, **kw):
                base.__init__(self, *a, **kw)
                rig.qid(self)
        bapp.SieveQueue = RecordingSieveQueue
        self.app = ApplicationIOController()
        self.sap = StubSap()
        bind(self.app, self.sap)
        self.addrs = [Address(10), Address(11), Address(12)]
        self.outs = []
        self.events = []
        self.replies = []
        self.script = []          # what the next completion callback will do (re-entrancy)

    # ---- canonical view ---------------------------------------------
    def tok(self, v):
        if v is None:
            return None
        if isinstance(v, Exception):
            m = str(v)
            if m.startswith("tok:"):
                return int(m[4:])
            if "invalid state transition" in m:
                return TOK_TRANSITION
            return "python:%s:%s" % (type(v).__name__, m[:60])
        return getattr(v, "_tok", "untagged:%s" % type(v).__name__)

    def qid(self, q):
        if q is None:
            return None
        if id(q) not in self.qids:
            self.qids[id(q)] = len(self.qobjs)
            self.qobjs.append(q)
        return self.qids[id(q)]

    def io_index(self, iocb):
        for i, x in enumerate(self.iocbs):
            if x is iocb:
                return i
        return None

    def snapshot(self):
        from bacpypes.iocb import SieveQueue, IOQueue
        # queue objects first seen now: the dictionary first, then the deferred list
        for addr, q in self.app.queue_by_address.items():
            self.qid(q)
        for fn, args, kw in self.bcore.deferredFns:
            if args and isinstance(args[0], SieveQueue):
                self.qid(args[0])
        io = []
        for x in self.iocbs:
            ctrl = x.ioController
            inq = x.ioQueue
            inq_id = None
            if inq is not None:
                for q in self.qobjs:
                    if q.ioQueue is inq:
                        inq_id = self.qids[id(q)]
            io.append([int(x.ioState), self.qid(ctrl) if isinstance(ctrl, SieveQueue) else None, inq_id,
                       self.tok(x.ioResponse), self.tok(x.ioError)])
        qs = []
        for addr, q in self.app.queue_by_address.items():
            qs.append([self.addrs.index(addr), self.qid(q), 1 if q.state != 0 else 0,
                       self.io_index(q.active_iocb) if q.active_iocb is not None else None,
                       [[int(p), self.io_index(i)] for (p, i) in q.ioQueue.queue]])
        dfr = [self.qid(args[0]) for fn, args, kw in self.bcore.deferredFns]
        return {"io": io, "q": qs, "def": dfr, "scr": len(self.script)}

    def _finish(self, line):
        r = {"r": "ok", "out": self.outs}
        r.update(self.snapshot())
        self.events.append(line)
        self.replies.append(r)
        return r

    def _guard(self, fn):
        self.outs = []
        try:
            fn()
        except RuntimeError as e:
            if "unrecognized APDU type" in str(e):
                self.outs.append({"o": "raised", "k": "unrecognized"})
            else:
                self.outs.append({"o": "raised", "k": "python:RuntimeError:%s" % str(e)[:60]})
        except Exception as e:
            self.outs.append({"o": "raised", "k": "python:%s:%s" % (type(e).__name__, str(e)[:60])})

    # ---- events -----------------------------------------------------
    def _request_io(self, dest, prio, unconf, fails):
        from bacpypes.apdu import ConfirmedRequestPDU, UnconfirmedRequestPDU
        from bacpypes.iocb import IOCB
        idx = len(self.iocbs)
        req = (UnconfirmedRequestPDU if unconf else ConfirmedRequestPDU)(200)
        req.pduDestination = self.addrs[dest]
        req._io, req._fails = idx, fails
        iocb = IOCB(req, _priority=prio) if prio else IOCB(req)
        self.iocbs.append(iocb)
        iocb.add_callback(self._cb)
        self.app.request_io(iocb)

    def submit(self, dest, prio=0, unconf=False, fails=False):
        self._guard(lambda: self._request_io(dest, prio, unconf, fails))
        return self._finish({"op": "io", "e": "submit", "dest": dest, "prio": prio,
                             "unconf": 1 if unconf else 0, "fails": 1 if fails else 0})

    def _cb(self, iocb):
        """the application's completion callback: the first one that fires takes the
        armed script and issues its operations RIGHT HERE, inside complete_io/abort_io"""
        self.outs.append({"o": "cb", "id": self.io_index(iocb), "st": int(iocb.ioState),
                          "resp": self.tok(iocb.ioResponse), "err": self.tok(iocb.ioError)})
        ops, self.script = self.script, []
        for op in ops:
            if op["o"] == "submit":
                self._request_io(op["dest"], op.get("prio", 0), bool(op.get("unconf")), bool(op.get("fails")))
            elif op["id"] < len(self.iocbs) and self.iocbs[op["id"]] is not iocb:
                # (never the IOCB it is called back for: aborting that one and submitting to the same
                # destination from its own completion callback loses the new active IOCB — notes/C04.md)
                self.iocbs[op["id"]].abort(RuntimeError("tok:%d" % op["tok"]))

    def arm(self, script):
        self.outs = []
        self.script = [dict(o) for o in script]
        return self._finish({"op": "io", "e": "arm", "script": [dict(o) for o in script]})

    def abort(self, idx, tok):
        self._guard(lambda: self.iocbs[idx].abort(RuntimeError("tok:%d" % tok)))
        return self._finish({"op": "io", "e": "abort", "id": idx, "tok": tok})

    def confirm(self, addr, kind, tok, cls=0):
        from bacpypes import apdu as A

        def go():
            if kind == "ack":
                x = [A.SimpleAckPDU(200, 1), A.ComplexAckPDU(200, 1)][cls % 2]
            elif kind == "err":
                x = [A.ErrorPDU(200, 1), A.RejectPDU(1, 2), A.AbortPDU(True, 1, 3)][cls % 3]
            else:
                x = [A.ConfirmedRequestPDU(200), A.SegmentAckPDU(0, 1, 1, 0, 1)][cls % 2]
            x.pduSource = self.addrs[addr]
            x._tok = tok
            self.app.confirmation(x)
        self._guard(go)
        return self._finish({"op": "io", "e": "confirm", "addr": addr, "kind": kind, "tok": tok})

    def deferred(self):
        """what the core loop does, one function at a time (FIFO)"""
        def go():
            if self.bcore.deferredFns:
                fn, args, kw = self.bcore.deferredFns.pop(0)
                fn(*args, **kw)
        self._guard(go)
        return self._finish({"op": "io", "e": "deferred"})

    def lines(self):
        return [{"op": "io_reset"}] + self.events

    def impl_replies(self):
        return [{"r": "ok"}] + self.replies


class IoOracle:
    """C04's IOCB clauses evaluated on the real objects"""

    def __init__(self, ctx, rig, label):
        self.ctx, self.rig, self.label = ctx, rig, label
        self.cbs = {}
        self.term = {}
        self.clean = True        # no application abort / refused request so far

    def fail(self, kind, what):
        self.ctx.fail(kind, {"label": self.label, "io_events": list(self.rig.events)}, what,
                      index=len(self.rig.events) - 1)

    def after(self, line, reply):
        for o in reply["out"]:
            if o["o"] == "raised" and o["k"].startswith("python:"):
                self.fail("unexpected-exception", "unmodelled exception: %s" % o["k"])
            if o["o"] == "cb":
                self.cbs[o["id"]] = self.cbs.get(o["id"], 0) + 1
                if self.cbs[o["id"]] > 1:
                    self.fail("iocb-callbacks", "IOCB #%d called back %d times" % (o["id"], self.cbs[o["id"]]))
                if o["st"] not in (3, 4):
                    self.fail("iocb-callbacks", "IOCB #%d called back in state %d" % (o["id"], o["st"]))
        for i, d in enumerate(reply["io"]):
            if i in self.term and (d[0], d[3], d[4]) != self.term[i]:
                self.fail("iocb-terminal", "finished IOCB #%d changed from %r to %r" % (i, self.term[i], (d[0], d[3], d[4])))
            if d[0] in (3, 4):
                self.term.setdefault(i, (d[0], d[3], d[4]))
                if self.cbs.get(i, 0) != 1:
                    self.fail("iocb-callbacks", "IOCB #%d is finished and was called back %d times" % (i, self.cbs.get(i, 0)))
            elif self.cbs.get(i, 0):
                self.fail("iocb-callbacks", "IOCB #%d called back while in state %d" % (i, d[0]))
        if line["e"] == "confirm" and line["kind"] in ("ack", "err"):
            # the outcome handed to the IOCB is the confirmation that arrived, in its class
            for o in [x for x in reply["out"] if x["o"] == "cb"][:1]:
                if o["o"] == "cb":
                    want = (3, line["tok"], None) if line["kind"] == "ack" else (4, None, line["tok"])
                    if (o["st"], o["resp"], o["err"]) != want:
                        self.fail("iocb-outcome", "confirmation %s/%d finished IOCB #%d as (state, response, error) = %r" % (
                            line["kind"], line["tok"], o["id"], (o["st"], o["resp"], o["err"])))
        if line["e"] in ("abort",) or line.get("fails"):
            self.clean = False
        if line["e"] == "arm" and any(o["o"] == "abort" or o.get("fails") for o in line["script"]):
            self.clean = False
        for q in reply["q"]:
            addr, qid, busy, active, queue = q
            if not busy and queue and qid not in reply["def"]:
                self.fail("queue-stuck", "queue of destination %d is idle with %d waiting and no trigger pending" % (addr, len(queue)))
            for (_p, qi) in queue:
                if reply["io"][qi][0] != 1:
                    self.fail("queue-residue", "IOCB #%d in state %d is still an entry of the queue of destination %d" % (
                        qi, reply["io"][qi][0], addr))
            if active is not None and reply["io"][active][0] != 2:
                self.fail("queue-active", "active IOCB #%d of destination %d is in state %d" % (active, addr, reply["io"][active][0]))
            if self.clean and not busy and not queue and qid not in reply["def"]:
                self.fail("queue-forgotten", "empty idle queue of destination %d is kept" % addr)
        if line["e"] == "deferred" and reply["out"] and not any(o["o"] == "cb" for o in reply["out"]):
            sent = [o["id"] for o in reply["out"] if o["o"] == "sent"]
            if len(sent) > 1:
                self.fail("queue-advance", "one trigger sent %r" % sent)

    def finish(self):
        """everything was answered and every deferred function ran"""
        r = self.rig.replies[-1] if self.rig.replies else None
        if r is None:
            return
        for i, d in enumerate(r["io"]):
            if d[0] not in (3, 4):
                self.fail("iocb-unfinished", "IOCB #%d still in state %d at the end" % (i, d[0]))
        if self.clean and r["q"]:
            self.fail("queue-forgotten", "queues kept at the end: %r" % (r["q"],))


def io_scenario(ctx, rng, label, n_events):
    rig = IoRig()
    orc = IoOracle(ctx, rig, label)
    ndest = rng.choice([1, 1, 2, 3])
    abort_p = rng.choice([0.0, 0.0, 0.08])
    fail_p = rng.choice([0.0, 0.0, 0.1])
    reent = rng.choice([0.0, 0.15, 0.3])          # how often a completion callback is given work to do
    tok = [0]

    def do(fn, *a, **k):
        r = fn(*a, **k)
        orc.after(rig.events[-1], r)
        return r

    def next_tok():
        tok[0] += 1
        return tok[0]
    for _ in range(n_events):
        r = rng.random()
        busy = [q for q in rig.replies[-1]["q"] if q[3] is not None] if rig.replies else []
        if reent and rng.random() < reent and not rig.script:
            busy_d = [q[0] for q in busy]
            script = []
            for _k in range(rng.choice([1, 1, 2, 3])):
                if rng.random() < 0.75 or not rig.iocbs:
                    d = rng.choice(busy_d) if (busy_d and rng.random() < 0.7) else rng.randrange(ndest)
                    script.append({"o": "submit", "dest": d, "prio": rng.choice([0, 0, 1, 5]),
                                   "unconf": 1 if rng.random() < 0.15 else 0, "fails": 1 if rng.random() < fail_p else 0})
                else:
                    script.append({"o": "abort", "id": rng.randrange(len(rig.iocbs) + 2), "tok": next_tok()})
            do(rig.arm, script)
            continue
        if r < 0.35:
            do(rig.submit, rng.randrange(ndest), prio=rng.choice([0, 0, 0, 1, 2, 5]),
               unconf=rng.random() < 0.12, fails=rng.random() < fail_p)
        elif r < 0.62:
            if busy and rng.random() < 0.9:
                addr = rng.choice(busy)[0]
            else:
                addr = rng.randrange(3)                   # incl. destinations without queue / active
            kind = rng.choice(["ack", "ack", "ack", "err", "err", "other"] if rng.random() < 0.2 else ["ack", "ack", "err"])
            do(rig.confirm, addr, kind, next_tok(), cls=rng.randrange(6))
        elif r < 0.62 + abort_p and rig.iocbs:
            do(rig.abort, rng.randrange(len(rig.iocbs)), next_tok())
        else:
            do(rig.deferred)
    # drain: answer everything
    for _ in range(10 * n_events + 50):
        last = rig.replies[-1] if rig.replies else {"q": [], "def": []}
        if last["def"]:
            do(rig.deferred)
            continue
        busy = [q for q in last["q"] if q[3] is not None]
        if not busy:
            break
        do(rig.confirm, busy[0][0], rng.choice(["ack", "err"]), next_tok(), cls=rng.randrange(6))
    orc.finish()
    return rig


def compare_io(ctx, rigs):
    if not ctx.model_ok:
        for r in rigs:
            ctx.count("iocb", n=len(r.events))
        return
    lines = []
    for r in rigs:
        lines += r.lines()
    model = core.Driver(EXE).ask(lines)
    pos = 0
    for r in rigs:
        mine = model[pos:pos + 1 + len(r.events)]
        pos += 1 + len(r.events)
        impl = r.impl_replies()
        ctx.streams["iocb"] += len(r.events)
        bad = False
        for i, (a, m) in enumerate(zip(impl, mine)):
            if isinstance(m, dict) and m.get("r") == "bad-request":
                raise core.Infra("model rejected request %r: %r" % (r.lines()[i], m))
            if i == 0:
                continue
            ctx.count("iocb", m.get("br", ""))
            if not bad and core.canon(a) != core.canon(core.strip_br(m)):
                bad = True
                ctx.disagree("iocb", {"io_events": r.events[:i]}, a, core.strip_br(m))


def shard_io(ctx, spec):
    lo, hi, n_events = spec
    rigs = []
    for i in range(lo, hi):
        rng = ctx.sub_rng("c04/io/%d" % i)
        rigs.append(io_scenario(ctx, rng, "io-%d" % i, n_events))
    compare_io(ctx, rigs)
    if rigs:
        ctx.sample({"stream": "iocb", "first_events": rigs[0].events[:5]})


def replay_io(ctx, label, events):
    rig = IoRig()
    orc = IoOracle(ctx, rig, label)
    for ev in events:
        e = ev["e"]
        if e == "submit":
            r = rig.submit(ev["dest"], prio=ev.get("prio", 0), unconf=bool(ev.get("unconf")), fails=bool(ev.get("fails")))
        elif e == "abort":
            r = rig.abort(ev["id"], ev["tok"])
        elif e == "confirm":
            r = rig.confirm(ev["addr"], ev["kind"], ev["tok"], cls=ev.get("cls", 0))
        elif e == "arm":
            r = rig.arm(ev["script"])
        else:
            r = rig.deferred()
        orc.after(rig.events[-1], r)
    return rig


# =====================================================================
# corpus / replay / run

def corpus_cases():
    d = os.path.join(core.VERIF, "corpus", "C04")
    out = []
    if os.path.isdir(d):
        for f in sorted(os.listdir(d)):
            if f.endswith(".json"):
                out.append((f, json.load(open(os.path.join(d, f)))))
    return out


def replay_events(ctx, label, reset, events, silence=True):
    """re-execute a recorded event list on the real code (+ oracle)"""
    run = Run(ctx, reset["cfg"], reset.get("di", []), label, next_id=reset.get("nextId", 1), tight=False)
    L = run.L
    for ev in events:
        e = ev["e"]
        if e == "req":
            run.do(L.request, ev["peer"], ev["svc"], bytes.fromhex(ev["hex"]), ev["id"])
        elif e == "unconf":
            run.do(L.unconfirmed, ev["peer"], ev["svc"], bytes.fromhex(ev["hex"]))
        elif e == "rsp":
            run.do(L.response, ev["peer"], ev["a"])
        elif e == "frame":
            run.do(L.frame, ev["peer"], ev["a"])
        elif e == "tick":
            if L.vt.tm.tasks and L.vt.tm.tasks[0][0] <= L.vt.now + ev["dt"] / 1e6 + 1e-9:
                continue      # the following timeout event re-creates it
            run.do(L.tick, ev["dt"])
        elif e == "timeout":
            run.do(L.fire_next)
        elif e == "learn":
            run.do(L.learn, ev["peer"], ev["info"])
        elif e == "dcc":
            run.do(L.set_dcc, ev["d"])
    if silence:
        run.silence(limit=4000)
    return run


def replay_case(ctx, label, c):
    if "scenario" in c:                      # end-to-end witness
        from . import c04_impl
        c04_impl.replay_impl(ctx, c)
    elif "shape" in c:
        role, sh, plan = c["shape"]
        plan = {int(k): v for k, v in plan.items()}
        run, _ = (client_shape if role == "cl" else server_shape)(ctx, sh, plan, label)
        T.compare(ctx, "corpus", [run.L], exe=EXE)
    elif "io_events" in c:
        compare_io(ctx, [replay_io(ctx, label, c["io_events"])])
    elif "events" in c:
        run = replay_events(ctx, label, c["reset"], c["events"], silence=c.get("silence", True))
        T.compare(ctx, "corpus", [run.L], exe=EXE)
    else:
        raise core.Infra("corpus case %s has no known form" % label)


def run(ctx):
    for name, c in corpus_cases():
        replay_case(ctx, "corpus/" + name, c)
    q = ctx.quick
    # (1) lockstep, transaction state machines
    specs = []
    cs, ss = client_shapes(q), server_shapes(q)
    per = 2 if q else 1
    for i in range(0, len(cs), per):
        specs.append({"role": "cl", "shapes": cs[i:i + per], "base": i})
    for i in range(0, len(ss), per):
        specs.append({"role": "sv", "shapes": ss[i:i + per], "base": i})
    core.run_shards(ctx, "harness.c04", "shard_shapes", specs)
    n_adv, ev_adv = (48, 250) if q else (1000, 400)
    per = max(1, n_adv // 16)
    core.run_shards(ctx, "harness.c04", "shard_adv",
                    [(lo, min(lo + per, n_adv), ev_adv) for lo in range(0, n_adv, per)])
    # (3) lockstep, IOCB layer
    n_io, ev_io = (96, 100) if q else (2400, 160)
    per = max(1, n_io // 16)
    core.run_shards(ctx, "harness.c04", "shard_io",
                    [(lo, min(lo + per, n_io), ev_io) for lo in range(0, n_io, per)])
    # (2) end to end on complete stacks
    from . import c04_impl
    c04_impl.run_impl(ctx)


def search(ctx):
    """focused search when an obligation / the correspondence is broken: fresh
    adversarial sequences and IOCB sequences under the implementation-side oracle"""
    from . import c11
    for i in range(24):
        if ctx.failures:
            return
        rng = ctx.sub_rng("c04/search/%d" % i)
        mix = c11.Mix(_NullCtx(), rng, "search-%d" % i, 300)
        orc = Oracle(ctx, mix.L, "search-%d" % i, tight=False)
        mix.O = _Tee(orc)
        mix.run()
        run_ = Run.__new__(Run)
        run_.L, run_.O = mix.L, orc
        run_.silence(limit=4000)
        io_scenario(ctx, rng, "search-io-%d" % i, 200)


def replay(ctx, payload):
    rec = payload.get("failure") or (payload.get("correspondence_disagreements") or [{}])[0]
    case = rec.get("case")
    if not isinstance(case, dict):
        raise core.Infra("nothing to replay")
    replay_case(ctx, "replay", case)
