"""
C05 — segmented transfers deliver the exact payload and survive any single fault.

Correspondence (model = Model.Tsm through drv_c05, rig = harness/tsmlock.py: a
REAL StateMachineAccessPoint + ASAP between stubs under virtual time, compared
with the model after EVERY event), generators aimed at segmentation:

  send   : the real access point is the SENDER (client: segmented request,
           server: segmented response).  Payload lengths around every multiple
           of the segment size for max-APDU {50,128,206,480,1024,1476}, own
           (proposed) window 1..8, receiver window 1..8.  The harness plays the
           receiver and the network: it drops data frames, delivers / drops /
           duplicates / delays the segment acks, sends negative acks, stale
           acks, acks from outside the window, and lets the retransmission
           timer fire at every point; transfers of more than 256 segments.
  recv   : the real access point is the RECEIVER (server: segmented request,
           client: segmented response).  The harness cuts the payload itself
           and delivers the GENUINE segment frames in order, duplicated,
           overtaken (a later segment first), replayed from the start, with
           late segment acks in between and timer expiries; > 256 segments
           (without overtaking by a multiple of 256).
  stale  : deterministic: a complete transfer, then duplicates of its own
           segments arrive late (after the transaction is over), in every
           short pattern — nothing may be handed to the application that was
           not submitted; and a client still waiting for the last segment ack
           of its request is hit by late response segments (of an earlier
           transaction under the same invoke ID) in every short pattern.
  corpus : corpus/C05/*.json first (pre-fix witnesses).

Implementation-side oracle (independent of the model, evaluated on what the REAL
code emitted / holds):
  sender   : every data frame is a genuine slice (content hash and length of
             slice i of the submitted payload), its sequence number is i % 256,
             more-follows = (i < count-1), the first segment carries the
             proposed window and later ones the window of the last ack; the
             frames of one step are consecutive, start right after the last
             acknowledged segment and are at most `window` many; the transfer
             completes exactly when the last segment is acknowledged.
  receiver : after every event the reassembly buffer of the real transaction
             is the concatenation of segments 0..k for the k accepted in
             order; a frame that is not the next one leaves it unchanged and
             is answered by exactly one negative ack that names an accepted
             segment; the payload handed to the application at the end is
             octet for octet the submitted one (length + FNV-64 of a
             position-dependent pattern), handed over once.
End-to-end (complete stacks over the fault VLAN): harness/c05_impl.py — every
length, every single fault {drop, dup, late} at every frame index must still
end in success with the exact payload, wire checks, 255/256/257/300/600
segments, random multi-fault runs.
"""
import json, os
from . import core
from . import tsmlock as T
from . import c05_impl as IMPL

LEAN_TARGETS = ["BacVerif.Props.C05", "drv_c05"]
LEANCHECKER = ["BacVerif.Props.C05"]
LEVEL = "proof"
RULE = ("lockstep (real SMAP+ASAP vs Model.Tsm after every event): send = real sender, both roles, six "
        "max-APDU sizes x payload lengths k*size+{-1,0,1,2} (k=0..4) x proposed window 1..8 x receiver window "
        "1..8 (quick: sampled), adversarial receiver/network (drop, duplicate, late, negative, out-of-window "
        "acks, timer expiry at any point), 257..600-segment transfers; recv = real receiver, both roles, "
        "genuine segments in order / duplicated / overtaken / replayed, late acks, timer expiry; stale = "
        "every short pattern of late duplicates after a finished transfer. end-to-end: c05_impl (all single "
        "faults at every frame index, long payloads, random multi-fault). distinct = model branch signatures "
        "(event kind, state before>after, outputs) + end-to-end (size class, windows, fault kinds, outcome)")
TRUSTED = ["lean/BacVerif/Model/Tsm/*.lean hand transcription tied by lockstep (owner: Tsm)",
           "harness/tsmlock.py (stubs, canonical digests, APCI wire form of injected frames)",
           "harness/e2e.py, harness/e2e_oracle.py, harness/c05_impl.py (coordinator) for the end-to-end stacks"]
ASSUMPTIONS = ["frames on the medium are genuine frames of the transfer (lost, duplicated, delayed, reordered — "
               "never forged or corrupted); beyond 256 segments a frame is not overtaken by 256 or more segments",
               "the invoke ID is not reused for another transaction toward the same peer while frames of the "
               "transfer are still in flight",
               "device information of the peer does not change while a request to it is being sent"]

APDUS = [50, 128, 206, 480, 1024, 1476]
CODE = {50: 0, 128: 1, 206: 2, 480: 3, 1024: 4, 1476: 5}


def GENERATED(ctx):
    from translator import tsm as tr
    tr.generate()


def pattern(n, salt=0):
    """position-dependent payload: any reordering / duplication / truncation of slices changes it"""
    return bytes(((i * 131 + (i >> 8) * 17 + salt * 29 + 7) & 0xFF) for i in range(n))


def fnv_prefixes(data, size):
    """FNV-64 of data[:min(len, (k+1)*size)] for every k, one pass"""
    h = 14695981039346656037
    out = []
    for i, b in enumerate(data):
        h = ((h ^ b) * 1099511628211) % 18446744073709551616
        if (i + 1) % size == 0:
            out.append((i + 1, h))
    if not out or out[-1][0] != len(data):
        out.append((len(data), h))
    return out


def cut(data, size):
    return [data[i:i + size] for i in range(0, len(data), size)] or [b""]


class Chooser:
    """all adversary randomness goes through here and is recorded, so that a
    failing scenario replays without the seed"""

    def __init__(self, rng=None, script=None):
        self.rng, self.script, self.pos, self.rec = rng, script, 0, []

    def pick(self, n):
        if self.script is not None:
            v = self.script[self.pos] % n if self.pos < len(self.script) else 0
            self.pos += 1
        else:
            v = self.rng.randrange(n)
        self.rec.append(v)
        return v

    def choose(self, seq):
        return seq[self.pick(len(seq))]

    def flip(self, permille):
        return self.pick(1000) < permille


def seg_fields(o):
    """(type, seg, mor, invoke, seq, win) of an emitted data frame record"""
    h = o["h"]
    if h[0] == 0:
        return (0, h[1], h[2], h[6], h[7] if h[1] else None, h[8] if h[1] else None)
    return (3, h[1], h[2], h[3], h[4] if h[1] else None, h[5] if h[1] else None)


class Scenario:
    def __init__(self, ctx, kind, params, ch):
        self.ctx, self.kind, self.params, self.ch = ctx, kind, params, ch
        self.L = None
        self.failed = False

    def case(self):
        return {"kind": self.kind, "params": self.params, "script": list(self.ch.rec)}

    def fail(self, kind, what):
        if not self.failed:          # first failure of a scenario; the rest are consequences
            self.failed = True
            self.ctx.fail(kind, self.case(), what, stream=self.kind,
                          segments=self.params.get("count_hint", 0))

    def digest(self, side, inv):
        snap = self.L.replies[-1] if self.L.replies else {"cl": [], "sv": []}
        for d in snap[side]:
            if d[0] == 0 and d[1] == inv:
                return d
        return None


# ---------------------------------------------------------------- the real access point SENDS

class SendRun(Scenario):
    """params: role c|s, m (receiver's max APDU), n, wa (own proposed window), wb (receiver's window),
       own (own max APDU), hostile (permille of adversarial moves), retries"""

    def run(self):
        p = self.params
        role, m, n, wa, wb = p["role"], p["m"], p["n"], p["wa"], p["wb"]
        cfg = T.default_cfg()
        cfg.update(seg=3, window=wa, maxApdu=p.get("own", 1476), maxSegs=None, retries=p.get("retries", 3))
        P = pattern(n, 3 if role == "c" else 4)
        self.P = P
        if role == "c":
            L = T.Lock(cfg, [[0, {"maxApdu": m, "seg": 3, "maxSegs": None, "maxNpdu": None}]])
            self.uh, self.sh, self.ty, self.side = 4, 6, 0, "cl"
        else:
            L = T.Lock(cfg, [])
            self.uh, self.sh, self.ty, self.side = 3, 5, 3, "sv"
        self.L = L
        L.label = "send-%s-%d-%d-%d-%d" % (role, m, n, wa, wb)
        size = m - self.sh
        fits = n + self.uh <= m
        self.size = (m - self.uh) if fits else size
        self.slices = [P] if fits else cut(P, size)
        self.count = len(self.slices)
        self.dig = [(len(s), T.fnv64(s)) for s in self.slices]
        self.cfg = cfg
        # receiver simulation
        self.rx_next = 0          # next index the simulated receiver expects
        self.rx_buf = []
        self.win_start = 0        # index of the last segment the receiver acknowledged
        self.pending = []         # acks generated, not yet delivered
        self.history = []         # every ack ever generated (stale replays)
        self.hi_ack = -1          # highest index acknowledged by an ack DELIVERED to the sender
        self.actual_w = None      # window carried by the last ack delivered
        self.done = False
        if role == "c":
            r = L.request(0, 200, P)
            self.inv = 1
        else:
            self.inv = 7
            L.frame(0, {"t": 0, "id": 7, "svc": 200, "maxResp": CODE[m], "maxSegs": 0, "sa": 1, "hex": "01"})
            r = L.response(0, {"t": 3, "id": 7, "svc": 200, "hex": P.hex()})
        self.after(r, "start")
        if fits:
            frames = [o for o in r["out"] if o["o"] == "send" and o["h"][0] == self.ty]
            if len(frames) != 1 or frames[0]["h"][1]:
                self.fail("unsegmented", "a payload that fits was not sent as one unsegmented APDU")
            return L
        steps = 0
        limit = 40 * self.count + 200
        while not self.done and steps < limit:
            steps += 1
            if self.digest(self.side, self.inv) is None or (
                    role == "c" and self.digest("cl", self.inv)[2] != 1):
                break
            self.move()
        d = self.digest(self.side, self.inv)
        if self.done:
            ok_state = (d is not None and d[2] == 2) if role == "c" else d is None
            if not ok_state:
                self.fail("completion", "last segment acknowledged but the sender is in %r" % (d and d[2],))
            if b"".join(self.rx_buf) != P:
                self.fail("reassembly", "a conforming receiver reassembled %d octets, %d were submitted" % (
                    len(b"".join(self.rx_buf)), len(P)))
            if role == "c":     # finish the transaction
                if self.history and self.ch.flip(400):
                    # the final segment ack arrives once more (duplicate / late) while the client waits for
                    # the confirmation: it must be ignored — in particular it must not shorten the deadline
                    last = {k: v for k, v in self.history[-1].items() if not k.startswith("_")}
                    before = self.digest("cl", self.inv)
                    r = L.frame(0, last)
                    after = self.digest("cl", self.inv)
                    if before is not None and (after is None or after[2] != 2 or r["out"] or
                                               (after[15] or 0) < (before[15] or 0)):
                        self.fail("late-final-ack", "a repeated final segment ack in AWAIT_CONFIRMATION changed the "
                                  "transaction: deadline %r -> %r, outputs %r" % (
                                      before[15], after and after[15], [o["o"] for o in r["out"]]))
                L.frame(0, {"t": 2, "id": self.inv, "svc": 200})
        elif d is not None and steps >= limit:
            self.fail("nontermination", "sender still busy after %d adversary moves" % steps)
        return L

    # what the (simulated, conforming) receiver does with one data frame
    def receive(self, idx, mor):
        W = min(self.cfg["window"], self.params["wb"]) if self.ty == 0 else self.params["wb"]
        W = max(1, W)
        self.W = W
        def ack(nak, i):
            a = {"t": 4, "srv": 1 if self.ty == 0 else 0, "id": self.inv, "seq": i % 256, "win": W, "_abs": i}
            if nak:
                a["nak"] = 1
            self.pending.append(a)
            self.history.append(a)
        if idx != self.rx_next:
            if self.rx_next > 0:
                ack(True, self.rx_next - 1 if self.ty == 3 else self.win_start)
            return
        self.rx_buf.append(self.slices[idx])
        self.rx_next += 1
        if idx == 0 or not mor or idx == self.win_start + W:
            self.win_start = idx
            ack(False, idx)

    def after(self, r, why):
        """oracle on the frames of one step of the REAL sender, then hand them to the receiver"""
        if r is None:
            return
        frames = [o for o in r["out"] if o["o"] == "send" and o["h"][0] == self.ty]
        idxs = []
        for o in frames:
            ty, seg, mor, inv, seq, win = seg_fields(o)
            if self.count == 1:
                continue
            if not seg:
                self.fail("segmentation", "unsegmented data frame inside a segmented transfer (%s)" % why)
                continue
            lo = self.hi_ack + 1
            cand = [i for i in range(seq, self.count, 256) if lo <= i and (o["n"], o["d"]) == self.dig[i]]
            if not cand:
                anyi = [i for i in range(self.count) if (o["n"], o["d"]) == self.dig[i]]
                if not anyi:
                    self.fail("segment-content", "frame seq=%d (%d octets) is no slice of the submitted payload (%s)" % (seq, o["n"], why))
                elif all(i % 256 != seq for i in anyi):
                    self.fail("wire-sequence", "slice %r sent with sequence number %d (%s)" % (anyi, seq, why))
                else:
                    self.fail("window-exceeded", "slice %r sent again although %d is acknowledged (%s)" % (anyi, self.hi_ack, why))
                continue
            i = cand[0]
            idxs.append(i)
            if bool(mor) != (i < self.count - 1):
                self.fail("wire-more-follows", "segment %d of %d has more-follows=%s (%s)" % (i, self.count, mor, why))
            want = self.cfg["window"] if i == 0 else self.actual_w
            if win != want:
                self.fail("wire-window-field", "segment %d carries window %r, expected %r (%s)" % (i, win, want, why))
        if idxs:
            w = 1 if self.hi_ack < 0 else self.actual_w
            if idxs != list(range(self.hi_ack + 1, self.hi_ack + 1 + len(idxs))) or len(idxs) > w:
                self.fail("window-exceeded", "step emitted segments %r; acknowledged up to %d, window %r (%s)" % (
                    idxs, self.hi_ack, w, why))
        for o in r["out"]:
            if o["o"] in ("ind", "conf") and o["h"][0] == 7 and self.hi_ack >= self.count - 1:
                self.fail("completion", "abort after the complete transfer was acknowledged")
        # the medium: drop some data frames, deliver the rest to the receiver
        for o, i in zip([f for f in frames if self.count > 1 and f["h"][1]], idxs):
            if self.ch.flip(self.params.get("hostile", 250) // 3):
                continue                              # lost
            self.receive(i, seg_fields(o)[2])
            if self.ch.flip(self.params.get("hostile", 250) // 6):
                self.receive(i, seg_fields(o)[2])     # duplicated

    def deliver(self, a, why):
        b = {k: v for k, v in a.items() if not k.startswith("_")}
        d = self.digest(self.side, self.inv)
        init = d[8] if d else 0
        r = self.L.frame(0, b)
        if "_abs" in a and a["_abs"] > self.hi_ack:
            self.hi_ack = a["_abs"]
        self.actual_w = b["win"]
        if self.hi_ack >= self.count - 1:
            self.done = True
        self.after(r, why)

    def move(self):
        hostile = self.params.get("hostile", 250)
        ch = self.ch
        if not ch.flip(hostile):
            if self.pending:
                self.deliver(self.pending.pop(0), "ack")
            else:
                self.fire("timeout")
            return
        k = ch.pick(7)
        if k == 0 and self.pending:            # lost ack
            self.pending.pop(0)
        elif k == 1 and self.pending:          # duplicated ack
            a = self.pending.pop(0)
            self.deliver(a, "ack")
            if not self.done:
                self.deliver(a, "dup-ack")
        elif k == 2 and self.history:          # late (stale) ack, not older than 200 segments
            a = ch.choose(self.history[-6:])
            if self.hi_ack - a["_abs"] < 200:
                self.deliver(a, "stale-ack")
        elif k == 3:                           # ack from outside the window: must be ignored
            d = self.digest(self.side, self.inv)
            far = (d[8] + (self.actual_w or self.params["wb"]) + ch.choose([0, 0, 0, 1, 7, 100])) % 256
            a = {"t": 4, "srv": 1 if self.ty == 0 else 0, "id": self.inv, "seq": far,
                 "win": self.actual_w or self.params["wb"]}
            if (far - d[8]) % 256 >= a["win"]:
                self.deliver(a, "outside-ack")
        elif k == 4:                           # the sender's timer
            self.fire("early-timeout")
        elif k == 5 and self.pending:          # acks overtake each other
            self.deliver(self.pending.pop(), "reordered-ack")
        elif k == 6:                           # wrong-side segment ack: addressed to the other table
            self.L.frame(0, {"t": 4, "srv": 0 if self.ty == 0 else 1, "id": self.inv, "seq": 0, "win": 1})

    def fire(self, why):
        rr = self.L.fire_next()
        if rr is None:
            return
        self.after(rr[1], why)


# ---------------------------------------------------------------- the real access point RECEIVES

class RecvRun(Scenario):
    """params: role s|c, size, n, wa (sender's proposed window), wb (own window), hostile,
       tail: list of stale indices delivered after the transfer (stale stream)"""

    def start(self):
        p = self.params
        role, size, n, wa, wb = p["role"], p["size"], p["n"], p["wa"], p["wb"]
        cfg = T.default_cfg()
        cfg.update(seg=3, window=wb, maxApdu=1476, maxSegs=None)
        self.cfg = cfg
        P = pattern(n, 5 if role == "s" else 6)
        self.P = P
        self.slices = cut(P, size)
        self.count = len(self.slices)
        self.pref = fnv_prefixes(P, size)
        if len(self.pref) < self.count:
            self.pref.append((len(P), self.pref[-1][1]))
        L = T.Lock(cfg, [])
        self.L = L
        L.label = "recv-%s-%d-%d-%d-%d" % (role, size, n, wa, wb)
        if role == "s":
            self.inv, self.side, self.ty, self.up = 9, "sv", 0, "ind"
        else:
            self.inv, self.side, self.ty, self.up = 1, "cl", 3, "conf"
            L.request(0, 200, b"q")
        self.k = -1               # index of the last segment accepted in order
        self.delivered = 0        # complete payloads handed to the application
        self.aborted = False
        return L

    def frame_of(self, i, w):
        a = {"t": self.ty, "id": self.inv, "svc": 200, "seg": 1, "mor": 1 if i < self.count - 1 else 0,
             "seq": i % 256, "win": w, "hex": self.slices[i].hex()}
        if self.ty == 0:
            a.update(maxResp=5, maxSegs=0, sa=1)
        return a

    def receiving(self):
        d = self.digest(self.side, self.inv)
        return d is not None and d[2] == (1 if self.ty == 0 else 5)

    def send(self, i, why):
        """deliver genuine segment i; oracle on the real receiver's reaction"""
        was = self.receiving()
        if was and i != self.k + 1 and (i - self.k - 1) % 256 == 0:
            return None       # overtaken by a multiple of 256 segments: outside the property (modulo-256 numbers)
        before = self.digest(self.side, self.inv)
        wa = self.params["wa"]
        r = self.L.frame(0, self.frame_of(i, wa if i == 0 else (before[9] if before and before[9] else wa)))
        self.judge(r, i, was, before, why)
        return r

    def judge(self, r, i, was, before, why):
        outs = r["out"]
        acks = [o for o in outs if o["o"] == "send" and o["h"][0] == 4]
        ups = [o for o in outs if o["o"] == self.up and o["h"][0] == self.ty]
        now = self.digest(self.side, self.inv)
        for o in ups:
            if (o["n"], o["d"]) != (len(self.P), T.fnv64(self.P)):
                self.fail("request-payload" if self.ty == 0 else "response-payload",
                          "the application was handed %d octets (hash differs), %d were submitted (%s, segment %d)" % (
                              o["n"], len(self.P), why, i))
            self.delivered += 1
        if i is None:
            return
        if not was:
            # no receiving transaction: a first segment opens one, anything else must not
            # leave a buffer that is not a prefix (checked below for every event)
            if now is not None and self.rx_state(now):
                if i == 0:
                    self.k = 0
                else:
                    self.fail("stale-segment-opens-transfer",
                              "segment %d of a transfer that is over opened a new reassembly buffer (%s)" % (i, why))
                    self.k = -2
            self.check_buffer(now, why)
            return
        if i == self.k + 1:
            self.k += 1
            if i == self.count - 1:
                if len(ups) != 1:
                    self.fail("completion", "last segment accepted, %d payloads handed to the application" % len(ups))
                if len(acks) != 1 or acks[0]["h"][1] or acks[0]["h"][4] != i % 256:
                    self.fail("final-ack", "last segment answered with %r" % ([a["h"] for a in acks],))
            else:
                if ups:
                    self.fail("completion", "payload handed over at segment %d of %d" % (i, self.count))
                if len(acks) > 1 or (acks and (acks[0]["h"][1] or acks[0]["h"][4] != i % 256)):
                    self.fail("ack", "in-order segment %d answered with %r" % (i, [a["h"] for a in acks]))
        else:
            if ups:
                self.fail("completion", "payload handed over on an out-of-order segment")
            if len(acks) != 1 or not acks[0]["h"][1]:
                self.fail("negative-ack", "out-of-order segment %d (expected %d) answered with %r (%s)" % (
                    i, self.k + 1, [a["h"] for a in acks], why))
            else:
                s = acks[0]["h"][4]
                w = before[9] or 1
                if not any(j % 256 == s for j in range(max(0, self.k - w), self.k + 1)):
                    self.fail("negative-ack", "negative ack names %d, accepted up to %d (%s)" % (s, self.k, why))
        self.check_buffer(now, why)

    def rx_state(self, d):
        return d[2] == (1 if self.ty == 0 else 5)

    def check_buffer(self, now, why):
        if now is None or not self.rx_state(now) or self.failed:
            return
        ctx = now[16]
        if self.k < 0 or ctx is None:
            self.fail("buffer", "receiving transaction without an accounted first segment (%s)" % why)
            return
        ln, h = self.pref[self.k]
        if ctx[3] != ln or ctx[4] != h:
            self.fail("buffer", "reassembly buffer holds %d octets, not the %d octets of segments 0..%d (%s)" % (
                ctx[3], ln, self.k, why))

    def other(self, r, why):
        self.judge(r, None, False, None, why)
        self.check_buffer(self.digest(self.side, self.inv), why)

    def run(self):
        L = self.start()
        p = self.params
        hostile = p.get("hostile", 250)
        ch = self.ch
        r = self.send(0, "first")
        base = 1                   # next index the (simulated) sender transmits
        steps = 0
        limit = 30 * self.count + 100
        while steps < limit and self.receiving() and self.delivered == 0:
            steps += 1
            if self.k + 1 >= self.count:
                self.fail("completion", "all %d segments were delivered in order, nothing was handed to the "
                                        "application" % self.count)
                break
            d = self.digest(self.side, self.inv)
            w = d[9] or 1
            if not ch.flip(hostile):
                self.send(self.k + 1, "next")
                continue
            c = ch.pick(8)
            if c == 0 and self.k >= 0:                         # duplicate of an accepted segment
                j = self.k - ch.pick(min(self.k + 1, 2 * w + 1))
                self.send(j, "duplicate")
            elif c == 1 and self.k + 2 < self.count:           # a later segment overtakes
                j = self.k + 2 + ch.pick(min(w, self.count - self.k - 2))
                if (j - self.k - 1) % 256 != 0:
                    self.send(j, "overtaken")
            elif c == 2:                                       # the first segment again
                self.send(0, "restart")
            elif c == 3 and (self.ty == 3 or (p.get("timeouts", True) and ch.flip(100))):
                # late segment ack of the other direction (a server still receiving aborts on it)
                self.other(L.frame(0, {"t": 4, "srv": 1 if self.ty == 3 else 0, "id": self.inv,
                                       "seq": ch.pick(4), "win": 1 + ch.pick(4)}), "late-ack")
            elif c == 4 and p.get("timeouts", True) and ch.flip(150):   # the receiver's timer: the transfer is given up
                rr = L.fire_next()
                if rr:
                    self.other(rr[1], "timeout")
                    self.aborted = True
            elif c == 5 and self.k >= 1:                       # burst of old duplicates
                for j in range(max(0, self.k - w), self.k + 1):
                    if self.receiving():
                        self.send(j, "burst")
            elif c == 6:                                       # whole window in reverse order
                hi = min(self.count - 1, self.k + w)
                for j in range(hi, self.k, -1):
                    if self.receiving() and self.delivered == 0:
                        self.send(j, "reversed")
            else:
                self.send(self.k + 1, "next")
        if self.delivered == 0 and not self.aborted and self.receiving() and steps >= limit:
            self.fail("nontermination", "receiver still waiting after %d moves" % steps)
        if self.delivered > 1:
            self.fail("completion", "payload handed to the application %d times" % self.delivered)
        self.tail()
        return L

    def tail(self):
        """after the transfer: the application answers, then late duplicates arrive"""
        L = self.L
        if self.ty == 0 and self.digest("sv", self.inv) is not None and self.digest("sv", self.inv)[2] == 3:
            self.other(L.response(0, {"t": 2, "id": self.inv, "svc": 200}), "answer")
        self.k = -1
        for i in self.params.get("tail", []):
            if i < self.count:
                before = self.digest(self.side, self.inv)
                was = before is not None and self.rx_state(before)
                r = L.frame(0, self.frame_of(i, self.params["wa"]))
                self.judge(r, i, was, before, "stale")
        if self.delivered > 1 and not all(x == 0 for x in self.params.get("tail", [])[:1]):
            # a second complete delivery is legitimate only when the late frames restart at segment 0
            pass



class StaleClient(Scenario):
    """the real access point is a CLIENT that has sent all segments of its request and waits for the
    last segment ack (SEGMENTED_REQUEST): late duplicates of the segments of a response (of an earlier
    transaction with the same invoke ID) arrive.  params: tail = indices of the response segments"""

    def run(self):
        p = self.params
        cfg = T.default_cfg()
        cfg.update(seg=3, window=4, maxApdu=50, maxSegs=16)
        L = T.Lock(cfg, [])
        self.L = L
        L.label = "stalec-%s" % "-".join(map(str, p["tail"]))
        R = pattern(45 * 3 - 5, 8)
        slices = cut(R, 45)
        pref = fnv_prefixes(R, 45)
        L.request(0, 200, pattern(80, 7))                                   # 2 segments toward a 50-octet peer
        L.frame(0, {"t": 4, "srv": 1, "id": 1, "seq": 0, "win": 2})         # first ack: the last segment goes out
        k = None                                                            # last response segment accepted in order
        for i in p["tail"]:
            before = self.digest("cl", 1)
            r = L.frame(0, {"t": 3, "id": 1, "svc": 200, "seg": 1, "mor": 1 if i < 2 else 0, "seq": i,
                            "win": 2, "hex": slices[i].hex()})
            for o in r["out"]:
                if o["o"] == "conf" and o["h"][0] == 3 and (o["n"], o["d"]) != (len(R), T.fnv64(R)):
                    self.fail("response-payload", "the application was confirmed %d octets (hash differs) assembled "
                              "from late segments %r; the response has %d" % (o["n"], p["tail"], len(R)))
            now = self.digest("cl", 1)
            if now is not None and now[2] == 5:
                if before is not None and before[2] != 5:
                    k = 0 if i == 0 else None
                    if i != 0:
                        self.fail("stale-segment-opens-transfer", "segment %d of a response opened the reassembly "
                                  "buffer of a client that was still sending its request" % i)
                elif k is not None and i == k + 1:
                    k += 1
                ctx = now[16]
                if not self.failed and (k is None or ctx is None or (ctx[3], ctx[4]) != pref[k]):
                    self.fail("buffer", "reassembly buffer is not the concatenation of segments 0..%r" % k)
        return L


class Reopen(Scenario):
    """KNOWN FINDING C05-reopen-at-256 (transfers of more than 256 segments): sequence numbers are modulo
    256 and nothing marks a first segment, so once the RECEIVER has given up (its 4 x T_seg timer) segment
    256k (sequence number 0) of the same transfer opens a new transaction and the tail is handed to the
    application.  FIFO delivery, no reordering.  params: count, stop (last segment accepted before the
    receiver's timer fires)"""

    def run(self):
        p = self.params
        cfg = T.default_cfg()
        cfg.update(seg=3, window=8, maxApdu=1476, maxSegs=None)
        L = T.Lock(cfg, [])
        self.L = L
        L.label = "reopen-%d-%d" % (p["count"], p["stop"])
        P = pattern(44 * p["count"] - 3, 5)
        sl = cut(P, 44)

        def fr(i):
            return {"t": 0, "id": 9, "svc": 200, "maxResp": 5, "maxSegs": 0, "sa": 1, "seg": 1,
                    "mor": 1 if i < len(sl) - 1 else 0, "seq": i % 256, "win": 8, "hex": sl[i].hex()}
        for i in range(0, p["stop"] + 1):
            L.frame(0, fr(i))
        L.fire_next()                                  # the receiver gives up (4 x T_seg of silence)
        for i in range(p["stop"] + 1, len(sl)):        # the rest of the sender's transmissions, in order
            r = L.frame(0, fr(i))
            for o in r["out"]:
                if o["o"] == "ind" and o["h"][0] == 0 and (o["n"], o["d"]) != (len(P), T.fnv64(P)):
                    self.fail("request-payload", "the application was handed %d octets (the tail from segment "
                              "256 on), %d were submitted: the receiver gave up at segment %d and was re-opened "
                              "by segment 256 (sequence number 0)" % (o["n"], len(P), p["stop"]))
        return L

# ---------------------------------------------------------------- generators

def boundary_lengths(size):
    pts = set()
    for k in range(0, 5):
        for d in (-1, 0, 1, 2):
            v = k * size + d
            if v >= 0:
                pts.add(v)
    return sorted(pts)


def send_specs(ctx, rng):
    out = []
    for m in APDUS:
        for role in ("c", "s"):
            size = m - (6 if role == "c" else 5)
            ls = boundary_lengths(size)
            # the unsegmented/segmented boundary of this role
            ls += [m - (4 if role == "c" else 3) + d for d in (-1, 0, 1)]
            for n in sorted(set(ls)):
                for wa in range(1, 9):
                    for wb in range(1, 9):
                        out.append({"role": role, "m": m, "n": n, "wa": wa, "wb": wb,
                                    "own": rng.choice(APDUS), "hostile": rng.choice([0, 150, 300, 500]),
                                    "count_hint": n // size + 1})
    return out


def recv_specs(ctx, rng):
    out = []
    for m in APDUS:
        for role in ("s", "c"):
            size = m - (6 if role == "s" else 5)
            for n in boundary_lengths(size):
                if n <= size:
                    continue          # one segment: nothing to reassemble (covered by the send stream's peer)
                for wa in range(1, 9):
                    for wb in range(1, 9):
                        out.append({"role": role, "size": size, "n": n, "wa": wa, "wb": wb,
                                    "hostile": rng.choice([0, 200, 400, 600]), "count_hint": n // size + 1,
                                    "tail": [rng.randrange(0, 5) for _ in range(rng.randrange(0, 4))]})
    return out


def long_specs(ctx, rng):
    out = []
    counts = [257, 300] if ctx.quick else [255, 256, 257, 258, 300, 513, 600]
    for c in counts:
        n = 44 * c - 3
        out.append(("send", {"role": "c", "m": 50, "n": n, "wa": 8, "wb": rng.choice([3, 8]), "hostile": 120,
                             "count_hint": c}))
        out.append(("send", {"role": "s", "m": 50, "n": 45 * c - 3, "wa": rng.choice([4, 8]), "wb": 8,
                             "hostile": 120, "count_hint": c}))
        out.append(("recv", {"role": "s", "size": 44, "n": n, "wa": 8, "wb": 8, "hostile": 150, "count_hint": c,
                             "tail": [1, 1], "timeouts": False}))
        out.append(("recv", {"role": "c", "size": 45, "n": 45 * c - 3, "wa": 5, "wb": 8, "hostile": 150,
                             "count_hint": c, "tail": [], "timeouts": False}))
    return out


def stale_specs(ctx):
    """deterministic: complete in-order transfer of 2..4 segments, answered, then every pattern of
    late duplicates of length <= 3 (server role; the client has no transaction left to confuse)"""
    out = []
    for count in (2, 3, 4):
        idx = list(range(count))
        pats = [[a] for a in idx] + [[a, b] for a in idx for b in idx] + \
               [[a, b, c] for a in idx for b in idx for c in idx]
        for t in pats:
            out.append({"role": "s", "size": 44, "n": 44 * count - 5, "wa": 2, "wb": 2, "hostile": 0,
                        "tail": t, "count_hint": count})
    for count in (2, 3):
        for t in ([1], [1, 1], [0, 1], [count - 1, count - 1]):
            out.append({"role": "c", "size": 45, "n": 45 * count - 5, "wa": 2, "wb": 2, "hostile": 0,
                        "tail": t, "count_hint": count})
    return out


def stale_client_specs(ctx):
    idx = [0, 1, 2]
    pats = [[a] for a in idx] + [[a, b] for a in idx for b in idx] + [[a, b, c] for a in idx for b in idx for c in idx]
    return [{"role": "c", "tail": t, "count_hint": 3} for t in pats]


def reopen_specs():
    return [{"role": "s", "count": c, "stop": st, "count_hint": c} for c, st in ((300, 254), (258, 250), (600, 511))]


def run_one(ctx, kind, params, ch):
    cls = {"send": SendRun, "stalec": StaleClient, "reopen": Reopen}.get(kind, RecvRun)
    sc = cls(ctx, kind if kind != "stale" else "stale", params, ch)
    L = sc.run()
    ctx.count(kind + "-scenario", (kind, params["role"], min(params.get("count_hint", 0), 6),
                                   "failed" if sc.failed else "ok"))
    return L


def shard(ctx, spec):
    kind, items = spec
    locks = []
    for label, k2, params in items:
        rng = ctx.sub_rng("c05/%s/%s" % (kind, label))
        locks.append(run_one(ctx, k2, params, Chooser(rng=rng)))
    T.compare(ctx, kind, locks, exe="drv_c05")
    if locks:
        ctx.sample({"stream": kind, "reset": locks[0].reset_line, "first_events": [
            {k: (v if k != "hex" else v[:16] + "...") for k, v in e.items()} for e in locks[0].events[:2]]})


# ---------------------------------------------------------------- end-to-end: late duplicates after the end

def stale_e2e_cases(ctx, rng):
    """complete stacks, two faults: one request segment delayed beyond its retransmission (or the
    whole transaction), a later frame duplicated.  The genuine request decodes (the server
    application is indicated once); whatever else the server assembles from the late frames must
    never reach the decoder: a Reject / second indication proves a request nobody submitted."""
    out = []
    for apdu in ([50, 206] if ctx.quick else APDUS):
        size = apdu - 6
        for nseg in (2, 3, 4):
            clen = size * nseg - 20
            base = {"clen": clen, "slen": 5, "a": IMPL.stack(apdu), "b": IMPL.stack(apdu), "know": False}
            nframes = 2 * nseg + 2
            for i in range(2, nframes):
                for delay in (2.5, 7.0):
                    js = list(range(i + 1, nframes + 3))
                    if ctx.quick:
                        js = rng.sample(js, min(2, len(js)))
                    for j in js:
                        out.append(dict(base, faults={str(i): ["delay", delay], str(j): "dup"}))
    return out


def stale_e2e_shard(ctx, cases):
    from . import e2e_oracle as O
    from . import e2e as E
    for sc in cases:
        res = O.run_scenario(sc)
        rejects = [f for f in res["frames"] if f[1] == 20 and (E.decode_apdu_header(f[3]) or {}).get("type") == 6]
        ctx.count("e2e-stale", ("e2e-stale", sc["a"]["max_apdu"], len(res["ind"]), bool(rejects),
                                tuple(c[1] for c in res["conf"])))
        case = {"stale_e2e": sc}
        if rejects:
            ctx.fail("request-payload", case, "the server assembled a request that does not decode from late genuine "
                     "frames of a %d-octet request (Reject on the wire, frame #%d)" % (sc["clen"], rejects[0][0]),
                     stream="e2e-stale", n_faults=len(sc.get("faults", {})))
        for k, w in O.check_c05(sc, res, None):
            ctx.fail(k, case, w, stream="e2e-stale", n_faults=len(sc.get("faults", {})))



# ---------------------------------------------------------------- wave 5: slow applications, I-Am during a transfer

W5_FAULTS = ["drop", "dup", ["delay", 0.4]]


def run_w5(sc, max_loops=200000):
    """complete stacks (harness/e2e.py) with two things the plain sweeps lack:
       answer : the server APPLICATION answers `answer` seconds after it was handed the request, from a
                later task (not from inside its indication() callback) — timers re-armed by a repaired
                fault are still pending while the transaction waits;
       iam    : [[frame index, "a"|"b", "first"|"same"|"changed"], ...] — while frame #index is on the
                medium that stack's application processes an I-Am of its peer
                (DeviceInfoCache.iam_device_info, e2e.Stack.know);
       know   : {"a": "full"|"addr"|"none", "b": ...} what each side knows of its peer at submit time:
                full = I-Am seen, addr = a record by address only (no device instance, e.g. from
                configuration), none = nothing.
    Returns a result dict in the format of e2e_oracle.run_scenario."""
    from . import e2e as E
    from . import e2e_oracle as O
    faults = {int(k): (tuple(v) if isinstance(v, list) else v) for k, v in sc.get("faults", {}).items()}
    iams = {}
    for idx, who, variant in sc.get("iam", []):
        iams.setdefault(int(idx), []).append((who, variant))
    box = {}

    def teach(st, other, variant):
        if variant == "changed":          # the peer announces a larger maximum APDU than before
            old = other.device.maxApduLengthAccepted
            other.device.maxApduLengthAccepted = 1476 if old != 1476 else 1024
            try:
                st.know(other)
            finally:
                other.device.maxApduLengthAccepted = old
        else:
            st.know(other)

    def policy(i, pdu):
        for who, variant in iams.get(i, []):
            st, other = (box["a"], box["b"]) if who == "a" else (box["b"], box["a"])
            teach(st, other, variant)
        return faults.get(i, "ok")
    net = E.E2ENet(policy=policy)
    a = net.add_stack(10, **sc.get("a", {}))
    b = net.add_stack(20, **sc.get("b", {}))
    box["a"], box["b"] = a, b

    def addr_only(st, other):
        from bacpypes.app import DeviceInfo
        rec = DeviceInfo(None, other.address)
        rec.maxApduLengthAccepted = other.device.maxApduLengthAccepted
        rec.segmentationSupported = other.device.segmentationSupported
        if getattr(other.device, "maxSegmentsAccepted", None) is not None:
            rec.maxSegmentsAccepted = other.device.maxSegmentsAccepted
        st.app.deviceInfoCache.update_device_info(rec)
    kn = sc.get("know", {"a": "full", "b": "full"})
    for st, other, how in ((a, b, kn.get("a", "full")), (b, a, kn.get("b", "full"))):
        if how == "full":
            st.know(other)
        elif how == "addr":
            addr_only(st, other)
    b.server_mode = "ack"
    b.response_payload = O.pattern(sc.get("slen", 0), 1)
    if sc.get("answer"):
        from bacpypes.task import FunctionTask
        serve = b._serve

        def later(apdu, serve=serve):
            FunctionTask(serve, apdu).install_task(delta=sc["answer"])
        b._serve = later
    req_payload = O.pattern(sc["clen"], 2)
    t0 = net.vt.now
    a.send_cpt(b, req_payload)
    ok = net.run(until=net.vt.now + 200.0, max_loops=max_loops)
    quiesced = getattr(net.vt, "quiesced_at", None)
    return {
        "terminated": ok and quiesced is not None,
        "elapsed": (quiesced if quiesced is not None else net.vt.now) - t0,
        "conf": [(round(c[0] - t0, 6), c[1], c[2], c[3]) for c in a.confirmations],
        "ind": [(round(i[0] - t0, 6), i[1], i[2]) for i in b.indications],
        "raised": a.raised, "errors": net.vt.errors[:5],
        "residue": {"a": a.residue(), "b": b.residue(), "heap": len(net.vt.pending())},
        "frames": [(f[0], int(str(f[1])), str(f[2]), f[3], f[4], round((f[5] or t0) - t0, 6)) for f in net.lan.log],
        "req_payload": req_payload, "resp_payload": b.response_payload, "iocb": [],
    }


def judge_w5(ctx, sc, res, expect_ok):
    """exact payload, exactly one outcome, no exception out of the stack, nothing left; with at most one
    fault (and whatever the applications do meanwhile) the outcome is the answer"""
    from . import e2e_oracle as O
    case = {"w5": sc}
    nf = len(sc.get("faults", {}))
    fields = dict(stream="w5", n_faults=nf,
                  segments=max(sc.get("clen", 0), sc.get("slen", 0)) // max(1, sc["a"]["max_apdu"] - 6))
    bad = list(O.check_c05(sc, res, None))
    # the explicit `raise RuntimeError("invalid APDU (n)")` sites of the state machines are modelled
    # behaviour (outputs `raised invalidApdu n`, state unchanged; notes/Tsm.md, Observations): core.run logs
    # them and goes on.  Anything else that escapes a state machine is a failure.
    errs = [e for e in list(res["errors"]) + list(res["raised"])
            if not (e[0] == "RuntimeError" and str(e[1]).startswith("invalid APDU ("))]
    if errs:
        bad.append(("stack-exception", "an exception left the stack: %r" % (errs[:2],)))
    if len(res["conf"]) != 1:
        bad.append(("outcome-count", "the client application was told %d outcomes (%r) for one request" % (
            len(res["conf"]), [(c[1], c[3] if not isinstance(c[3], bytes) else len(c[3])) for c in res["conf"]])))
    r = res["residue"]
    if res["terminated"] and (r["a"]["client"] or r["a"]["server"] or r["b"]["client"] or r["b"]["server"] or r["heap"]):
        bad.append(("residue", "left at quiescence: %r" % (r,)))
    if expect_ok and nf <= 1 and not any(c[1] == "ack" for c in res["conf"]):
        bad.append(("single-fault", "%s turned a transfer that succeeds into %r (server application answers after "
                    "%r s, I-Am %r)" % ("one fault %r" % sc["faults"] if nf else "no fault at all",
                                        [(c[1], c[3] if not isinstance(c[3], bytes) else len(c[3])) for c in res["conf"]],
                                        sc.get("answer"), sc.get("iam"))))
    for k, w in bad[:1]:
        ctx.fail(k, case, w, **fields)
    ctx.count("w5", ("w5", sc["a"]["max_apdu"], bool(sc.get("answer")), tuple(sorted(str(v if isinstance(v, str) else v[0])
              for v in sc.get("faults", {}).values())), tuple((w, v) for _i, w, v in sc.get("iam", [])),
              tuple(sorted(sc.get("know", {}).items())), tuple(c[1] for c in res["conf"])))


def w5_shard(ctx, items):
    for sc in items:
        base = dict(sc)
        if sc.get("_sweep"):
            base.pop("_sweep")
            r0 = run_w5(base)
            judge_w5(ctx, base, r0, True)
            ok0 = any(c[1] == "ack" for c in r0["conf"])
            if sc["_sweep"] == "faults":
                for i in range(len(r0["frames"])):
                    for act in W5_FAULTS:
                        s1 = dict(base, faults={str(i): act})
                        judge_w5(ctx, s1, run_w5(s1), ok0)
            else:                                   # an I-Am at every frame index
                for i in range(len(r0["frames"])):
                    for who, variant in sc["_sweep"]:
                        s1 = dict(base, iam=[[i, who, variant]])
                        judge_w5(ctx, s1, run_w5(s1), ok0)
        else:
            judge_w5(ctx, base, run_w5(base), True)


def w5_cases(ctx, rng):
    out = []
    apdus = [50, 206] if ctx.quick else [50, 128, 206, 480]
    for apdu in apdus:
        size = apdu - 6
        shapes = [(5, 5), (2 * size + 1, 5), (5, 2 * size + 1), (3 * size - 4, 3 * size - 4)]
        # every single fault x a server application that answers later, from another task
        for clen, slen in shapes:
            # the answer must leave room for one retransmission of a response segment before the client's
            # APDU timeout (3 s): answer + T_seg (1.5 s) < 3 s when the response is segmented — otherwise the
            # client's retry of the whole request collides with the response (protocol, not a defect)
            for answer in ((0.5, 2.0) if slen <= size else (0.5, 1.0)):
                out.append({"clen": clen, "slen": slen, "a": IMPL.stack(apdu), "b": IMPL.stack(apdu),
                            "answer": answer, "_sweep": "faults"})
        # an I-Am of the peer processed during the transfer, at every frame index
        for clen, slen in shapes[1:]:
            for kn in ({"a": "addr", "b": "addr"}, {"a": "none", "b": "none"}, {"a": "full", "b": "full"},
                       {"a": "addr", "b": "full"}, {"a": "full", "b": "addr"}):
                variants = [("a", "first"), ("b", "first")] if kn != {"a": "full", "b": "full"} else \
                           [("a", "same"), ("b", "same"), ("a", "changed"), ("b", "changed")]
                out.append({"clen": clen, "slen": slen, "a": IMPL.stack(apdu), "b": IMPL.stack(apdu),
                            "know": kn, "_sweep": variants})
        # both at once, sampled: I-Am + one fault + slow application
        for _ in range(6 if ctx.quick else 40):
            clen, slen = rng.choice(shapes[1:])
            out.append({"clen": clen, "slen": slen, "a": IMPL.stack(apdu), "b": IMPL.stack(apdu),
                        "know": rng.choice([{"a": "addr", "b": "addr"}, {"a": "none", "b": "addr"}]),
                        "answer": rng.choice([None, 0.5, 1.0]),
                        "iam": [[rng.randrange(0, 8), rng.choice("ab"), "first"]],
                        "faults": {str(rng.randrange(0, 10)): rng.choice(W5_FAULTS)}})
    return out


# ---------------------------------------------------------------- wave 6: device-less access points, re-submitted request objects

W6_FAULTS = ["drop", "dup", ["delay", 0.4], ["delay", 2.5]]


def run_w6(sc, max_loops=200000):
    """complete stacks with
       devless : ["a"], ["b"] or ["a","b"] — that side's StateMachineAccessPoint has NO local device object
                 (supported: StateMachineAccessPoint(localDevice=None) uses its own attributes); the limits and
                 timers the device object carried are set on the access point's attributes instead;
       submit  : [len0, len1, ...] — ONE request object is submitted, and when the exchange is over its
                 payload is replaced by one of the next length (equal length = unchanged object) and the SAME
                 object is submitted again;
       faults  : as usual, frame indices count over the whole run."""
    from . import e2e as E
    from . import e2e_oracle as O
    from bacpypes.primitivedata import OctetString
    from bacpypes.constructeddata import Any
    faults = {int(k): (tuple(v) if isinstance(v, list) else v) for k, v in sc.get("faults", {}).items()}
    net = E.E2ENet(policy=lambda i, pdu: faults.get(i, "ok"))
    a = net.add_stack(10, **sc.get("a", {}))
    b = net.add_stack(20, **sc.get("b", {}))
    for who, st in (("a", a), ("b", b)):
        if who in sc.get("devless", []):
            d, m = st.device, st.smap
            m.numberOfApduRetries = d.numberOfApduRetries
            m.apduTimeout = d.apduTimeout
            m.segmentTimeout = d.apduSegmentTimeout
            m.segmentationSupported = d.segmentationSupported
            m.maxSegmentsAccepted = getattr(d, "maxSegmentsAccepted", None)
            m.maxApduLengthAccepted = d.maxApduLengthAccepted
            m.localDevice = None
    if sc.get("know", True):
        a.know(b)
        b.know(a)
    b.server_mode = "ack"
    b.response_payload = O.pattern(sc.get("slen", 0), 1)
    lens = sc.get("submit") or [sc["clen"]]
    t0 = net.vt.now
    req = a.make_cpt(b, O.pattern(lens[0], 2))
    submitted = []
    ok = True
    for k, n in enumerate(lens):
        payload = O.pattern(n, 2 + k)
        if k > 0 or True:
            req.serviceParameters = Any(OctetString(payload))
        submitted.append(payload)
        try:
            a.app.request(req)
        except Exception as e:
            a.raised.append((type(e).__name__, str(e)))
        ok = net.run(until=net.vt.now + 200.0, max_loops=max_loops) and ok
    quiesced = getattr(net.vt, "quiesced_at", None)
    return {
        "terminated": ok and quiesced is not None,
        "elapsed": (quiesced if quiesced is not None else net.vt.now) - t0,
        "conf": [(round(c[0] - t0, 6), c[1], c[2], c[3]) for c in a.confirmations],
        "ind": [(round(i[0] - t0, 6), i[1], i[2]) for i in b.indications],
        "raised": a.raised, "errors": net.vt.errors[:5],
        "residue": {"a": a.residue(), "b": b.residue(), "heap": len(net.vt.pending())},
        "frames": [(f[0], int(str(f[1])), str(f[2]), f[3], f[4], round((f[5] or t0) - t0, 6)) for f in net.lan.log],
        "req_payload": submitted[-1], "resp_payload": b.response_payload, "iocb": [], "submitted": submitted,
    }


def judge_w6(ctx, sc, res, expect_ok):
    from . import e2e_oracle as O
    case = {"w6": sc}
    nf = len(sc.get("faults", {}))
    subs = res["submitted"]
    fields = dict(stream="w6", n_faults=nf,
                  segments=max(max(len(x) for x in subs), sc.get("slen", 0)) // max(1, sc["a"]["max_apdu"] - 6))
    bad = []
    if not res["terminated"]:
        bad.append(("nontermination", "stacks still busy at the horizon"))
    # every indication carries the payload of the submission it belongs to: with no fault the k-th one, in order
    if nf == 0:
        got = [i[2] for i in res["ind"]]
        if got != subs:
            bad.append(("request-payload", "the server application received payloads of %r octets, the client submitted "
                        "%r (the same request object, payload replaced between submissions)" % (
                            [None if g is None else len(g) for g in got], [len(x) for x in subs])))
    else:
        for i in res["ind"]:
            if i[2] not in subs:
                bad.append(("request-payload", "the server application received %r octets that were never submitted" % (
                    None if i[2] is None else len(i[2]),)))
    for c in res["conf"]:
        if c[1] == "ack" and c[3] != res["resp_payload"]:
            bad.append(("response-payload", "client received %r octets, server submitted %d" % (
                None if c[3] is None else len(c[3]), len(res["resp_payload"]))))
    bad += O.wire_checks(res) if len(subs) == 1 else []
    errs = [e for e in list(res["errors"]) + list(res["raised"])
            if not (e[0] == "RuntimeError" and str(e[1]).startswith("invalid APDU ("))]
    if errs:
        bad.append(("stack-exception", "an exception left the stack: %r" % (errs[:2],)))
    if len(res["conf"]) != len(subs):
        bad.append(("outcome-count", "%d submissions, %d outcomes %r" % (len(subs), len(res["conf"]),
                                                                         [c[1] for c in res["conf"]])))
    if expect_ok and nf <= 1 and sum(1 for c in res["conf"] if c[1] == "ack") != len(subs):
        bad.append(("single-fault", "%s turned a transfer that succeeds into %r (access point without a device "
                    "object on %r)" % ("one fault %r" % sc["faults"] if nf else "no fault at all",
                                       [(c[1], c[3] if not isinstance(c[3], bytes) else len(c[3])) for c in res["conf"]],
                                       sc.get("devless", []))))
    for k, w in bad[:1]:
        ctx.fail(k, case, w, **fields)
    ctx.count("w6", ("w6", sc["a"]["max_apdu"], tuple(sc.get("devless", [])), len(subs),
                     tuple(sorted(str(v if isinstance(v, str) else v[0]) for v in sc.get("faults", {}).values())),
                     tuple(c[1] for c in res["conf"])))


def w6_shard(ctx, items):
    for sc in items:
        base = dict(sc)
        sweep = base.pop("_sweep", False)
        r0 = run_w6(base)
        judge_w6(ctx, base, r0, True)
        if sweep:
            ok0 = all(c[1] == "ack" for c in r0["conf"]) and bool(r0["conf"])
            for i in range(len(r0["frames"])):
                for act in W6_FAULTS:
                    s1 = dict(base, faults={str(i): act})
                    judge_w6(ctx, s1, run_w6(s1), ok0)


def w6_cases(ctx, rng):
    out = []
    apdus = [50, 206] if ctx.quick else [50, 128, 206, 480, 1024]
    for apdu in apdus:
        size = apdu - 6
        # access points without a device object: every single fault at every frame index
        for devless in ((["a"], ["b"], ["a", "b"]) if (apdu == 50 or not ctx.quick) else (["a", "b"],)):
            for clen, slen in ((2 * size + 1, 2 * size + 1), (5, 3 * size - 4), (3 * size - 4, 5)):
                for wa, wb in (((2, 2),) if ctx.quick else ((2, 2), (1, 4), (5, 3))):
                    out.append({"clen": clen, "slen": slen, "a": IMPL.stack(apdu, window=wa), "b": IMPL.stack(apdu, window=wb),
                                "devless": devless, "know": (len(devless) == 1), "_sweep": True})
        # one request object, submitted again unchanged and after its payload was replaced
        fit = apdu - 30            # fits one APDU with the service header
        for lens in ([fit, fit], [fit, fit + 30], [fit + 30, fit], [fit, 3 * size], [3 * size, fit], [3 * size, 3 * size + 7],
                     [2 * size + 3, 2 * size - 9, 5], [200, 230], [230, 200]):
            out.append({"submit": lens, "slen": 5, "a": IMPL.stack(apdu), "b": IMPL.stack(apdu), "know": True})
            out.append({"submit": lens, "slen": 2 * size, "a": IMPL.stack(apdu), "b": IMPL.stack(apdu), "know": False,
                        "devless": rng.choice([[], ["a"], ["b"]])})
        out.append({"submit": [fit + 30, fit], "slen": 5, "a": IMPL.stack(apdu), "b": IMPL.stack(apdu), "know": True,
                    "_sweep": True})
    return out

# ---------------------------------------------------------------- corpus / run

def corpus_cases():
    d = os.path.join(core.VERIF, "corpus", "C05")
    out = []
    if os.path.isdir(d):
        for f in sorted(os.listdir(d)):
            if f.endswith(".json"):
                out.append((f, json.load(open(os.path.join(d, f)))))
    return out


def run_case(ctx, case, label):
    if "stale_e2e" in case:
        stale_e2e_shard(ctx, [case["stale_e2e"]])
        return
    if "w5" in case:
        sc = case["w5"]
        judge_w5(ctx, sc, run_w5(sc), True)
        return
    if "w6" in case:
        sc = case["w6"]
        judge_w6(ctx, sc, run_w6(sc), True)
        return
    if "scenario" in case:                      # end-to-end witness
        IMPL.replay_impl(ctx, case)
        return
    if "clen" in case:
        IMPL.replay_impl(ctx, {"scenario": case})
        return
    kind = case["kind"]
    L = run_one(ctx, "recv" if kind == "stale" else kind, case["params"], Chooser(script=case.get("script", [])))
    T.compare(ctx, "corpus" if label.startswith("corpus") else "replay", [L], exe="drv_c05")


def run(ctx):
    for name, c in corpus_cases():
        run_case(ctx, c, "corpus/" + name)
    rng = ctx.sub_rng("c05/grid")
    ss = send_specs(ctx, rng)
    rs = recv_specs(ctx, rng)
    if ctx.quick:
        ss = rng.sample(ss, 450)
        rs = rng.sample(rs, 450)
    # thorough: the complete grids
    specs = []
    for kind, items in (("send", ss), ("recv", rs), ("stale", stale_specs(ctx))):
        k2 = "recv" if kind == "stale" else kind
        lab = [("%d" % i, k2, p) for i, p in enumerate(items)]
        nchunk = 14 if kind != "stale" else 2
        for c in range(nchunk):
            part = lab[c::nchunk]
            if part:
                specs.append((kind, part))
    specs.append(("stale", [("c%d" % i, "stalec", p) for i, p in enumerate(stale_client_specs(ctx))]))
    for i, (k2, p) in enumerate(long_specs(ctx, rng)):
        specs.append(("long", [("%d" % i, k2, p)]))
    specs.append(("reopen", [("%d" % i, "reopen", p) for i, p in enumerate(reopen_specs())]))
    core.run_shards(ctx, "harness.c05", "shard", specs)
    cases = stale_e2e_cases(ctx, ctx.sub_rng("c05/e2e-stale"))
    core.run_shards(ctx, "harness.c05", "stale_e2e_shard", [c for c in (cases[i::16] for i in range(16)) if c])
    w5 = w5_cases(ctx, ctx.sub_rng("c05/w5"))
    core.run_shards(ctx, "harness.c05", "w5_shard", [c for c in (w5[i::16] for i in range(16)) if c])
    w6 = w6_cases(ctx, ctx.sub_rng("c05/w6"))
    core.run_shards(ctx, "harness.c05", "w6_shard", [c for c in (w6[i::16] for i in range(16)) if c])
    IMPL.run_impl(ctx)


def search(ctx):
    """focused search when an obligation / the correspondence is broken: fresh, more hostile scenarios"""
    rng = ctx.sub_rng("c05/search")
    ss = rng.sample(send_specs(ctx, rng), 150)
    rs = rng.sample(recv_specs(ctx, rng), 150)
    for p in ss + rs:
        p["hostile"] = 600
    shard(ctx, ("send", [("s%d" % i, "send", p) for i, p in enumerate(ss)]))
    if not ctx.failures:
        shard(ctx, ("recv", [("s%d" % i, "recv", p) for i, p in enumerate(rs)]))
    if not ctx.failures:
        shard(ctx, ("stale", [("s%d" % i, "recv", p) for i, p in enumerate(stale_specs(ctx))]))
    if not ctx.failures:
        shard(ctx, ("stale", [("c%d" % i, "stalec", p) for i, p in enumerate(stale_client_specs(ctx))]))


def replay(ctx, payload):
    rec = payload.get("failure") or (payload.get("correspondence_disagreements") or [{}])[0]
    case = rec.get("case")
    if isinstance(case, dict) and ("scenario" in case or "clen" in case or "kind" in case or "stale_e2e" in case
                                   or "w5" in case or "w6" in case):
        run_case(ctx, case, "replay")
        return
    if isinstance(case, dict) and "events" in case:
        from . import c11
        L = c11.replay_events(ctx, "replay", case["reset"], case["events"])
        T.compare(ctx, "replay", [L], exe="drv_c05")
        return
    raise core.Infra("nothing to replay")
