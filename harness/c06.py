"""
C06 — routers deliver each packet once to exactly the addressed stations.

Model: lean/BacVerif/Model/Route.lean (driver lean/Drv/C06.lean).

Correspondence streams
  lockstep    : a REAL NetworkServiceAccessPoint + NetworkServiceElement with 1..4
                adapters bound to stub links (harness `Shim`s), optional application
                stub above; random event sequences (frames in, application sends,
                startup / what-is-network-number / network-number-is / timer);
                after every event: frames out per adapter (decoded by the harness's
                own NPCI decoder), APDUs handed upward, exceptions, state digest
                (adapters, pending packets, cache paths, network-number task).
  e2e-node    : the same comparison for EVERY node of every end-to-end scenario
                (each node's event log is replayed through the model driver).
  e2e-history : (oracle) sequences of 4..10 packets on one internetwork whose caches start cold and
                are never reset; every node log of it goes through e2e-node as well.
  e2e-longburst: (oracle) cold caches, bursts of 1..100 packets for one (or two) unknown networks
                handed down before the clock runs; node logs through e2e-node.
  e2e-world   : the STATEFUL simulator Route.runWorld vs the whole real internetwork for single
                packets in any cache state: exact global frame sequence, caches, parked packets.
  e2e-global  : deliveries of the whole internetwork vs `deliverAll` (warm caches and
                global broadcasts; trees and cyclic topologies).
Implementation-side oracle (independent of the model)
  per hop     : no echo on the arrival adapter, hop' + 1 = hop, nothing forwarded at
                hop 0 / without DADR, SADR rule, local delivery iff, source shown.
  end-to-end  : random tree topologies of 2..8 vlan Networks: per-station delivery
                counts (exactly the addressed stations, exactly once), source shown,
                destination shown, reply to the shown source reaches the originator
                once and nobody else; every frame on every LAN read with the
                harness's own decoder: hop count = 255 - routers crossed, SADR names
                the originator, DADR kept until the last leg; cyclic topologies:
                quiescence with a bounded number of frames, hop counts only fall.
"""
import json, os, itertools
from . import core

LEAN_TARGETS = ["BacVerif.Props.C06", "drv_c06"]
LEANCHECKER = ["BacVerif.Props.C06"]
LEVEL = "proof"
RULE = ("lockstep: random nodes (1..4 adapters, nets known/unknown, with/without application, "
        "pre-loaded cache paths) x event sequences of frames drawn from DADR{none,gb,rb,rs} x "
        "SADR{none,foreign,directly-connected} x hop{0,1,2,254,255,random} x message "
        "{application, every registered network message incl. short bodies, unregistered, vendor}; "
        "e2e: random tree internetworks (2..8 networks, 1..3 stations each, routers of 2..4 ports), "
        "every (source, kind, destination) in thorough / a seeded sample in quick, cold / configured / "
        "announced caches, stations binding with / without / learning their network number; "
        "histories: 4..10 packets in a row on one all-cold internetwork without cache reset (lines of >=4 "
        "networks, hubs with several routers on one LAN; several stations addressing the same far station "
        "in turn, replies to the shown source, broadcasts); cyclic topologies (ring, parallel routers, tail) "
        "incl. adversarial caches. distinct = distinct "
        "model branch signatures (lockstep, e2e-node) and (mode, kind, tree shape class) (e2e)")
TRUSTED = ["lean/BacVerif/Model/Route.lean is a hand transcription of NetworkServiceAccessPoint."
           "process_npdu/indication and the NetworkServiceElement handlers; tied by the lockstep, "
           "e2e-node and e2e-global streams",
           "the router cache is abstract in the model ((snet,dnet) -> router): exact for coherent "
           "RouterInfoCache states (C19)",
           "vlan.Network / task manager order frames FIFO; the global simulator is compared as a multiset",
           "the NPCI octet codec itself is C08's subject; here frames are read by the harness's own decoder"]
ASSUMPTIONS = ["settings.route_aware is False",
               "a Network-Number-Is never renumbers an adapter onto the number of another adapter of the same node",
               "a station that does not know its own network number does not address its own network by number "
               "(nobody can answer its Who-Is-Router; BACnet expects What-Is-Network-Number first)",
               "routers of the end-to-end internetworks have no application above the network layer",
               "mixed warm/cold caches (originator warm, a router on the path cold) are outside the quantifier: "
               "the router drops the packet while it discovers the path",
               "tree depth <= 255 routers"]

MACS1 = [bytes([x]) for x in (1, 2, 3, 4, 5, 6, 7, 8, 9, 10, 11, 12, 13, 14, 15, 16, 17, 18, 19, 20)]

# --------------------------------------------------------------------------
# the harness's own NPCI codec (clause 6.2), independent of bacpypes and of Lean


def enc_npdu(n, reserved=0):
    out = bytearray([n.get("version", 1)])
    ctrl = reserved & 0x50
    if n.get("msg") is not None:
        ctrl |= 0x80
    if n.get("dadr") is not None:
        ctrl |= 0x20
    if n.get("sadr") is not None:
        ctrl |= 0x08
    if n.get("er"):
        ctrl |= 0x04
    ctrl |= n.get("prio", 0) & 3
    out.append(ctrl)
    d = n.get("dadr")
    if d is not None:
        if d[0] == "rs":
            mac = bytes.fromhex(d[2])
            out += d[1].to_bytes(2, "big") + bytes([len(mac)]) + mac
        elif d[0] == "rb":
            out += d[1].to_bytes(2, "big") + b"\x00"
        else:
            out += b"\xff\xff\x00"
    s = n.get("sadr")
    if s is not None:
        mac = bytes.fromhex(s[1])
        out += s[0].to_bytes(2, "big") + bytes([len(mac)]) + mac
    if d is not None:
        out.append(n["hop"])
    if n.get("msg") is not None:
        out.append(n["msg"])
        if n["msg"] >= 0x80:
            out += (n.get("vendor") or 0).to_bytes(2, "big")
    out += bytes.fromhex(n.get("data", ""))
    return bytes(out)


class Malformed(Exception):
    pass


def dec_npdu(b):
    b = bytes(b)
    if len(b) < 2 or b[0] != 1:
        raise Malformed("version/length")
    ctrl = b[1]
    i = 2
    n = {"dadr": None, "sadr": None, "hop": None, "msg": None, "vendor": None,
         "er": bool(ctrl & 4), "prio": ctrl & 3}

    def take(k):
        nonlocal i
        if i + k > len(b):
            raise Malformed("short")
        r = b[i:i + k]
        i += k
        return r
    if ctrl & 0x20:
        net = int.from_bytes(take(2), "big")
        ln = take(1)[0]
        mac = take(ln)
        if net == 0xFFFF:
            n["dadr"] = ["gb"]
        elif ln == 0:
            n["dadr"] = ["rb", net]
        else:
            n["dadr"] = ["rs", net, mac.hex()]
    if ctrl & 0x08:
        net = int.from_bytes(take(2), "big")
        ln = take(1)[0]
        mac = take(ln)
        if net == 0xFFFF or ln == 0:
            raise Malformed("sadr")
        n["sadr"] = [net, mac.hex()]
    if ctrl & 0x20:
        n["hop"] = take(1)[0]
    if ctrl & 0x80:
        n["msg"] = take(1)[0]
        if n["msg"] >= 0x80:
            n["vendor"] = int.from_bytes(take(2), "big")
    n["data"] = b[i:].hex()
    return n


# --------------------------------------------------------------------------
# real components between harness stubs


def jaddr(a):
    from bacpypes.pdu import Address
    if a is None:
        return None
    t = a.addrType
    if t == Address.localStationAddr:
        return ["ls", bytes(a.addrAddr).hex()]
    if t == Address.localBroadcastAddr:
        return ["lb"]
    if t == Address.remoteStationAddr:
        return ["rs", a.addrNet, bytes(a.addrAddr).hex()]
    if t == Address.remoteBroadcastAddr:
        return ["rb", a.addrNet]
    if t == Address.globalBroadcastAddr:
        return ["gb"]
    return ["null"]


BOUNDARY_MACS = ["00", "01", "fe", "ff", "000000000000", "ffffffffffff", "0000", "ffff", "0001",
                 "000000", "ffffff", "00000000000000", "ffffffffffffff"]
ADDR_REFUSALS = []      # refusals of LEGAL addresses by the tree under test, drained into ctx.fail


class AddrRefused(Exception):
    """no construction form of a legal station address is accepted"""


def station_forms(net, mac):
    """every form the library offers to build the address of station `mac` (octets, length >= 1) on
    the local network (net None) or on network `net`"""
    from bacpypes.pdu import Address, LocalStation, RemoteStation
    forms = []
    if net is None:
        forms.append(("octets", lambda: LocalStation(mac)))
        if len(mac) == 1:
            forms.append(("int", lambda: LocalStation(mac[0])))
        forms.append(("string", lambda: Address("0x" + mac.hex())))
    else:
        forms.append(("octets", lambda: RemoteStation(net, mac)))
        if len(mac) == 1:
            forms.append(("int", lambda: RemoteStation(net, mac[0])))
        forms.append(("string", lambda: Address("%d:0x%s" % (net, mac.hex()))))
    return forms


def mk_station(net, mac_hex):
    """a station address, built in the first form the tree under test accepts; every refusal of
    a form is recorded (a legal MAC / network number must be accepted in EVERY form)"""
    mac = bytes.fromhex(mac_hex)
    for form, fn in station_forms(net, mac):
        try:
            a = fn()
        except Exception as e:
            ADDR_REFUSALS.append({"form": form, "net": net, "mac": mac_hex, "e": type(e).__name__})
            continue
        if bytes(a.addrAddr) != mac or a.addrNet != net:
            ADDR_REFUSALS.append({"form": form, "net": net, "mac": mac_hex, "e": "wrong-address:%s" % (a,)})
            continue
        return a
    raise AddrRefused("%r:%s" % (net, mac_hex))


def network_refused(net):
    from bacpypes.pdu import RemoteBroadcast
    try:
        RemoteBroadcast(net)
        return False
    except Exception:
        return True


def drain_refusals(ctx):
    """recorded refusals -> property failures, each with the address construction as failing input"""
    seen = ctx.__dict__.setdefault("_c06_refusals", set())
    while ADDR_REFUSALS:
        r = ADDR_REFUSALS.pop()
        key = (r["form"], r["net"], r["mac"])
        if key in seen:
            continue
        seen.add(key)
        case = {"kind": "address", "form": r["form"], "net": r["net"], "mac": r["mac"]}
        if r["net"] is not None and 1 <= r["net"] <= 65534 and network_refused(r["net"]):
            ctx.fail("legal-network-refused", case,
                     "legal network number %d refused by the address classes (%s) -> routed delivery to net %d "
                     "impossible" % (r["net"], r["e"], r["net"]), clause="exactly", net=r["net"])
        else:
            ctx.fail("legal-station-refused", case,
                     "legal station address %s (network %r) refused in its %s form (%s) -> routed traffic of "
                     "that station is lost where the stack builds its address this way"
                     % (r["mac"], r["net"], r["form"], r["e"]), clause="exactly", mac=r["mac"], form=r["form"])


def probe_addresses(ctx, nets, macs):
    """every boundary MAC x network number in every construction form"""
    from bacpypes.pdu import RemoteBroadcast, Address
    for mac_hex in macs:
        mac = bytes.fromhex(mac_hex)
        for net in [None] + list(nets):
            for form, fn in station_forms(net, mac):
                try:
                    a = fn()
                    if bytes(a.addrAddr) != mac or a.addrNet != net:
                        raise ValueError("wrong-address:%s" % (a,))
                except Exception as e:
                    ADDR_REFUSALS.append({"form": form, "net": net, "mac": mac_hex, "e": type(e).__name__})
                ctx.count("address-forms", (form, net is None, len(mac), mac_hex[:2]))
    for net in nets:
        for form, fn in (("class", lambda: RemoteBroadcast(net)), ("string", lambda: Address("%d:*" % net))):
            try:
                fn()
            except Exception as e:
                ADDR_REFUSALS.append({"form": "rb-" + form, "net": net, "mac": "", "e": type(e).__name__})
    drain_refusals(ctx)


def mkaddr(j):
    from bacpypes.pdu import Address, LocalStation, LocalBroadcast, RemoteStation, RemoteBroadcast, GlobalBroadcast
    if j is None:
        return None
    k = j[0]
    if k == "ls":
        return mk_station(None, j[1])
    if k == "lb":
        return LocalBroadcast()
    if k == "rs":
        return mk_station(j[1], j[2])
    if k == "rb":
        return RemoteBroadcast(j[1])
    if k == "gb":
        return GlobalBroadcast()
    return Address()


def jlink(a):
    """link destination: None = local broadcast, else MAC hex"""
    from bacpypes.pdu import Address
    if a is None:
        return "?none"
    if a.addrType == Address.localBroadcastAddr:
        return None
    if a.addrType == Address.localStationAddr:
        return bytes(a.addrAddr).hex()
    return "?" + str(a)


def jnpdu_obj(npdu):
    """a parked NPDU object -> the model's npci rendering"""
    from bacpypes.pdu import Address
    d = npdu.npduDADR
    if d is None:
        dj = None
    elif d.addrType == Address.remoteStationAddr:
        dj = ["rs", d.addrNet, bytes(d.addrAddr).hex()]
    elif d.addrType == Address.remoteBroadcastAddr:
        dj = ["rb", d.addrNet]
    else:
        dj = ["gb"]
    s = npdu.npduSADR
    return {"dadr": dj, "sadr": None if s is None else [s.addrNet, bytes(s.addrAddr).hex()],
            "hop": npdu.npduHopCount if dj is not None else None,
            "msg": npdu.npduNetMessage, "vendor": npdu.npduVendorID,
            "er": bool(npdu.pduExpectingReply), "prio": npdu.pduNetworkPriority,
            "data": bytes(npdu.pduData).hex()}


_classes = {}


def classes():
    """harness stubs (defined lazily: bacpypes must be bound first)"""
    if _classes:
        return _classes
    quiet()
    from bacpypes.comm import Client, Server, bind
    from bacpypes.netservice import NetworkServiceAccessPoint, NetworkServiceElement
    from bacpypes.pdu import PDU

    class NSE(NetworkServiceElement):
        _startup_disabled = True

    class Shim(Client, Server):
        """between a NetworkAdapter (above) and a link (vlan.Node below, or nothing)"""

        def __init__(self, owner, aid):
            Client.__init__(self)
            Server.__init__(self)
            self.owner, self.aid = owner, aid
            self.below = False

        def indication(self, pdu):          # frame going down
            self.owner.outs.append({"k": "send", "aid": self.aid, "dst": jlink(pdu.pduDestination),
                                    "raw": bytes(pdu.pduData).hex()})
            if self.below:
                self.request(pdu)

        def confirmation(self, pdu):        # frame coming up from the LAN
            ev = {"op": "recv", "aid": self.aid, "src": jlink(pdu.pduSource),
                  "dst": jlink(pdu.pduDestination), "raw": bytes(pdu.pduData).hex()}
            self.owner.run_event(ev, lambda: self.response(pdu))

    class AppStub(Client):
        def __init__(self, owner):
            Client.__init__(self)
            self.owner = owner

        def confirmation(self, apdu):
            # the NSAP hands up a decoded APDU: render it as octets again (APCI codec = C07)
            back = PDU()
            apdu.encode(back)
            self.owner.outs.append({"k": "up", "src": jaddr(apdu.pduSource), "dst": jaddr(apdu.pduDestination),
                                    "er": bool(apdu.pduExpectingReply), "prio": apdu.pduNetworkPriority,
                                    "data": bytes(back.pduData).hex()})

    _classes.update(NSE=NSE, Shim=Shim, AppStub=AppStub, bind=bind, PDU=PDU,
                    NSAP=NetworkServiceAccessPoint)
    return _classes


class RealNode:
    """one real network layer: NSAP + NSE (+ application stub), adapters on Shims"""

    def __init__(self, cfg):
        from bacpypes.pdu import LocalStation
        K = classes()
        self.cfg = cfg
        self.nsap = K["NSAP"]()
        self.nse = K["NSE"]()
        K["bind"](self.nse, self.nsap)
        self.app = None
        if cfg["app"]:
            self.app = K["AppStub"](self)
            K["bind"](self.app, self.nsap)
        self.shims = []
        self.adapters = []          # by aid
        self.outs = []
        self.log = []               # [(event, outs, digest)]
        self.in_event = False
        for a in cfg["adapters"]:
            shim = K["Shim"](self, a["aid"])
            addr = mk_station(None, a["addr"]) if a["addr"] is not None else None
            before = set(map(id, self.nsap.adapters.values()))
            self.nsap.bind(shim, a["net"], addr)
            ad = [x for x in self.nsap.adapters.values() if id(x) not in before][0]
            ad._aid = a["aid"]
            self.shims.append(shim)
            self.adapters.append(ad)
        for snet, dnet, mac in cfg.get("cache", []):
            self.nsap.update_router_references(snet, mk_station(None, mac), [dnet])

    def reset_request(self):
        """the driver request that creates the same node"""
        ads = []
        for a in self.cfg["adapters"]:
            ads.append({"aid": a["aid"], "net": a["net"], "addr": a["addr"],
                        "conf": None if a["net"] is None else 1,
                        "lan": a.get("lan", 0), "mac": a.get("mac")})
        return {"op": "reset", "adapters": ads, "local": self.nsap.local_adapter._aid if self.nsap.local_adapter else 0,
                "app": bool(self.cfg["app"]), "cache": self.cfg.get("cache", [])}

    def digest(self):
        n = self.nsap
        ads = [[a._aid, a.adapterNet, None if a.adapterAddr is None else bytes(a.adapterAddr.addrAddr).hex(),
                a.adapterNetConfigured] for a in n.adapters.values()]
        pend = [[dnet, [jnpdu_obj(x) for x in lst]] for dnet, lst in n.pending_nets.items()]
        cache = sorted(([k[0], k[1], bytes(ri.address.addrAddr).hex()]
                        for k, ri in n.router_info_cache.path_info.items()),
                       key=lambda e: (-1 if e[0] is None else e[0], e[1]))
        t = self.nse.network_number_is_task
        return {"adapters": ads, "local": n.local_adapter._aid if n.local_adapter else 0,
                "pending": pend, "cache": cache,
                "nni": [t is not None, bool(t is not None and t.isScheduled)]}

    def run_event(self, ev, fn):
        if self.in_event:
            raise core.Infra("re-entrant event")
        self.in_event = True
        self.outs = []
        try:
            fn()
        except Exception as e:          # escapes from the component
            self.outs.append({"k": "raised", "e": type(e).__name__})
        self.in_event = False
        outs = []
        for o in self.outs:
            if o["k"] == "send":
                try:
                    o = {"k": "send", "aid": o["aid"], "dst": o["dst"], "npci": dec_npdu(bytes.fromhex(o["raw"]))}
                except Malformed as m:
                    o = {"k": "send", "aid": o["aid"], "dst": o["dst"], "undecodable": o["raw"]}
            outs.append(o)
        self.log.append((ev, outs, self.digest()))
        return outs

    # events driven by the harness -----------------------------------
    def recv(self, aid, src, dst, raw):
        from bacpypes.pdu import LocalStation, LocalBroadcast
        pdu = classes()["PDU"](bytes.fromhex(raw), source=mk_station(None, src),
                               destination=LocalBroadcast() if dst is None else mk_station(None, dst))
        self.shims[aid].confirmation(pdu)

    def send(self, dest, er, prio, data):
        # what the layer above hands down: an APCI-carrying PDU whose encode() copies its
        # fields (apdu._APDU); built from the payload octets with the APCI decoder
        from bacpypes.apdu import APDU, _APDU, APCI
        dec = APDU()
        dec.decode(classes()["PDU"](bytes.fromhex(data)))
        pdu = _APDU()
        APCI.update(pdu, dec)
        pdu.pduData = dec.pduData
        ev = {"op": "send", "dest": dest, "er": er, "prio": prio, "data": data}
        try:
            pdu.pduDestination = mkaddr(dest)
        except Exception as e:
            # the address classes of the tree under test refuse this destination: nothing can be
            # handed down; logged as an event whose only output is the refusal (the callers turn the
            # refusal of a LEGAL network number into a property failure)
            self.log.append((ev, [{"k": "refused", "e": type(e).__name__, "dest": dest}], self.digest()))
            return self.log[-1][1]
        pdu.pduExpectingReply = er
        pdu.pduNetworkPriority = prio
        if self.app is not None:
            return self.run_event(ev, lambda: self.app.request(pdu))
        return self.run_event(ev, lambda: self.nsap.indication(pdu))

    def api(self, op):
        fn = {"startup": self.nse.startup, "ask_nn": self.nse.what_is_network_number,
              "announce_nn": self.nse.network_number_is}[op]
        return self.run_event({"op": op}, fn)


def refused(ctx, case, outs):
    """did the address classes refuse the destination of this send?  A legal network number
    (1..65534) must be accepted: report the failing input"""
    for o in outs or []:
        if o.get("k") == "refused":
            d = o["dest"]
            net = d[1] if d[0] in ("rs", "rb") else None
            drain_refusals(ctx)
            if d[0] in ("ls", "rs") and not (net is not None and network_refused(net)):
                ctx.fail("legal-station-refused", case,
                         "no form of the legal station address %r is accepted (%s) -> nothing can be sent to it"
                         % (d, o["e"]), clause="exactly")
            elif net is not None and 1 <= net <= 65534:
                ctx.fail("legal-network-refused", case,
                         "legal network number %d refused by the address classes (%s) -> routed delivery to net %d "
                         "impossible" % (net, o["e"], net), clause="exactly", net=net)
            else:
                ctx.fail("address-refused", case, "destination %r refused (%s)" % (d, o["e"]))
            return True
    return False


def model_event(ev):
    """event as logged on the real side -> driver request"""
    if ev["op"] == "recv":
        return {"op": "recv", "aid": ev["aid"], "src": ev["src"], "dst": ev["dst"],
                "npci": dec_npdu(bytes.fromhex(ev["raw"]))}
    return ev


def norm_model(rep):
    """canonicalise a driver reply for comparison"""
    if "digest" in rep:
        d = rep["digest"]
        d["cache"] = sorted(d["cache"], key=lambda e: (-1 if e[0] is None else e[0], e[1]))
        d["nni"] = [d["nni"][0] is not None, d["nni"][1]]
    return rep


def compare_logs(ctx, stream, nodes, tag):
    """replay the event log of every real node through the model driver and compare"""
    reqs, cases, impl = [], [], []
    for idx, node in enumerate(nodes):
        if not node.log:
            continue
        reqs.append(node.reset_request())
        cases.append({"tag": tag, "node": idx, "reset": reqs[-1]})
        impl.append(None)
        for ev, outs, dig in node.log:
            reqs.append(model_event(ev))
            cases.append({"tag": tag, "node": idx, "ev": ev})
            impl.append({"out": outs, "digest": dig})
    if not reqs:
        return
    if not ctx.model_ok:
        ctx.count(stream, n=len(reqs))
        return
    # queued: one driver process per shard answers everything (flush_model)
    q = ctx.__dict__.setdefault("_c06_queue", [])
    q.append(("node", stream, reqs, cases, impl))


def flush_model(ctx):
    """send every queued model request in ONE batch and compare"""
    q = ctx.__dict__.pop("_c06_queue", [])
    if not q:
        return
    allreq = []
    for item in q:
        allreq.extend(item[2])
    reps = core.Driver("drv_c06").ask(allreq)
    pos = 0
    for kind, stream, reqs, cases, impl in q:
        mine = reps[pos:pos + len(reqs)]
        pos += len(reqs)
        if kind == "node":
            c2, a2, b2 = [], [], []
            for c, a, b in zip(cases, impl, mine):
                if a is None:
                    continue
                c2.append(c); a2.append(a); b2.append(norm_model(b))
            ctx.compare_stream(stream, c2, a2, b2)
        elif kind == "world":
            m = mine[0]
            model = {"frames": m["frames"], "left": m["left"],
                     "caches": [sorted(c, key=lambda e: (-1 if e[0] is None else e[0], e[1])) for c in m["caches"]],
                     "pending": m["pending"]}
            kd = cases[0]["send"][1][0]
            ctx.compare_stream(stream, cases, impl, [model],
                               sig=lambda c, mm: (kd, c.get("cache_mode"), bool(c.get("history")), min(len(mm["frames"]), 12)))
        else:
            tag, kindd = cases[0]["tag"], cases[0]["dest"][0]
            model = sorted(core.canon({"lan": d["lan"], "mac": d["mac"], "src": d["src"], "dst": d["dst"],
                                       "data": d["data"]}) for d in mine[0]["deliveries"])
            ctx.compare_stream(stream, cases, impl, [{"deliveries": model}],
                               sig=lambda c, m: (tag, kindd, min(len(m["deliveries"]), 6)))


# --------------------------------------------------------------------------
# per-hop oracle on the implementation (application-layer frames)


def hop_oracle(ctx, scenario, node, ev, outs, pre):
    """pre = digest before the event"""
    if ev["op"] != "recv":
        return
    try:
        p = dec_npdu(bytes.fromhex(ev["raw"]))
    except Malformed:
        return
    if p["msg"] is not None:
        return
    case = {"kind": "lockstep", "scenario": scenario, "event": ev}
    ads = {a[0]: a for a in pre["adapters"]}
    arr = ads.get(ev["aid"])
    if arr is None:
        return
    loc = ads.get(pre["local"])
    nets = [a[1] for a in pre["adapters"]]
    sends = [o for o in outs if o["k"] == "send" and "npci" in o and o["npci"]["msg"] is None]
    ups = [o for o in outs if o["k"] == "up"]
    raised = [o for o in outs if o["k"] == "raised"]
    d = p["dadr"]
    for o in sends:
        q = o["npci"]
        if o["aid"] == ev["aid"]:
            ctx.fail("no-echo", case, "forwarded back onto the arrival adapter %d" % ev["aid"], clause="no_echo")
        if d is None:
            ctx.fail("local-stays-local", case, "a frame without DADR was forwarded", clause="local_stays_local")
            continue
        if p["hop"] == 0:
            ctx.fail("hop-exhausted", case, "forwarded although the hop count was 0", clause="hop_decrement")
        if q["dadr"] is not None and q["hop"] + 1 != p["hop"]:
            ctx.fail("hop-decrement", case, "hop %r -> %r" % (p["hop"], q["hop"]), clause="hop_decrement")
        want = p["sadr"] if p["sadr"] is not None else [arr[1], ev["src"]]
        if q["sadr"] != want:
            ctx.fail("sadr-rule", case, "forwarded SADR %r, expected %r" % (q["sadr"], want), clause="sadr_rule")
        if q["data"] != p["data"]:
            ctx.fail("payload", case, "payload changed while forwarding", clause="payload")
    if len(pre["adapters"]) == 1 and sends:
        ctx.fail("non-router-forwards", case, "a single-adapter node forwarded", clause="no_echo")
    if raised:
        return
    # local delivery iff
    spoof = p["sadr"] is not None and p["sadr"][0] in nets
    if d is None:
        want_up = ev["aid"] == pre["local"]
    elif d[0] == "gb":
        want_up = True
    elif d[0] == "rb":
        want_up = d[1] != arr[1] and loc is not None and d[1] == loc[1]
    else:
        want_up = d[1] != arr[1] and loc is not None and d[1] == loc[1] and d[2] == loc[2]
    want_up = want_up and not spoof and scenario["cfg"]["app"]
    if bool(ups) != want_up or len(ups) > 1:
        ctx.fail("local-delivery", case, "delivered upward %d times, expected %d" % (len(ups), int(want_up)),
                 clause="local_delivery_iff")
    for u in ups:
        lifted = len(pre["adapters"]) > 1 and ev["aid"] != pre["local"]
        if p["sadr"] is not None:
            want = ["rs", p["sadr"][0], p["sadr"][1]]
        elif lifted:
            want = ["rs", arr[1], ev["src"]]
        else:
            want = ["ls", ev["src"]]
        if u["src"] != want:
            ctx.fail("source-shown", case, "source shown %r, expected %r" % (u["src"], want), clause="source_shown")
        if u["data"] != p["data"]:
            ctx.fail("payload", case, "payload changed on delivery", clause="payload")


# --------------------------------------------------------------------------
# lockstep generator

NETPOOL = [1, 2, 3, 4, 5, 7, 255, 256, 300, 65533, 65534]
BOUNDARY_NETS = [1, 2, 255, 256, 65533, 65534]


def gen_node_cfg(rng):
    k = rng.choice([1, 1, 2, 2, 3, 4])
    nets = rng.sample(NETPOOL, k)
    ads = []
    for i in range(k):
        net = nets[i]
        r0 = rng.random()
        addr = (rng.choice(BOUNDARY_MACS) if r0 < 0.2 else rng.choice(MACS1[:6]).hex() if r0 < 0.92
                else bytes(rng.getrandbits(8) for _ in range(6)).hex())
        r = rng.random()
        if k == 1 and r < 0.35:
            net, addr = None, None            # nsap.bind(server)
        elif r < 0.45 and i == 0:
            net = None                        # bind(server, None, address)
        elif r < 0.5:
            addr = None                       # bind(server, net)
        ads.append({"aid": i, "net": net, "addr": addr})
    if k >= 2:
        r = rng.random()
        if r < 0.15:                          # a router bound the documented way: no addresses at all
            for a in ads:
                a["addr"] = None
        elif r < 0.25:                        # mixed: first port without, others with
            ads[0]["addr"] = None
    cache = []
    for a in ads:
        for _ in range(rng.choice([0, 0, 1, 2, 3])):
            dn = rng.choice([n for n in NETPOOL + [9, 10, 11] if n not in nets])
            cache.append([a["net"], dn, rng.choice(MACS1[6:12]).hex()])
    # keep the last binding of a (snet, dnet): the real cache keeps one router per path
    seen, out = set(), []
    for e in reversed(cache):
        if (e[0], e[1]) not in seen:
            seen.add((e[0], e[1])); out.append(e)
    return {"adapters": ads, "app": rng.random() < 0.7 or k == 1, "cache": list(reversed(out))}


def gen_frame(rng, cfg, known):
    ads = cfg["adapters"]
    a = rng.choice(ads)
    own_nets = [x["net"] for x in ads if x["net"] is not None]
    far = [9, 10, 11] + [n for n in NETPOOL if n not in own_nets]
    cached = [e[1] for e in cfg.get("cache", [])]

    def anynet():
        r = rng.random()
        if r < 0.35 and own_nets:
            return rng.choice(own_nets)
        if r < 0.65 and cached:
            return rng.choice(cached)
        return rng.choice(far)

    def anymac():
        r = rng.random()
        own = [x["addr"] for x in ads if x["addr"] is not None]
        if r < 0.4 and own:
            return rng.choice(own)
        if r < 0.55:
            return rng.choice(BOUNDARY_MACS)
        if r < 0.9:
            return rng.choice(MACS1[:8]).hex()
        return bytes(rng.getrandbits(8) for _ in range(rng.choice([2, 6]))).hex()
    n = {"dadr": None, "sadr": None, "hop": None, "msg": None, "vendor": None,
         "er": rng.random() < 0.3, "prio": rng.choice([0, 0, 1, 2, 3]), "data": ""}
    r = rng.random()
    if r < 0.25:
        pass
    elif r < 0.45:
        n["dadr"] = ["gb"]
    elif r < 0.7:
        n["dadr"] = ["rb", anynet()]
    else:
        n["dadr"] = ["rs", anynet(), anymac()]
    if n["dadr"] is not None:
        n["hop"] = rng.choice([0, 1, 2, 254, 255, rng.randrange(256)])
    r = rng.random()
    if r < 0.45:
        n["sadr"] = [rng.choice(far), anymac()]
    elif r < 0.55 and own_nets:
        n["sadr"] = [rng.choice(own_nets), anymac()]         # spoof
    r = rng.random()
    if r < 0.55:
        n["data"] = bytes([0x10, 8] + [rng.getrandbits(8) for _ in range(rng.choice([0, 1, 4]))]).hex()
    else:
        t = rng.choice([0, 0, 0, 1, 1, 1, 18, 19, 19] + list(known) + [10, 0x80, 0xff])
        n["msg"] = t
        if t >= 0x80:
            n["vendor"] = rng.choice([0, 999])
        nets = [anynet() for _ in range(rng.choice([0, 1, 1, 2, 3]))]
        if t == 0:
            body = b"" if rng.random() < 0.25 else anynet().to_bytes(2, "big")
        elif t in (1, 4, 5):
            body = b"".join(x.to_bytes(2, "big") for x in nets)
        elif t == 19:
            body = anynet().to_bytes(2, "big") + bytes([rng.choice([0, 1])])
        elif t in (2, 3, 8):
            body = bytes([rng.getrandbits(8) for _ in range(3)])
        elif t == 9:
            body = anynet().to_bytes(2, "big")
        elif t in (6, 7):
            k = rng.choice([0, 1, 2])
            body = bytes([k])
            for _ in range(k):
                info = bytes(rng.getrandbits(8) for _ in range(rng.choice([0, 2])))
                body += anynet().to_bytes(2, "big") + bytes([1, len(info)]) + info
        else:
            body = bytes(rng.getrandbits(8) for _ in range(rng.choice([0, 2])))
        if rng.random() < 0.12 and body:
            body = body[:-1]                                  # short body
        elif rng.random() < 0.05:
            body += b"\x00"
        n["data"] = body.hex()
    src = anymac()
    dst = None if rng.random() < 0.5 else (a["addr"] if a["addr"] is not None and rng.random() < 0.8 else anymac())
    return {"op": "recv", "aid": a["aid"], "src": src, "dst": dst,
            "raw": enc_npdu(n, reserved=rng.choice([0, 0, 0, 0x40, 0x10])).hex()}


def gen_send(rng, cfg):
    own_nets = [x["net"] for x in cfg["adapters"] if x["net"] is not None]
    far = [9, 10, 11] + [e[1] for e in cfg.get("cache", [])] + [n for n in NETPOOL if n not in own_nets]
    r = rng.random()
    net = rng.choice(own_nets) if (own_nets and rng.random() < 0.25) else rng.choice(far)
    if r < 0.15:
        dest = ["ls", rng.choice(MACS1[:8]).hex()]
    elif r < 0.25:
        dest = ["lb"]
    elif r < 0.4:
        dest = ["gb"]
    elif r < 0.65:
        dest = ["rb", net]
    elif r < 0.97:
        dest = ["rs", net, rng.choice(MACS1[:8]).hex()]
    else:
        dest = ["null"]
    return {"op": "send", "dest": dest, "er": rng.random() < 0.3, "prio": rng.choice([0, 1, 3]),
            "data": bytes([0x10, 8, rng.getrandbits(8)]).hex()}


def nni_collides(node, ev):
    """would this frame renumber an adapter onto the number of another adapter?"""
    try:
        p = dec_npdu(bytes.fromhex(ev["raw"]))
    except Malformed:
        return False
    if p["msg"] != 19 or len(p["data"]) < 6:
        return False
    net = int(p["data"][:4], 16)
    return any(a.adapterNet == net and a._aid != ev["aid"] for a in node.adapters)


def run_lockstep_scenario(ctx, vt, scenario, oracle=True):
    vt.reset()
    node = RealNode(scenario["cfg"])
    for ev in scenario["events"]:
        pre = node.digest()
        if ev["op"] == "recv":
            try:
                dec_npdu(bytes.fromhex(ev["raw"]))
            except Malformed:
                continue
            if nni_collides(node, ev):
                continue
            node.recv(ev["aid"], ev["src"], ev["dst"], ev["raw"])
        elif ev["op"] == "send":
            outs = node.send(ev["dest"], ev["er"], ev["prio"], ev["data"])
            if refused(ctx, {"kind": "lockstep", "scenario": scenario, "event": ev}, outs):
                continue
        elif ev["op"] == "fire":
            node.run_event({"op": "fire"}, lambda: vt.advance(20000.0))
        else:
            node.api(ev["op"])
        if oracle:
            e, outs, _ = node.log[-1]
            hop_oracle(ctx, scenario, node, e, outs, pre)
    if vt.errors:
        ctx.fail("task-exception", {"kind": "lockstep", "scenario": scenario}, "exception inside a task: %r" % (vt.errors[:2],))
    return node


def gen_parked(rng, cfg):
    """directed: park 1..3 packets for a far network, then the I-Am-Router that releases them"""
    own = [x["net"] for x in cfg["adapters"] if x["net"] is not None]
    cached = {e[1] for e in cfg.get("cache", [])}
    dn = rng.choice([n for n in (9, 10, 11, 12, 13) if n not in own and n not in cached])
    evs = []
    for i in range(rng.choice([1, 2, 3, 1, 2, 3, 16, 17, 40])):
        dest = ["rs", dn, rng.choice(MACS1[:8]).hex()] if rng.random() < 0.6 else ["rb", dn]
        evs.append({"op": "send", "dest": dest, "er": False, "prio": 0, "data": bytes([0x10, 8, i]).hex()})
    a = rng.choice(cfg["adapters"])
    nets = [dn] + ([rng.choice([20, 21])] if rng.random() < 0.3 else [])
    rng.shuffle(nets)
    n = {"dadr": None, "sadr": None, "hop": None, "msg": 1, "vendor": None, "er": False, "prio": 0,
         "data": b"".join(x.to_bytes(2, "big") for x in nets).hex()}
    evs.append({"op": "recv", "aid": a["aid"], "src": rng.choice(MACS1[8:12]).hex(),
                "dst": None if rng.random() < 0.5 else (a["addr"] or "01"), "raw": enc_npdu(n).hex()})
    return evs


def gen_lockstep(ctx, rng, known):
    cfg = gen_node_cfg(rng)
    events = []
    if rng.random() < 0.25:
        events += gen_parked(rng, cfg)
    for _ in range(rng.choice([6, 10, 16])):
        r = rng.random()
        if r < 0.72:
            events.append(gen_frame(rng, cfg, known))
        elif r < 0.9:
            events.append(gen_send(rng, cfg))
        else:
            events.append({"op": rng.choice(["startup", "ask_nn", "announce_nn", "fire"])})
    return {"cfg": cfg, "events": events}


def shard_lockstep(ctx, spec):
    from .vt import VT
    vt = VT.install()
    known = live_known_types()
    rng = ctx.sub_rng("lockstep/%d" % spec["shard"])
    nodes, tags = [], []
    for i in range(spec["n"]):
        sc = gen_lockstep(ctx, rng, known)
        try:
            node = run_lockstep_scenario(ctx, vt, sc)
        except AddrRefused:
            drain_refusals(ctx)          # a legal address nobody can build: reported, scenario skipped
            continue
        drain_refusals(ctx)
        # carry the scenario so that a disagreement is replayable
        for j, (ev, outs, dig) in enumerate(node.log):
            pass
        node.scenario = sc
        nodes.append(node)
        if i < 1 and spec["shard"] == 0:
            ctx.sample({"stream": "lockstep", "cfg": sc["cfg"], "first_events": sc["events"][:2]})
    compare_logs_with_scenarios(ctx, "lockstep", nodes)


def compare_logs_with_scenarios(ctx, stream, nodes):
    reqs, meta, impl = [], [], []
    for idx, node in enumerate(nodes):
        if not node.log:
            continue
        reqs.append(node.reset_request()); meta.append(None); impl.append(None)
        for k, (ev, outs, dig) in enumerate(node.log):
            reqs.append(model_event(ev))
            meta.append({"kind": "lockstep", "scenario": getattr(node, "scenario", None), "step": k, "ev": ev})
            impl.append({"out": outs, "digest": dig})
    if not reqs:
        return
    if not ctx.model_ok:
        ctx.count(stream, n=len(reqs))
        return
    reps = [norm_model(r) for r in core.Driver("drv_c06").ask(reqs)]
    c2, a2, b2 = [], [], []
    for c, a, b in zip(meta, impl, reps):
        if a is None:
            continue
        c2.append(c); a2.append(a); b2.append(b)
    ctx.compare_stream(stream, c2, a2, b2)


def live_known_types():
    from bacpypes.npdu import npdu_types
    return sorted(npdu_types)


# --------------------------------------------------------------------------
# end-to-end: internetworks of real stacks over vlan.Network


def gen_tree(rng, nn=None, shape="random"):
    """random tree-shaped internetwork: {nets:[n..], routers:[[(net,mac)..]..], stations:[(net,mac,mode)]}
    shape: "random" | "line" (two-port routers in a row) | "hub" (2..3 routers on the first LAN,
    lines behind them)"""
    nn = nn or rng.randrange(2, 9)
    pool = list(range(3, 40)) + [100, 4000]
    nets = rng.sample(pool, nn)
    # boundary network numbers are used routinely: most internetworks contain 1..3 of them
    if rng.random() < 0.8:
        for pos, b in zip(rng.sample(range(nn), min(nn, rng.choice([1, 2, 3]))),
                          rng.sample(BOUNDARY_NETS, 3)):
            nets[pos] = b
    used = {n: set() for n in nets}

    def newmac(net):
        # boundary station addresses are routine: MAC 0, 1, 254, 255, all-zero / all-ones of 2, 3, 6
        # and 7 octets - for stations and for the routers' own ports
        while True:
            r = rng.random()
            if r < 0.3:
                m = bytes.fromhex(rng.choice(BOUNDARY_MACS))
            elif r < 0.85:
                m = bytes([rng.randrange(0, 256)])
            else:
                m = bytes(rng.getrandbits(8) for _ in range(rng.choice([2, 3, 6, 6, 7])))
            if m not in used[net]:
                used[net].add(m)
                return m.hex()
    connected, rest = [nets[0]], nets[1:]
    rng.shuffle(rest)
    routers = []
    hub_left = rng.choice([2, 3]) if shape == "hub" else 0
    while rest:
        if shape == "line":
            k, up = 2, connected[-1]
        elif hub_left:
            k, up = 2, nets[0]
            hub_left -= 1
        elif shape == "hub":
            k = min(rng.choice([2, 2, 3]), len(rest) + 1)
            up = rng.choice(connected[1:])
        else:
            k = min(rng.choice([2, 2, 3, 4]), len(rest) + 1)
            up = rng.choice(connected)
        downs = [rest.pop() for _ in range(k - 1)]
        ports = [(up, newmac(up))] + [(d, newmac(d)) for d in downs]
        rng.shuffle(ports)
        routers.append(ports)
        connected += downs
    stations = []
    for n in nets:
        for _ in range(rng.randrange(1, 4)):
            stations.append((n, newmac(n), rng.choice(["known", "known", "unknown", "addronly"])))
    modes = [rng.choice(["all"] * 7 + ["none", "none", "first-none"]) for _ in routers]
    return {"nets": nets, "routers": routers, "stations": stations, "router_modes": modes}


def gen_ring(rng):
    """cyclic internetwork without branching (so that the number of copies stays linear in the
    hop count): a ring of 3..4 networks joined by two-port routers, or two parallel two-port
    routers between the same two networks; optionally with a TAIL network attached to the ring by
    one more router.  Only traffic from the tail really circles until the hop count is spent: a
    packet that comes back to a router adjacent to its source network is dropped there by the
    "path error (1)" check (SADR names a directly connected network)."""
    k = rng.choice([2, 3, 3, 4])
    tail = rng.random() < 0.6
    nets = rng.sample(range(1, 30), k + (1 if tail else 0))
    ring = nets[:k]
    used = {n: set() for n in nets}

    def newmac(net):
        while True:
            m = bytes.fromhex(rng.choice(BOUNDARY_MACS)) if rng.random() < 0.3 else bytes([rng.randrange(0, 256)])
            if m not in used[net]:
                used[net].add(m)
                return m.hex()
    routers = []
    if k == 2:
        for _ in range(2):
            routers.append([(ring[0], newmac(ring[0])), (ring[1], newmac(ring[1]))])
    else:
        for i in range(k):
            a, b = ring[i], ring[(i + 1) % k]
            ports = [(a, newmac(a)), (b, newmac(b))]
            rng.shuffle(ports)
            routers.append(ports)
    stations = []
    if tail:
        t = nets[k]
        ports = [(t, newmac(t)), (ring[0], newmac(ring[0]))]
        rng.shuffle(ports)
        routers.append(ports)
        stations.append((t, newmac(t), rng.choice(["known", "unknown"])))      # station 0: on the tail
    for n in nets:
        for _ in range(rng.randrange(1, 3)):
            stations.append((n, newmac(n), rng.choice(["known", "unknown"])))
    return {"nets": nets, "routers": routers, "stations": stations, "tail": tail}


class World:
    """real stacks for one internetwork"""

    def __init__(self, spec, cache_mode, vt, caches=None):
        from bacpypes.vlan import Network, Node
        from bacpypes.pdu import LocalBroadcast, LocalStation
        K = classes()
        self.spec, self.vt = spec, vt
        self.frames = []                  # (lan, src, dst, raw)
        self.lans = {}
        for n in spec["nets"]:
            lan = Network(name=str(n), broadcast_address=LocalBroadcast())
            lan.traffic_log = self._traffic
            self.lans[n] = lan
        self.nodes = []                   # RealNode, stations first then routers
        self.station_idx = {}
        self.ports = []                   # per node: [(lan, mac)]
        tables = caches if caches is not None else (route_tables(spec) if cache_mode == "config" else None)
        for si, (net, mac, mode) in enumerate(spec["stations"]):
            if mode == "known":
                a = {"aid": 0, "net": net, "addr": mac}
            elif mode == "addronly":
                a = {"aid": 0, "net": None, "addr": mac}
            else:
                a = {"aid": 0, "net": None, "addr": None}
            a.update(lan=net, mac=mac)
            cfg = {"adapters": [a], "app": True, "cache": []}
            if tables is not None:
                cfg["cache"] = [[a["net"], d, m] for (d, m) in tables[("s", si)].get(0, [])]
            self._mk(cfg, [(net, mac)])
            self.station_idx[(net, mac)] = len(self.nodes) - 1
        for ri, ports in enumerate(spec["routers"]):
            # how the router binds its ports: "all" = bind(node, net, address) for every port;
            # "none" = the documented router way bind(node, net) WITHOUT addresses; "first-none" = mixed
            mode = (spec.get("router_modes") or [])[ri:ri + 1]
            mode = mode[0] if mode else "all"
            ads = [{"aid": i, "net": n, "lan": n, "mac": m,
                    "addr": None if (mode == "none" or (mode == "first-none" and i == 0)) else m}
                   for i, (n, m) in enumerate(ports)]
            cfg = {"adapters": ads, "app": False, "cache": []}
            if tables is not None:
                for i, (n, m) in enumerate(ports):
                    cfg["cache"] += [[n, d, mm] for (d, mm) in tables[("r", ri)].get(i, [])]
            self._mk(cfg, list(ports))
        self.cache_mode = cache_mode

    def _mk(self, cfg, ports):
        from bacpypes.vlan import Node
        from bacpypes.pdu import LocalStation
        K = classes()
        node = RealNode(cfg)
        for shim, (lan, mac) in zip(node.shims, ports):
            vnode = Node(mk_station(None, mac), self.lans[lan])
            K["bind"](shim, vnode)
            shim.below = True
        self.nodes.append(node)
        self.ports.append(ports)

    def _traffic(self, name, pdu):
        self.frames.append((int(name), jlink(pdu.pduSource), jlink(pdu.pduDestination), bytes(pdu.pduData).hex()))

    def settle(self, max_loops=60000):
        ok = self.vt.run(max_loops=max_loops)
        return ok

    def prepare(self):
        """bring the caches / network numbers into the state the scenario asks for"""
        if self.cache_mode == "announce":
            for node in self.nodes:
                if len(node.adapters) > 1:
                    node.api("startup")
            self.settle()
        learn = [n for n in self.nodes if n.cfg.get("learn")]
        self.frames = []

    def learn_numbers(self):
        """stations without a number ask What-Is-Network-Number; routers answer"""
        for node in self.nodes:
            if len(node.adapters) == 1 and node.adapters[0].adapterNet is None:
                node.api("ask_nn")
        self.settle()
        self.frames = []

    def topo_request(self):
        """the internetwork as the driver's `topo` (current adapters, configured caches)"""
        topo = []
        for node in self.nodes:
            r = node.reset_request()
            # current state rather than the initial one (numbers may have been learned)
            d = node.digest()
            byaid = {a["aid"]: a for a in r["adapters"]}
            ads = []
            for aid, net, addr, conf in d["adapters"]:
                a = dict(byaid[aid]); a.update(net=net, addr=addr, conf=conf)
                ads.append(a)
            topo.append({"adapters": ads, "local": d["local"], "app": r["app"], "cache": d["cache"]})
        return topo


def tree_adj(spec):
    """LAN graph: for each LAN the routers on it; path helper"""
    on = {n: [] for n in spec["nets"]}
    for ri, ports in enumerate(spec["routers"]):
        for pi, (n, m) in enumerate(ports):
            on[n].append((ri, pi, m))
    return on


def next_hops(spec):
    """first[(lan, dnet)] = (router index, port index on lan, mac) of the first router on the
    unique path lan -> dnet (trees only); dist[(lan, dnet)] = routers crossed"""
    on = tree_adj(spec)
    first, dist = {}, {}
    for start in spec["nets"]:
        # BFS over LANs
        seen = {start: None}
        dist[(start, start)] = 0
        queue = [start]
        while queue:
            cur = queue.pop(0)
            for (ri, pi, m) in on[cur]:
                for pj, (n2, m2) in enumerate(spec["routers"][ri]):
                    if pj == pi or n2 in seen:
                        continue
                    seen[n2] = cur
                    dist[(start, n2)] = dist[(start, cur)] + 1
                    first[(start, n2)] = (ri, pi, m) if cur == start else first[(start, cur)]
                    queue.append(n2)
    return first, dist


def route_tables(spec):
    """caches consistent with the tree: {("s",i)|("r",i): {aid: [(dnet, router mac)]}}"""
    first, dist = next_hops(spec)
    tables = {}
    for si, (net, mac, mode) in enumerate(spec["stations"]):
        tables[("s", si)] = {0: [(d, first[(net, d)][2]) for d in spec["nets"] if d != net]}
    for ri, ports in enumerate(spec["routers"]):
        mine = [n for n, _ in ports]
        t = {}
        for pi, (n, m) in enumerate(ports):
            t[pi] = [(d, first[(n, d)][2]) for d in spec["nets"]
                     if d not in mine and first[(n, d)][0] != ri]
        tables[("r", ri)] = t
    return tables


PAYLOAD = "1008"
PAYLOAD2 = "100801"
PAYLOAD3 = "10080203"


def expected(spec, src, dest, src_knows):
    """who must receive what: {(net,mac): (source shown, destination shown)}"""
    snet, smac, _ = src
    out = {}
    for (n, m, _mode) in spec["stations"]:
        if (n, m) == (snet, smac):
            continue
        k = dest[0]
        if k == "gb":
            hit, dshow = True, ["gb"]
        elif k == "lb":
            hit, dshow = n == snet, ["lb"]
        elif k == "ls":
            hit, dshow = n == snet and m == dest[1], ["ls", m]
        elif k == "rb":
            hit, dshow = n == dest[1], ["lb"]
        else:
            hit, dshow = (n, m) == (dest[1], dest[2]), ["ls", m]
        if hit:
            out[(n, m)] = (["ls", smac] if n == snet else ["rs", snet, smac], dshow)
    return out


def collect_ups(world, start_marks):
    got = {}
    for idx, node in enumerate(world.nodes):
        for ev, outs, dig in node.log[start_marks[idx]:]:
            for o in outs:
                if o["k"] == "up":
                    key = world.ports[idx][0]
                    got.setdefault(key, []).append(o)
    return got


def errors_in_logs(world, start_marks):
    bad = []
    for idx, node in enumerate(world.nodes):
        for ev, outs, dig in node.log[start_marks[idx]:]:
            for o in outs:
                if o["k"] == "raised":
                    bad.append((idx, ev.get("op"), o["e"]))
    return bad


def frame_oracle(ctx, case, world, spec, src, dest, dist, payload):
    """every frame on every LAN, read with the harness's own decoder"""
    snet, smac, _ = src
    per_lan = {}
    for lan, fsrc, fdst, raw in world.frames:
        try:
            p = dec_npdu(bytes.fromhex(raw))
        except Malformed:
            ctx.fail("undecodable-frame", case, "frame on LAN %d does not decode: %s" % (lan, raw))
            continue
        if p["msg"] is not None or p["data"] != payload:
            continue
        per_lan[lan] = per_lan.get(lan, 0) + 1
        if dist is None:
            continue
        crossed = dist[(snet, lan)]
        if p["dadr"] is not None:
            if p["hop"] != 255 - crossed:
                ctx.fail("hop-count", case, "LAN %d: hop count %r after %d routers" % (lan, p["hop"], crossed),
                         clause="hop_decrement")
        if crossed == 0:
            if p["sadr"] is not None:
                ctx.fail("sadr", case, "SADR present on the originating LAN", clause="sadr_rule")
        elif p["sadr"] != [snet, smac]:
            ctx.fail("sadr", case, "LAN %d: SADR %r does not name the originator" % (lan, p["sadr"]), clause="sadr_rule")
        if dest[0] in ("rb", "rs") and dest[1] != snet:
            if lan == dest[1]:
                if p["dadr"] is not None:
                    ctx.fail("dadr", case, "DADR still present on the destination LAN", clause="last_leg")
            elif p["dadr"] != dest:
                ctx.fail("dadr", case, "LAN %d: DADR %r differs from %r" % (lan, p["dadr"], dest), clause="dadr")
    if dist is not None:
        for lan, cnt in per_lan.items():
            if cnt > 1:
                ctx.fail("duplicate-frame", case, "LAN %d carried the packet %d times" % (lan, cnt), clause="once")
    return per_lan


def send_and_check(ctx, world, spec, case, sidx, dest, dist, payloads=(PAYLOAD,), check=True):
    """originate at station index sidx (one packet per payload, back to back), settle, evaluate the
    property for every payload; returns the ups of the first payload"""
    res = group_send_and_check(ctx, world, spec, case, [(sidx, dest, pl) for pl in payloads], dist, check=check)
    return None if res is None else res[0]


def group_send_and_check(ctx, world, spec, case, items, dist, check=True):
    """items = [(station index, destination, payload)] with pairwise different payloads: ALL are
    submitted in the same instant, then the internetwork runs to quiescence and the property is
    evaluated for every packet separately (told apart by payload); returns [ups per item]"""
    marks = [len(n.log) for n in world.nodes]
    world.frames = []
    for sidx, dest, pl in items:
        outs = world.nodes[sidx].send(dest, False, 0, pl)
        refused(ctx, case if len(items) == 1 else dict(case, packet=[sidx, dest, pl]), outs)
    ok = world.settle()
    if not ok:
        ctx.fail("no-quiescence", case, "the internetwork did not become quiet", clause="forwarding_terminates")
        return None
    if world.vt.errors:
        ctx.fail("task-exception", case, "exception inside a task: %r" % (world.vt.errors[:2],))
        world.vt.errors = []
    bad = errors_in_logs(world, marks)
    if bad:
        ctx.fail("exception", case, "exception in a node: %r" % (bad[:3],))
    allgot = collect_ups(world, marks)
    out = []
    for sidx, dest, payload in items:
        src = spec["stations"][sidx]
        node = world.nodes[sidx]
        got = {k: [u for u in v if u["data"] == payload] for k, v in allgot.items()}
        got = {k: v for k, v in got.items() if v}
        out.append(got)
        if not check:
            continue
        pcase = case if len(items) == 1 else dict(case, packet=[sidx, dest, payload])
        want = expected(spec, src, dest, node.adapters[0].adapterNet is not None)
        for key in set(want) | set(got):
            ups = got.get(key, [])
            if key not in want:
                ctx.fail("stray-delivery", pcase, "station %r received %d copies, expected none" % (key, len(ups)),
                         clause="exactly", station=list(key))
                continue
            if len(ups) != 1:
                ctx.fail("delivery-count", pcase, "station %r received %d copies of %s, expected 1" % (key, len(ups), payload),
                         clause="once", station=list(key), count=len(ups))
                continue
            u = ups[0]
            if u["src"] != want[key][0]:
                ctx.fail("source-shown", pcase, "station %r sees source %r, expected %r" % (key, u["src"], want[key][0]),
                         clause="source_shown")
            if u["dst"] != want[key][1]:
                ctx.fail("destination-shown", pcase, "station %r sees destination %r, expected %r" % (key, u["dst"], want[key][1]),
                         clause="destination_shown")
        frame_oracle(ctx, pcase, world, spec, src, dest, dist, payload)
    sent = {pl for _, _, pl in items}
    stray = [u for v in allgot.values() for u in v if u["data"] not in sent]
    if stray and check:
        ctx.fail("payload", case, "a payload nobody sent was delivered: %r" % (stray[:1],), clause="payload")
    return out


def do_replies(ctx, vt, world, spec, sc, case, sidx, got):
    """every recipient (up to max_replies) answers the source it was shown; False = world unusable"""
    recips = sorted(got)
    for key in recips[: sc.get("max_replies", 3)]:
        ups = got[key]
        if len(ups) != 1:
            continue
        ridx = world.station_idx[key]
        back = ups[0]["src"]
        rcase = dict(case, reply_from=list(key), reply_to=back)
        marks = [len(n.log) for n in world.nodes]
        world.frames = []
        outs = world.nodes[ridx].send(back, False, 0, "200108")
        refused(ctx, rcase, outs)
        if not world.settle():
            ctx.fail("no-quiescence", rcase, "reply: the internetwork did not become quiet")
            return False
        rgot = collect_ups(world, marks)
        okey = (spec["stations"][sidx][0], spec["stations"][sidx][1])
        for rk in set(rgot) | {okey}:
            n = len(rgot.get(rk, []))
            if rk == okey and n != 1:
                ctx.fail("reply-lost", rcase, "the reply reached the originator %d times" % n,
                         clause="reply_routable", count=n)
            elif rk != okey and n:
                ctx.fail("reply-stray", rcase, "the reply reached %r" % (rk,), clause="reply_routable")
        for u in rgot.get(okey, []):
            want = ["ls", key[1]] if key[0] == okey[0] else ["rs", key[0], key[1]]
            if u["src"] != want:
                ctx.fail("source-shown", rcase, "reply source %r, expected %r" % (u["src"], want),
                         clause="source_shown")
        bad = errors_in_logs(world, marks)
        if bad or vt.errors:
            ctx.fail("exception", rcase, "exception while replying: %r %r" % (bad[:2], vt.errors[:2]))
            vt.errors = []
        ctx.count("e2e-reply", (sc["cache_mode"], back[0]))
    return True


def dest_choices(spec, sidx):
    """every (kind, destination) for the station"""
    snet, smac, mode = spec["stations"][sidx]
    out = [["gb"], ["lb"]]
    for n in spec["nets"]:
        if n == snet and mode != "known":
            continue            # ASSUMPTIONS: own network by number needs the number
        out.append(["rb", n])
    for (n, m, _) in spec["stations"]:
        if (n, m) == (snet, smac):
            continue
        if n == snet:
            out.append(["ls", m])
            if mode != "known":
                continue
        out.append(["rs", n, m])
    return out


def world_compare(ctx, world, spec, sidx, dest, topo, case):
    """Route.runWorld vs the implementation: the exact global sequence of frames (every LAN, in the
    order the task manager delivered them), the deliveries, and every node's cache and parked
    packets afterwards"""
    if any(t.get("pend") for t in topo):
        return
    frames = []
    for lan, fsrc, fdst, raw in world.frames:
        try:
            frames.append({"lan": lan, "src": fsrc, "dst": fdst, "npci": dec_npdu(bytes.fromhex(raw))})
        except Malformed:
            frames.append({"lan": lan, "undecodable": raw})
    dels = []
    for idx, node in enumerate(world.nodes):
        pass
    impl = {"frames": frames, "left": 0,
            "caches": [n.digest()["cache"] for n in world.nodes],
            "pending": [len(n.digest()["pending"]) for n in world.nodes]}
    req = {"op": "run_world", "topo": topo, "from": sidx, "dest": dest, "er": False, "prio": 0, "data": PAYLOAD,
           "fuel": 20000}
    case = dict(case, world=True)
    ctx.__dict__.setdefault("_c06_queue", []).append(("world", "e2e-world", [req], [case], [impl]))


def global_compare(ctx, world, spec, sidx, dest, got, topo, tag):
    """deliverAll (static caches) vs the implementation, as multisets"""
    if not ctx.model_ok:
        return
    req = {"op": "deliver_from", "topo": topo, "from": sidx, "dest": dest, "er": False, "prio": 0, "data": PAYLOAD}
    impl = []
    for (lan, mac), ups in got.items():
        for u in ups:
            impl.append(core.canon({"lan": lan, "mac": mac, "src": u["src"], "dst": u["dst"], "data": u["data"]}))
    impl.sort()
    case = {"kind": "cycle" if tag == "cycle" else "e2e", "tag": tag, "spec": spec, "from": sidx, "dest": dest,
            "send": [sidx, dest], "cache_mode": world.cache_mode, "caches": getattr(world, "caches_list", None)}
    ctx.__dict__.setdefault("_c06_queue", []).append(("global", "e2e-global", [req], [case], [{"deliveries": impl}]))


def run_tree_scenario(ctx, vt, sc, node_lockstep=True):
    """sc = {spec, cache_mode, learn, sends:[(sidx, dest)], reply}"""
    spec = sc["spec"]
    first, dist = next_hops(spec)
    case_base = {"kind": "e2e", "spec": spec, "cache_mode": sc["cache_mode"], "learn": sc["learn"]}
    history = bool(sc.get("history"))
    worlds = []
    world = None
    for k, (sidx, dest) in enumerate(sc["sends"]):
        case = dict(case_base, send=[sidx, dest])
        if history:
            # the failing input is the whole history up to and including this packet
            case.update(history=True, sends=[[a, b] for a, b in sc["sends"][:k + 1]], step=k,
                        burst_mode=bool(sc.get("burst")), max_replies=sc.get("max_replies", 3))
        # cold caches: a fresh internetwork for every send (history: never reset); otherwise keep one
        if world is None or (sc["cache_mode"] == "cold" and not history):
            vt.reset()
            world = World(spec, sc["cache_mode"], vt)
            worlds.append(world)
            world.prepare()
            if sc["learn"]:
                world.learn_numbers()
        if sidx == -1:
            # concurrent step: several packets submitted in the same instant
            items = [(si, d, bytes([0x10, 8, 0xC0 + j, k]).hex()) for j, (si, d) in enumerate(dest)]
            res = group_send_and_check(ctx, world, spec, case, items, dist)
            ctx.count("e2e-history-concurrent", (len(items), tuple(sorted(d[0] for _, d, _ in items)), min(k, 3)))
            if res is None:
                world = None
                continue
            if sc.get("reply", True):
                for (si, d, pl), got in zip(items, res):
                    if world is not None and not do_replies(ctx, vt, world, spec, sc, dict(case, packet=[si, d, pl]), si, got):
                        world = None
            continue
        # the static-cache simulator only applies where the caches are complete: routers bound
        # without addresses do not announce themselves at startup (discovery on demand instead)
        partly = sc["cache_mode"] == "announce" and any(m != "all" for m in (spec.get("router_modes") or []))
        topo = (world.topo_request()
                if (sc["cache_mode"] != "cold" and not partly) or dest[0] in ("gb", "lb", "ls") else None)
        burst = bool(sc.get("burst")) and k % 2 == 1
        # the STATEFUL simulator (Route.runWorld) against the whole internetwork: any single packet,
        # whatever the state of the caches (cold, half warm in a history, configured)
        wtopo = world.topo_request() if (not burst and ctx.model_ok) else None
        case["burst"] = burst
        got = send_and_check(ctx, world, spec, case, sidx, dest, dist,
                             payloads=(PAYLOAD, PAYLOAD2, PAYLOAD3) if burst else (PAYLOAD,))
        shape = (sc["cache_mode"], sc["learn"], dest[0], min(len(spec["nets"]), 5), max(len(r) for r in spec["routers"]), burst)
        ctx.count("e2e-history" if history else "e2e", shape + ((min(k, 6),) if history else ()))
        if got is None:
            world = None
            continue
        if topo is not None:
            global_compare(ctx, world, spec, sidx, dest, got, topo, "tree-" + sc["cache_mode"])
        if wtopo is not None and all(not n.digest()["pending"] for n in world.nodes if n is not world.nodes[sidx]):
            world_compare(ctx, world, spec, sidx, dest, wtopo, dict(case))
        # replies: every recipient answers the source it was shown
        if sc.get("reply", True):
            if not do_replies(ctx, vt, world, spec, sc, case, sidx, got):
                world = None
    if node_lockstep:
        for w in worlds:
            compare_logs(ctx, "e2e-node", w.nodes, {"kind": "e2e", "spec": spec, "cache_mode": sc["cache_mode"],
                                                    "learn": sc["learn"], "sends": sc["sends"]})


def gen_tree_scenario(ctx, rng, exhaustive=False, nsends=4):
    spec = gen_tree(rng)
    cache_mode = rng.choice(["cold", "cold", "config", "config", "announce"])
    learn = rng.random() < 0.3
    if learn:
        # learning needs somebody who knows: every LAN has a router port, routers know their numbers
        pass
    combos = [(si, d) for si in range(len(spec["stations"])) for d in dest_choices_mode(spec, si, learn)]
    if exhaustive and len(combos) > 250:
        rng.shuffle(combos)
        combos = combos[:250]
    if not exhaustive:
        rng.shuffle(combos)
        # one of each kind first
        picked, kinds = [], set()
        for c in combos:
            if c[1][0] not in kinds:
                kinds.add(c[1][0]); picked.append(c)
        picked += [c for c in combos if c not in picked][: max(0, nsends - len(picked))]
        combos = picked[:max(nsends, 5)]
    return {"spec": spec, "cache_mode": cache_mode, "learn": learn, "sends": combos, "burst": True,
            "reply": True, "max_replies": 2 if not exhaustive else 3}


BURST_LENGTHS = [1, 2, 16, 17, 40, 100]


def gen_longburst_scenario(ctx, rng, idx):
    """cold caches, ONE station hands down a long burst for one not-yet-known remote network (or
    two interleaved bursts for two unknown networks) before the clock runs: every packet is parked
    behind the same discovery and every one of them must be delivered exactly once"""
    shape = rng.choice(["line", "hub", "random"])
    spec = gen_tree(rng, nn=rng.randrange(3, 8), shape=shape)
    st = spec["stations"]
    L = BURST_LENGTHS[idx % len(BURST_LENGTHS)]
    a = rng.randrange(len(st))
    far = [n for n in spec["nets"] if n != st[a][0]]
    two = (idx // len(BURST_LENGTHS)) % 2 == 1 and len(far) >= 2
    targets = rng.sample(far, 2 if two else 1)
    mode = rng.choice(["rs", "rs", "rb", "mix"])
    items = []
    for i in range(L):
        for j, d in enumerate(targets):
            on = [x for x in st if x[0] == d]
            if mode == "rb" or (mode == "mix" and i % 3 == 2):
                dest = ["rb", d]
            else:
                t = on[i % len(on)]
                dest = ["rs", d, t[1]]
            items.append([a, dest, bytes([0x10, 8, 0xA0 + j, i >> 8, i & 255]).hex()])
    return {"spec": spec, "items": items, "shape": shape, "len": L, "two": two}


def run_longburst_scenario(ctx, vt, sc):
    spec = sc["spec"]
    first, dist = next_hops(spec)
    vt.reset()
    world = World(spec, "cold", vt)
    world.prepare()
    case = {"kind": "e2e-burst", "spec": spec, "items": sc["items"]}
    items = [(a, d, p) for a, d, p in sc["items"]]
    res = group_send_and_check(ctx, world, spec, case, items, dist)
    nets = sorted({d[1] for _, d, _ in items})
    ctx.count("e2e-longburst", (len(items) // max(1, len(nets)), len(nets), tuple(sorted({d[0] for _, d, _ in items}))))
    if res is not None:
        # one reply, from the first recipient of the last packet
        sidx, d, pl = items[-1]
        do_replies(ctx, vt, world, spec, {"cache_mode": "cold", "max_replies": 1}, dict(case, packet=[sidx, d, pl]),
                   sidx, res[-1])
    compare_logs(ctx, "e2e-node", world.nodes, case)


def gen_history_scenario(ctx, rng):
    """one internetwork, caches all cold at the start and NEVER reset: a sequence of 4..10 packets
    (each run to quiescence, each followed by the recipients' replies to the source they were
    shown): requests between random station pairs, remote / global / local broadcasts, and -
    directed - two or three different stations addressing the same far station one after the
    other, so that later originators and routers use what they learned passively from earlier
    traffic (relayed I-Am-Router broadcasts, SADRs of packets passing by)"""
    shape = rng.choice(["line", "line", "hub", "hub", "random", "random"])
    nn = rng.randrange(4, 9) if shape != "random" else rng.randrange(3, 9)
    spec = gen_tree(rng, nn=nn, shape=shape)
    st = spec["stations"]
    n = rng.randrange(4, 11)
    sends = []
    if rng.random() < 0.7:
        # directed prefix: p, q (and r) on different networks all address station t
        t = rng.randrange(len(st))
        others = [i for i in range(len(st)) if st[i][0] != st[t][0]]
        rng.shuffle(others)
        picked, nets = [], set()
        for i in others:
            if st[i][0] not in nets:
                nets.add(st[i][0]); picked.append(i)
        for i in picked[:rng.choice([2, 2, 3])]:
            dest = ["rs", st[t][0], st[t][1]] if rng.random() < 0.75 else ["rb", st[t][0]]
            sends.append((i, dest))
    while len(sends) < n:
        si = rng.randrange(len(st))
        choices = dest_choices(spec, si)
        far = [d for d in choices if d[0] in ("rs", "rb") and d[1] != st[si][0]]
        dest = rng.choice(far) if far and rng.random() < 0.7 else rng.choice(choices)
        sends.append((si, dest))
    # concurrent steps: 2..4 packets submitted in the same instant (entry (-1, [[station, dest], ..]))
    first, dist = next_hops(spec)

    def group():
        r = rng.random()
        pairs = [(a, c) for a in range(len(st)) for c in range(len(st))
                 if a != c and dist[(st[a][0], st[c][0])] >= 2]
        if r < 0.45 and pairs:
            # crossing discoveries: two stations >= 2 routers apart address each other
            a, c = rng.choice(pairs)
            g = [[a, ["rs", st[c][0], st[c][1]] if rng.random() < 0.7 else ["rb", st[c][0]]],
                 [c, ["rs", st[a][0], st[a][1]] if rng.random() < 0.7 else ["rb", st[a][0]]]]
            if rng.random() < 0.3:
                b = rng.randrange(len(st))
                g.append([b, rng.choice(dest_choices(spec, b))])
            return g
        if r < 0.7:
            # several stations to one far station
            t = rng.randrange(len(st))
            srcs = [i for i in range(len(st)) if st[i][0] != st[t][0]]
            rng.shuffle(srcs)
            g = [[i, ["rs", st[t][0], st[t][1]]] for i in srcs[:rng.choice([2, 3, 4])]]
            if len(g) >= 2:
                return g
        # mixes: unicasts and broadcasts from different stations
        g = []
        for i in rng.sample(range(len(st)), min(len(st), rng.choice([2, 3, 4]))):
            g.append([i, rng.choice(dest_choices(spec, i))])
        return g if len(g) >= 2 else None
    if len(st) >= 2 and rng.random() < 0.75:
        g = group()
        if g:
            # mostly as the very first step: the discoveries only cross while everything is cold
            pos = 0 if rng.random() < 0.6 else rng.randrange(len(sends) + 1)
            sends.insert(pos, (-1, g))
        if rng.random() < 0.4:
            g = group()
            if g:
                sends.insert(rng.randrange(len(sends) + 1), (-1, g))
    return {"spec": spec, "cache_mode": "cold", "learn": False, "history": True, "sends": sends[:10],
            "burst": rng.random() < 0.3, "reply": True, "max_replies": 2, "shape": shape}


def dest_choices_mode(spec, sidx, learn):
    if not learn:
        return dest_choices(spec, sidx)
    # after learning every station knows its number: nothing is excluded
    snet, smac, mode = spec["stations"][sidx]
    spec2 = dict(spec, stations=[(n, m, "known") for (n, m, _) in spec["stations"]])
    return dest_choices(spec2, sidx)


def run_cycle_scenario(ctx, vt, sc):
    """termination on cyclic topologies: quiescence, bounded frames, hop counts only fall"""
    spec = sc["spec"]
    vt.reset()
    world = World(spec, "given", vt, caches=sc.get("caches") or empty_tables(spec))
    world.caches_list = sc.get("caches_list")
    world.frames = []
    case = {"kind": "cycle", "spec": spec, "caches": sc.get("caches_list"), "send": sc["send"]}
    sidx, dest = sc["send"]
    topo = world.topo_request()
    marks = [len(n.log) for n in world.nodes]
    world.nodes[sidx].send(dest, False, 0, PAYLOAD)
    ok = world.settle(max_loops=60000)
    if not ok:
        ctx.fail("no-quiescence", case, "forwarding did not terminate on a cyclic topology",
                 clause="forwarding_terminates")
        return
    nrouters = len(spec["routers"])
    data_frames = 0
    for lan, fsrc, fdst, raw in world.frames:
        p = dec_npdu(bytes.fromhex(raw))
        if p["msg"] is None and p["data"] == PAYLOAD:
            data_frames += 1
    # each generation can at most multiply by the number of router ports; the real bound we check
    # is the one the model computes (e2e-global) plus: no frame has a hop count above 255 and
    # per (LAN, source MAC) the hop counts are consistent with a decrement on every hop
    got = collect_ups(world, marks)
    bad = errors_in_logs(world, marks)
    if bad or vt.errors:
        ctx.fail("exception", case, "exception on a cyclic topology: %r %r" % (bad[:2], vt.errors[:2]))
        vt.errors = []
    # hop-by-hop: every data frame a router emitted has hop = (hop of the frame it heard) - 1
    for idx, node in enumerate(world.nodes):
        for ev, outs, dig in node.log[marks[idx]:]:
            if ev["op"] != "recv":
                continue
            p = dec_npdu(bytes.fromhex(ev["raw"]))
            if p["msg"] is not None:
                continue
            for o in outs:
                if o["k"] == "send" and o["npci"]["msg"] is None:
                    q = o["npci"]
                    if p["dadr"] is None or p["hop"] == 0 or (q["dadr"] is not None and q["hop"] + 1 != p["hop"]):
                        ctx.fail("hop-decrement", case, "router %d: hop %r -> %r" % (idx, p["hop"], q["hop"]),
                                 clause="hop_decrement")
                    if o["aid"] == ev["aid"]:
                        ctx.fail("no-echo", case, "router %d forwarded back onto the arrival adapter" % idx,
                                 clause="no_echo")
    ctx.count("e2e-cycle", (dest[0], len(spec["nets"]), nrouters, min(data_frames // 50, 40)))
    ctx.count("e2e-cycle-frames", n=data_frames)
    ctx.extra["max_cycle_frames"] = max(ctx.extra.get("max_cycle_frames", 0), data_frames)
    global_compare(ctx, world, spec, sidx, dest, got, topo, "cycle")
    compare_logs(ctx, "e2e-node", world.nodes, case)


def empty_tables(spec):
    t = {}
    for si in range(len(spec["stations"])):
        t[("s", si)] = {}
    for ri in range(len(spec["routers"])):
        t[("r", ri)] = {}
    return t


def gen_cycle_scenario(ctx, rng):
    """global broadcast, or remote traffic over ADVERSARIAL static routes: every router port
    points at some other router on its LAN, so the packet may circle until its hop count is
    spent.  (Every router has a route on every port: Who-Is-Router discovery, which carries
    no hop count, is never triggered - see notes/C06.md.)"""
    spec = gen_ring(rng)
    tail = spec.pop("tail")
    sidx = 0 if (tail and rng.random() < 0.8) else rng.randrange(len(spec["stations"]))
    snet = spec["stations"][sidx][0]
    tables = empty_tables(spec)
    if rng.random() < 0.4:
        dest = ["gb"]
    else:
        others = [n for n in spec["nets"] if n != snet]
        target = rng.choice(others + [77])      # 77: a network that does not exist
        dest = rng.choice([["rb", target], ["rs", target, "63"]])
        on = tree_adj(spec)
        for ri, ports in enumerate(spec["routers"]):
            mine = [n for n, _ in ports]
            if target in mine:
                continue
            for pi, (n, m) in enumerate(ports):
                peers = [mm for (rj, pj, mm) in on[n] if rj != ri]
                if peers:
                    tables[("r", ri)].setdefault(pi, []).append((target, rng.choice(peers)))
        peers = [mm for (rj, pj, mm) in on[snet]]
        tables[("s", sidx)] = {0: [(target, rng.choice(peers))]}
    return {"spec": spec, "send": [sidx, dest], "caches": tables,
            "caches_list": [[list(k), {str(a): v for a, v in t.items()}] for k, t in sorted(tables.items())]}


def tables_from_list(lst):
    out = {}
    for k, t in lst:
        out[(k[0], k[1])] = {int(a): [tuple(x) for x in v] for a, v in t.items()}
    return out


def guarded(ctx, fn, *args):
    """run one scenario; a legal address the tree under test refuses in every form aborts the
    scenario (the refusal itself is the reported failure), never the check"""
    try:
        fn(*args)
    except AddrRefused:
        pass
    drain_refusals(ctx)


def shard_e2e(ctx, spec):
    from .vt import VT
    vt = VT.install()
    rng = ctx.sub_rng("e2e/%d" % spec["shard"])
    for i in range(spec["trees"]):
        sc = gen_tree_scenario(ctx, rng, exhaustive=spec.get("exhaustive", False), nsends=spec.get("nsends", 4))
        guarded(ctx, run_tree_scenario, ctx, vt, sc)
        if i == 0 and spec["shard"] == 0:
            ctx.sample({"stream": "e2e", "spec": sc["spec"], "cache_mode": sc["cache_mode"], "sends": sc["sends"][:2]})
    for i in range(spec.get("histories", 0)):
        sc = gen_history_scenario(ctx, rng)
        guarded(ctx, run_tree_scenario, ctx, vt, sc)
        if i == 0 and spec["shard"] == 0:
            ctx.sample({"stream": "e2e-history", "spec": sc["spec"], "sends": sc["sends"]})
    for i in range(spec.get("learns", 0)):
        guarded(ctx, run_tree_scenario, ctx, vt, gen_learn_broadcast_scenario(ctx, rng))
    for i in range(spec.get("longbursts", 0)):
        sc = gen_longburst_scenario(ctx, rng, spec["shard"] + 16 * i)
        guarded(ctx, run_longburst_scenario, ctx, vt, sc)
    for i in range(spec["cycles"]):
        sc = gen_cycle_scenario(ctx, rng)
        guarded(ctx, run_cycle_scenario, ctx, vt, sc)
        if i == 0 and spec["shard"] == 0:
            ctx.sample({"stream": "e2e-cycle", "spec": sc["spec"], "send": sc["send"]})
    flush_model(ctx)


# --------------------------------------------------------------------------
# corpus, run, search, replay


def run_case(ctx, vt, case):
    if isinstance(case.get("child"), dict):
        run_child(ctx, "replay", {"case": case}, optimize=case["child"].get("optimize", False))
        return
    try:
        run_case_inner(ctx, vt, case)
    except AddrRefused:
        pass
    drain_refusals(ctx)
    flush_model(ctx)


def run_case_inner(ctx, vt, case):
    kind = case.get("kind")
    if kind == "lockstep":
        node = run_lockstep_scenario(ctx, vt, case["scenario"])
        node.scenario = case["scenario"]
        compare_logs_with_scenarios(ctx, "replay-lockstep", [node])
    elif kind == "e2e":
        sc = {"spec": fix_spec(case["spec"]), "cache_mode": case["cache_mode"], "learn": case.get("learn", False),
              "sends": [tuple(case["send"])] if "send" in case else [tuple(s) for s in case["sends"]],
              "reply": True, "max_replies": 3, "burst": case.get("burst", False)}
        if case.get("history"):
            sc.update(history=True, sends=[(a, b) for a, b in case["sends"]], burst=case.get("burst_mode", False),
                      max_replies=case.get("max_replies", 2))
        elif case.get("burst") and "send" in case:
            sc["sends"] = [sc["sends"][0], sc["sends"][0]]     # the burst is the odd-numbered send
        run_tree_scenario(ctx, vt, sc)
    elif kind == "address":
        mac = bytes.fromhex(case["mac"])
        if case["form"].startswith("rb-"):
            if network_refused(case["net"]):
                ADDR_REFUSALS.append({"form": case["form"], "net": case["net"], "mac": "", "e": "refused"})
        else:
            for form, fn in station_forms(case["net"], mac):
                if form == case["form"]:
                    try:
                        a = fn()
                        if bytes(a.addrAddr) != mac or a.addrNet != case["net"]:
                            raise ValueError("wrong address")
                    except Exception as e:
                        ADDR_REFUSALS.append({"form": form, "net": case["net"], "mac": case["mac"], "e": type(e).__name__})
        drain_refusals(ctx)
        ctx.count("replay-address", case["form"])
    elif kind == "e2e-burst":
        run_longburst_scenario(ctx, vt, {"spec": fix_spec(case["spec"]), "items": case["items"]})
    elif kind == "cycle":
        sc = {"spec": fix_spec(case["spec"]), "send": case["send"],
              "caches": tables_from_list(case["caches"]) if case.get("caches") else None,
              "caches_list": case.get("caches")}
        run_cycle_scenario(ctx, vt, sc)
    else:
        raise core.Infra("unknown case kind %r" % (kind,))
    flush_model(ctx)


def fix_spec(spec):
    """JSON round trip turns tuples into lists"""
    out = {"nets": list(spec["nets"]),
           "routers": [[(p[0], p[1]) for p in r] for r in spec["routers"]],
           "stations": [(s[0], s[1], s[2]) for s in spec["stations"]]}
    if spec.get("router_modes"):
        out["router_modes"] = list(spec["router_modes"])
    return out


def run_corpus(ctx, vt):
    d = os.path.join(core.VERIF, "corpus", "C06")
    if not os.path.isdir(d):
        return
    for f in sorted(os.listdir(d)):
        if f.endswith(".json"):
            case = json.load(open(os.path.join(d, f)))
            run_case(ctx, vt, case)
            ctx.count("corpus", f)


def quiet():
    import logging
    logging.getLogger("bacpypes").setLevel(logging.CRITICAL)
    logging.getLogger("bacpypes.netservice").setLevel(logging.CRITICAL)
    logging.getLogger("bacpypes.netservice.NetworkServiceAccessPoint").setLevel(logging.CRITICAL)


# --------------------------------------------------------------------------
# child interpreters: `python -O` (asserts stripped) and route_aware=True with full application stacks


def gen_learn_broadcast_scenario(ctx, rng):
    """stations bound WITHOUT their network number learn it via What-Is-Network-Number /
    Network-Number-Is and then originate global, local and remote traffic"""
    spec = gen_tree(rng, nn=rng.randrange(2, 6))
    st = list(spec["stations"])
    idx = list(range(len(st)))
    rng.shuffle(idx)
    for i in idx[:max(2, len(st) // 2)]:
        st[i] = (st[i][0], st[i][1], rng.choice(["unknown", "addronly"]))
    spec["stations"] = st
    sends = []
    for i in range(len(st)):
        if st[i][2] != "known":
            sends.append((i, ["gb"]))
            sends.append((i, ["lb"]))
            far = [x for x in st if x[0] != st[i][0]]
            if far:
                t = rng.choice(far)
                sends.append((i, ["rs", t[0], t[1]]))
                sends.append((i, ["rb", st[i][0]]))        # its own, learned, network by number
    rng.shuffle(sends)
    gbs = [x for x in sends if x[1] == ["gb"]][:3]
    rest = [x for x in sends if x not in gbs]
    return {"spec": spec, "cache_mode": rng.choice(["cold", "config", "announce"]), "learn": True,
            "sends": (gbs + rest)[:8], "burst": False, "reply": True, "max_replies": 1}


_full = {}


def full_classes():
    if _full:
        return _full
    quiet()
    from bacpypes.comm import bind
    from bacpypes.app import Application
    from bacpypes.appservice import StateMachineAccessPoint, ApplicationServiceAccessPoint
    from bacpypes.local.device import LocalDeviceObject
    from bacpypes.service.object import ReadWritePropertyServices
    from bacpypes.netservice import NetworkServiceAccessPoint, NetworkServiceElement
    from bacpypes.vlan import Node

    class NSE(NetworkServiceElement):
        _startup_disabled = True

    class FullStation(Application, ReadWritePropertyServices):
        """complete stack: Application / ASAP / SMAP / NSAP on a vlan node"""

        def __init__(self, ident, mac_hex, lan, net):
            self.requests_seen = 0
            self.answers = []
            device = LocalDeviceObject(objectName="dev%d" % ident, objectIdentifier=('device', ident),
                                       vendorIdentifier=999)
            Application.__init__(self, device)
            self.asap = ApplicationServiceAccessPoint()
            self.smap = StateMachineAccessPoint(device)
            self.smap.deviceInfoCache = self.deviceInfoCache
            self.nsap = NetworkServiceAccessPoint()
            self.nse = NSE()
            bind(self.nse, self.nsap)
            bind(self, self.asap, self.smap, self.nsap)
            self.node = Node(mk_station(None, mac_hex), lan)
            self.nsap.bind(self.node, net, mk_station(None, mac_hex))

        def indication(self, apdu):
            self.requests_seen += 1
            Application.indication(self, apdu)

        def confirmation(self, apdu):
            self.answers.append(type(apdu).__name__)

    class PlainRouter:
        def __init__(self):
            self.nsap = NetworkServiceAccessPoint()
            self.nse = NSE()
            bind(self.nse, self.nsap)

        def add(self, mac_hex, lan, net):
            self.nsap.bind(Node(mk_station(None, mac_hex), lan), net, mk_station(None, mac_hex))

    _full.update(FullStation=FullStation, PlainRouter=PlainRouter)
    return _full


def gen_appstack_scenario(ctx, rng, route_aware):
    n = rng.choice([2, 2, 3])
    nets = rng.sample([1, 2, 3, 5, 9, 255, 256, 4000, 65534], n)
    macs = lambda k: [bytes([x]).hex() for x in rng.sample(range(1, 250), k)]
    routers = [macs(2) for _ in range(n - 1)]
    stations = [[nets[i], m] for i in range(n) for m in macs(rng.choice([1, 2]))]
    pairs = []
    for _ in range(rng.choice([1, 2, 3])):
        a, b = rng.sample(range(len(stations)), 2)
        if stations[a][0] != stations[b][0]:
            pairs.append([a, b])
    if not pairs:
        a = 0
        b = max(i for i in range(len(stations)) if stations[i][0] != stations[0][0])
        pairs = [[a, b], [b, a]]
    return {"kind": "appstack", "route_aware": route_aware, "nets": nets, "routers": routers,
            "stations": stations, "pairs": pairs}


def run_appstack_scenario(ctx, vt, sc):
    """confirmed request across router(s) between FULL application stacks: the server application
    must see the request exactly once and the requesting application exactly one answer"""
    from bacpypes.settings import settings
    from bacpypes.vlan import Network
    from bacpypes.pdu import LocalBroadcast
    from bacpypes.apdu import ReadPropertyRequest
    K = full_classes()
    old = settings.route_aware
    vt.reset()
    try:
        settings.route_aware = bool(sc["route_aware"])
        lans = {n: Network(name=str(n), broadcast_address=LocalBroadcast()) for n in sc["nets"]}
        sts = [K["FullStation"](1000 + i, m, lans[n], n) for i, (n, m) in enumerate(sc["stations"])]
        for i, ms in enumerate(sc["routers"]):
            r = K["PlainRouter"]()
            r.add(ms[0], lans[sc["nets"][i]], sc["nets"][i])
            r.add(ms[1], lans[sc["nets"][i + 1]], sc["nets"][i + 1])
        for k, (a, b) in enumerate(sc["pairs"]):
            client, server = sts[a], sts[b]
            seen0, ans0 = server.requests_seen, len(client.answers)
            req = ReadPropertyRequest(objectIdentifier=('device', 1000 + b), propertyIdentifier='objectName',
                                      destination=mk_station(sc["stations"][b][0], sc["stations"][b][1]))
            client.request(req)
            vt.advance(60.0)
            case = dict(sc, step=k)
            seen, answers = server.requests_seen - seen0, client.answers[ans0:]
            if seen != 1:
                ctx.fail("request-count", case, "route_aware=%r: the request reached the server application %d times, "
                         "expected 1" % (sc["route_aware"], seen), clause="once", count=seen)
            if answers != ["ReadPropertyACK"]:
                ctx.fail("reply-lost", case, "route_aware=%r: the requesting application received %r, expected exactly "
                         "one ReadPropertyACK" % (sc["route_aware"], answers), clause="reply_routable")
            if vt.errors:
                ctx.fail("task-exception", case, "exception inside a task: %r" % (vt.errors[:2],))
                vt.errors = []
            ctx.count("appstack", (bool(sc["route_aware"]), len(sc["nets"]), k))
    finally:
        settings.route_aware = old


def child_body(ctx, req):
    """runs INSIDE the child interpreter"""
    from .vt import VT
    core.bind_repo()
    vt = VT.install()
    ctx.model_ok = False
    mode = req["mode"]
    if mode == "optimized":
        rng = ctx.sub_rng("optimized")
        for i in range(req.get("n", 6)):
            guarded(ctx, run_tree_scenario, ctx, vt, gen_learn_broadcast_scenario(ctx, rng), False)
        for i in range(req.get("trees", 4)):
            guarded(ctx, run_tree_scenario, ctx, vt, gen_tree_scenario(ctx, rng, nsends=4), False)
        for i in range(req.get("histories", 3)):
            guarded(ctx, run_tree_scenario, ctx, vt, gen_history_scenario(ctx, rng), False)
        guarded(ctx, run_cycle_scenario, ctx, vt, gen_cycle_scenario(ctx, rng))
    elif mode == "appstack":
        rng = ctx.sub_rng("appstack")
        for i in range(req.get("n", 6)):
            for ra in (False, True):
                guarded(ctx, run_appstack_scenario, ctx, vt, gen_appstack_scenario(ctx, rng, ra))
    elif mode == "replay":
        case = dict(req["case"])
        case.pop("child", None)
        if case.get("kind") == "appstack":
            guarded(ctx, run_appstack_scenario, ctx, vt, case)
        else:
            run_case(ctx, vt, case)
    else:
        raise core.Infra("unknown child mode %r" % (mode,))


def child_main():
    import sys
    req = json.loads(sys.stdin.read())
    ctx = core.Ctx("C06", req.get("tier", "quick"), req.get("seed", 0))
    try:
        child_body(ctx, req)
        out = {"ok": True, "failures": ctx.failures[:300], "n_failures": len(ctx.failures),
               "kinds": {k: v for k, v in ctx.kinds.items()}, "evaluations": ctx.evaluations,
               "sigs": [[k, repr(sg)] for k, sg in ctx.signatures], "optimized": not __debug__}
    except Exception:
        import traceback
        out = {"ok": False, "why": traceback.format_exc()[-1500:]}
    sys.stdout.write("\nC06-CHILD " + json.dumps(out, default=str) + "\n")


def run_child(ctx, mode, req, optimize):
    """one stream in a child interpreter (python -O: asserts stripped; or an interpreter in which
    settings.route_aware may be switched on without touching this process)"""
    import subprocess, sys
    req = dict(req, mode=mode, seed=ctx.seed, tier=ctx.tier)
    cmd = [sys.executable] + (["-O"] if optimize else []) + ["-m", "harness.c06"]
    try:
        p = subprocess.run(cmd, input=json.dumps(req), cwd=core.VERIF, stdout=subprocess.PIPE,
                           stderr=subprocess.PIPE, text=True, timeout=600)
    except subprocess.TimeoutExpired:
        raise core.Infra("child %s timed out" % mode)
    line = [l for l in p.stdout.split("\n") if l.startswith("C06-CHILD ")]
    if not line:
        raise core.Infra("child %s gave no result: rc=%s %s" % (mode, p.returncode, p.stderr[-400:]))
    out = json.loads(line[-1][len("C06-CHILD "):])
    if not out.get("ok"):
        raise core.Infra("child %s crashed: %s" % (mode, out.get("why")))
    if optimize and not out.get("optimized"):
        raise core.Infra("python -O child still has asserts")
    tag = {"mode": mode, "optimize": bool(optimize)}
    label = "python -O" if optimize else "child"
    for k, v in out["kinds"].items():
        ctx.count("%s/%s" % (label, k), n=v)
    for k, sg in out["sigs"]:
        ctx.signatures.add(("%s/%s" % (label, k), sg))
    for f in out["failures"]:
        case = f.get("case") if isinstance(f.get("case"), dict) else {"case": f.get("case")}
        extra = {k: v for k, v in f.items() if k not in ("kind", "case", "what")}
        ctx.fail(f["kind"], dict(case, child=tag), "[%s] %s" % (label, f["what"]), **extra)
    if out["n_failures"] > len(out["failures"]):
        ctx.notes.append("%s child: %d failures, first %d kept" % (label, out["n_failures"], len(out["failures"])))


def preflight(ctx):
    from bacpypes.settings import settings
    if settings.route_aware:
        raise core.Infra("settings.route_aware must be False")
    if ctx.model_ok:
        rep = core.Driver("drv_c06").ask([{"op": "known"}])[0]
        if rep["types"] != live_known_types():
            ctx.disagree("npdu_types", {"op": "known"}, live_known_types(), rep["types"])
    probe_addresses(ctx, BOUNDARY_NETS + [3], BOUNDARY_MACS + ["2a", "0a0b0c"])


def run(ctx):
    from .vt import VT
    vt = VT.install()
    preflight(ctx)
    run_corpus(ctx, vt)
    if ctx.quick:
        lock = [{"shard": i, "n": 60} for i in range(16)]
        e2e = [{"shard": i, "trees": 6, "cycles": 3, "nsends": 5, "histories": 8, "longbursts": 1, "learns": 1} for i in range(16)]
    else:
        lock = [{"shard": i, "n": 2000} for i in range(16)]
        # every (source, kind, destination) on 4 trees per shard (capped at 250 sends each),
        # a sample of 12 sends on 100 more; 30 cyclic scenarios per shard
        e2e = [{"shard": i, "trees": 4, "cycles": 0, "exhaustive": True} for i in range(32)]
        e2e += [{"shard": 100 + i, "trees": 100, "cycles": 30, "nsends": 12, "histories": 150, "longbursts": 6, "learns": 10} for i in range(32)]
    core.run_shards(ctx, "harness.c06", "shard_lockstep", lock)
    core.run_shards(ctx, "harness.c06", "shard_e2e", e2e)
    # asserts stripped (python -O): learn-then-broadcast + a sample of the ordinary e2e scenarios
    big = 1 if ctx.quick else 8
    if os.environ.get("VERIF_SUBPASS"):
        return                      # core's debug-flags pass: no grandchildren
    run_child(ctx, "optimized", {"n": 6 * big, "trees": 4 * big, "histories": 3 * big}, optimize=True)
    # route_aware on/off with full application stacks (settings are process-global: child)
    run_child(ctx, "appstack", {"n": 6 * big}, optimize=False)


def search(ctx):
    """focused failing-input search: more lockstep sequences and trees around the
    disagreeing shapes (the per-hop and end-to-end oracles run inside)"""
    lock = [{"shard": 1000 + i, "n": 200} for i in range(8)]
    e2e = [{"shard": 1000 + i, "trees": 6, "cycles": 3, "nsends": 8, "histories": 20, "longbursts": 2} for i in range(8)]
    core.run_shards(ctx, "harness.c06", "shard_lockstep", lock)
    core.run_shards(ctx, "harness.c06", "shard_e2e", e2e)


def replay(ctx, payload):
    from .vt import VT
    vt = VT.install()
    rec = payload.get("failure") or (payload.get("correspondence_disagreements") or [{}])[0]
    case = rec.get("case")
    if isinstance(case, dict) and "tag" in case and isinstance(case["tag"], dict):
        case = case["tag"]
    if not case:
        raise core.Infra("nothing to replay")
    run_case(ctx, vt, case)


if __name__ == "__main__":
    child_main()
