"""
harness.tsmlock — lockstep harness for Model.Tsm (shared by C11, C12 and
usable by C04/C05/C10).

A REAL StateMachineAccessPoint + ApplicationServiceAccessPoint sit between a
stub application (records indications / confirmations) and a stub network
(records every APDU handed down) under virtual time (harness/vt.py).  Events
are applied one at a time; after EVERY event the adapter reports

    out  : ordered emitted frames (decoded header in wire order, encoded length,
           payload length + FNV-64), upward callbacks, `raised` markers
    cl/sv: canonical digest of both transaction lists (key, state, counters,
           window, segment geometry, armed deadline in µs, context digest)
    next : nextInvokeID          now : virtual µs since the start

which is what lean/BacVerif/Drv/TsmDrv.lean prints for the same event line.

Timers fire one at a time through the real TaskManager (`get_next_task` /
`process_task`); `Lock.fire_next()` produces the two model events
(`tick dt`, `timeout srv peer id`) that correspond.

Inbound frames go through the repository's own `APDU.decode` (as the NSAP
does) so the header the model sees is the header the code decoded.
"""
import types
from . import core
from . import vt as _vt

SEG_NAMES = ['noSegmentation', 'segmentedTransmit', 'segmentedReceive', 'segmentedBoth']
# the numeric values clause 21 gives BACnetSegmentation, indexed like SEG_NAMES (harness-owned:
# never read from the library): no-segmentation 3, segmented-transmit 1, segmented-receive 2,
# segmented-both 0
SEG_CODES = [3, 1, 2, 0]
START = 1_000_000_000.0

RAW_OK, RAW_REJECT, RAW_ABORT = 200, 201, 202

DEFAULT_CFG = None      # filled from translator/tsm.py (live class defaults)


def default_cfg():
    """the defaults of the live StateMachineAccessPoint (never hard-coded)"""
    global DEFAULT_CFG
    if DEFAULT_CFG is None:
        from translator import tsm as _t
        DEFAULT_CFG = _t.dump()["cfg"]
    return dict(DEFAULT_CFG)


def fnv64(data):
    h = 14695981039346656037
    for b in data:
        h = ((h ^ b) * 1099511628211) % 18446744073709551616
    return h


_installed = False


def install_raw_services():
    """register opaque service codecs in the LIVE registries (no repo edit):
       200 raw (always decodes), 201 decoder raises RejectException(first octet),
       202 decoder raises AbortException(first octet)"""
    global _installed
    if _installed:
        return
    from bacpypes import apdu as A
    from bacpypes.errors import RejectException, AbortException

    class _Rej(RejectException):
        rejectReason = 'other'

    class _Abt(AbortException):
        abortReason = 'other'

    class RawRequest(A.ConfirmedRequestPDU):
        serviceChoice = RAW_OK

    class RejectingRequest(A.ConfirmedRequestPDU):
        serviceChoice = RAW_REJECT

        def decode(self, pdu):
            e = _Rej()
            e.rejectReason = pdu.pduData[0] if pdu.pduData else 0
            raise e

    class AbortingRequest(A.ConfirmedRequestPDU):
        serviceChoice = RAW_ABORT

        def decode(self, pdu):
            e = _Abt()
            e.abortReason = pdu.pduData[0] if pdu.pduData else 0
            raise e

    class RawUnconfirmed(A.UnconfirmedRequestPDU):
        serviceChoice = RAW_OK

    class RawAck(A.ComplexAckPDU):
        serviceChoice = RAW_OK

    class BadAck(A.ComplexAckPDU):
        serviceChoice = RAW_REJECT

        def decode(self, pdu):
            raise ValueError("undecodable ack")

    class RawError(A.ErrorPDU):
        serviceChoice = RAW_OK

    class BadError(A.ErrorPDU):
        serviceChoice = RAW_REJECT

        def decode(self, pdu):
            raise ValueError("undecodable error")

    for svc in (RAW_OK, RAW_REJECT, RAW_ABORT):
        assert svc not in A.confirmed_request_types and svc not in A.complex_ack_types
    A.confirmed_request_types[RAW_OK] = RawRequest
    A.confirmed_request_types[RAW_REJECT] = RejectingRequest
    A.confirmed_request_types[RAW_ABORT] = AbortingRequest
    A.unconfirmed_request_types[RAW_OK] = RawUnconfirmed
    A.complex_ack_types[RAW_OK] = RawAck
    A.complex_ack_types[RAW_REJECT] = BadAck
    A.error_types[RAW_OK] = RawError
    A.error_types[RAW_REJECT] = BadError
    # services other than 200/201 used in Error PDUs would go through the
    # generic `Error` decoder; generators only use 200/201 there
    _installed = True


# ------------------------------------------------------------------ wire

def wire_of(a):
    """APCI octets for header dict `a` (keys as in the driver protocol) + payload;
    independent of bacpypes' encoder"""
    t = a["t"]
    d = bytes.fromhex(a.get("hex", ""))
    # every field is one octet on the wire: a value outside 0..255 (e.g. an invoke ID 256 a
    # defective allocator handed out) is reduced modulo 256 here - what the code under test
    # DECODES is what the model is told; the out-of-range value itself is the oracles' business
    g = lambda k: int(a.get(k, 0) or 0) & 0xFF
    if t == 0:
        b = [(0 << 4) | (8 if g("seg") else 0) | (4 if g("mor") else 0) | (2 if g("sa") else 0),
             ((g("maxSegs") & 7) << 4) | (g("maxResp") & 15), g("id")]
        if g("seg"):
            b += [g("seq"), g("win")]
        b += [g("svc")]
    elif t == 1:
        b = [0x10, g("svc")]
    elif t == 2:
        b = [0x20, g("id"), g("svc")]
    elif t == 3:
        b = [0x30 | (8 if g("seg") else 0) | (4 if g("mor") else 0), g("id")]
        if g("seg"):
            b += [g("seq"), g("win")]
        b += [g("svc")]
    elif t == 4:
        b = [0x40 | (2 if g("nak") else 0) | (1 if g("srv") else 0), g("id"), g("seq"), g("win")]
    elif t == 5:
        b = [0x50, g("id"), g("svc")]
    elif t == 6:
        b = [0x60, g("id"), g("reason")]
    elif t == 7:
        b = [0x70 | (1 if g("srv") else 0), g("id"), g("reason")]
    else:
        raise ValueError("no wire form for type %r" % t)
    return bytes(b) + d


def _n(v):
    return None if v is None else int(v)


def hdr_of(apdu):
    """the header fields the PDU type carries on the wire, in wire order
    (mirror of TsmDrv.jHdr); booleans as 0/1, unset (None) fields as null"""
    t = apdu.apduType
    b = lambda v: 1 if v else 0
    if t == 0:
        h = [0, b(apdu.apduSeg), b(apdu.apduMor), b(apdu.apduSA), _n(apdu.apduMaxSegs),
             _n(apdu.apduMaxResp), _n(apdu.apduInvokeID)]
        if apdu.apduSeg:
            h += [_n(apdu.apduSeq), _n(apdu.apduWin)]
        return h + [_n(apdu.apduService)]
    if t == 1:
        return [1, _n(apdu.apduService)]
    if t == 2:
        return [2, _n(apdu.apduInvokeID), _n(apdu.apduService)]
    if t == 3:
        h = [3, b(apdu.apduSeg), b(apdu.apduMor), _n(apdu.apduInvokeID)]
        if apdu.apduSeg:
            h += [_n(apdu.apduSeq), _n(apdu.apduWin)]
        return h + [_n(apdu.apduService)]
    if t == 4:
        return [4, b(apdu.apduNak), b(apdu.apduSrv), _n(apdu.apduInvokeID), _n(apdu.apduSeq), _n(apdu.apduWin)]
    if t == 5:
        return [5, _n(apdu.apduInvokeID), _n(apdu.apduService)]
    if t == 6:
        return [6, _n(apdu.apduInvokeID), _n(apdu.apduAbortRejectReason)]
    if t == 7:
        return [7, b(apdu.apduSrv), _n(apdu.apduInvokeID), _n(apdu.apduAbortRejectReason)]
    return [_n(t)]


def apdu_fields(apdu):
    """model event form of a DECODED apdu object (what the code will look at)"""
    a = {"t": int(apdu.apduType)}
    for k, attr in (("seg", "apduSeg"), ("mor", "apduMor"), ("sa", "apduSA"), ("srv", "apduSrv"),
                    ("nak", "apduNak")):
        if getattr(apdu, attr, None):
            a[k] = 1
    for k, attr in (("seq", "apduSeq"), ("win", "apduWin"), ("maxSegs", "apduMaxSegs"),
                    ("maxResp", "apduMaxResp"), ("svc", "apduService"), ("id", "apduInvokeID"),
                    ("reason", "apduAbortRejectReason")):
        v = getattr(apdu, attr, None)
        if v is not None:
            a[k] = int(v)
    a["hex"] = bytes(apdu.pduData).hex()
    return a


RAISE_MAP = [
    ("invalid APDU (", None),
    ("invoke ID in use", "idInUse"),
    ("no available invoke ID", "noFreeId"),
    ("no segmentation context", "noContext"),
    ("invalid segment number", "badSegment"),
    ("invalid APDU type for segmentation", "badContextType"),
    ("invalid state", "invalidState"),
]


def raise_name(e):
    msg = str(e)
    if isinstance(e, RuntimeError):
        if msg.startswith("invalid APDU (") and msg.endswith(")"):
            return "invalidApdu" + msg[len("invalid APDU ("):-1]
        for pat, name in RAISE_MAP:
            if name and pat in msg:
                return name
    if isinstance(e, ValueError) and msg.startswith("invalid max"):
        return "valueError"
    if isinstance(e, TypeError) and "NoneType" in msg and "integer" in msg:
        return "typeError"
    return "python:%s:%s" % (type(e).__name__, msg[:80])


class LearnError(Exception):
    """the device-information cache ignored an I-Am (genuine defect of the tree, C12)"""


# ------------------------------------------------------------------ the rig

class Lock:
    """one real SMAP+ASAP between stubs.  cfg: dict as in the driver protocol;
    di: list of [peer, info] learned BEFORE the run the way an application
    does (iam_device_info + property edits); peers are small integers."""

    def __init__(self, cfg, di=(), next_id=1, strict_learn=False):
        self.strict_learn = strict_learn
        core.bind_repo()
        import logging
        logging.getLogger("bacpypes").setLevel(logging.CRITICAL + 1)   # the ASAP logs what it swallows
        self.vt = _vt.VT.install(START)
        self.vt.reset(START)
        install_raw_services()
        from bacpypes.comm import bind, Server, ApplicationServiceElement
        from bacpypes.pdu import Address, RemoteStation
        from bacpypes.app import DeviceInfoCache
        from bacpypes import appservice as AS
        self.AS = AS
        self.cfg = dict(cfg)
        self.addrs = [Address(10), Address(11), RemoteStation(2, 10), Address(b"\x0a\x00\x00\x01\xba\xc0"),
                      RemoteStation(3, 11), Address(12)]
        self.local = Address(1)
        dev = types.SimpleNamespace(
            numberOfApduRetries=cfg["retries"], apduTimeout=cfg["apduTimeout"],
            segmentationSupported=SEG_NAMES[cfg["seg"]], apduSegmentTimeout=cfg["segTimeout"],
            maxSegmentsAccepted=cfg["maxSegs"], maxApduLengthAccepted=cfg["maxApdu"])
        self.smap = AS.StateMachineAccessPoint(dev)
        self.smap.proposedWindowSize = cfg["window"]
        self.smap.applicationTimeout = cfg["appTimeout"]
        self.smap.nextInvokeID = next_id
        self.cache = DeviceInfoCache()
        self.smap.deviceInfoCache = self.cache
        self.asap = AS.ApplicationServiceAccessPoint()
        lock = self

        class StubApp(ApplicationServiceElement):
            def indication(self, apdu):
                lock._up("ind", apdu)

            def confirmation(self, apdu):
                lock._up("conf", apdu)

        class StubNet(Server):
            def indication(self, pdu):
                lock._down(pdu)

        self.app = StubApp()
        self.net = StubNet()
        bind(self.app, self.asap, self.smap, self.net)
        self.outs = []
        self._re = None           # pending re-entrant request of the stub application
        self._re_line = None
        self._re_frame_line = None
        self.events = []          # model event lines, in order
        self.replies = []         # implementation replies, same order
        self.reset_line = {"op": "reset", "cfg": {k: cfg[k] for k in (
            "maxApdu", "seg", "maxSegs", "window", "retries", "apduTimeout", "segTimeout", "appTimeout")},
            "nextId": next_id, "di": [[p, dict(i)] for p, i in di]}
        for p, info in di:
            self._learn_real(p, info)

    # ---- helpers -----------------------------------------------------
    def peer_of(self, addr):
        for i, a in enumerate(self.addrs):
            if a == addr:
                return i
        return 99

    def now_us(self):
        return int(round((self.vt.now - START) * 1e6))

    def _apdu_json(self, apdu):
        d = bytes(apdu.pduData)
        return {"h": hdr_of(apdu), "n": len(d), "d": fnv64(d)}

    def _ctx_json(self, ctx):
        """digest of a segmentation context: type, invoke ID, service, payload"""
        d = bytes(ctx.pduData)
        return [int(ctx.apduType), _n(ctx.apduInvokeID), _n(ctx.apduService), len(d), fnv64(d)]

    def _down(self, pdu):
        from bacpypes.apdu import APDU
        from bacpypes.pdu import PDU
        rec = {"o": "send", "peer": self.peer_of(pdu.pduDestination)}
        rec.update(self._apdu_json(pdu))
        try:                      # what the NSAP does with it
            x = APDU()
            pdu.encode(x)
            p = PDU()
            x.encode(p)
            rec["len"] = len(p.pduData)
            self.wire.append((rec["peer"], bytes(p.pduData)))
        except Exception as e:
            rec["len"] = "encode:%s" % type(e).__name__
        self.outs.append(rec)

    def _up(self, kind, apdu):
        self._up_record(kind, apdu)
        if kind == "conf" and self._re is not None:
            # the stub application re-enters the stack from INSIDE its confirmation callback.
            # At this instant the answered transaction is already gone and the handler emits
            # nothing after the callback: the frame event ends here (snapshot), the request
            # event begins.
            re, self._re = self._re, None
            self._finish(self._re_frame_line)
            self._re_frame_line = None
            self.outs = []
            self._re_line = {"op": "ev", "e": "req", "peer": re["peer"], "svc": re["svc"],
                             "hex": bytes(re["data"]).hex(), "id": re["id"]}
            from bacpypes.apdu import ConfirmedRequestPDU
            try:
                req = ConfirmedRequestPDU(re["svc"])
                req.pduDestination = self.addrs[re["peer"]]
                req.apduInvokeID = re["id"]
                req.put_data(bytes(re["data"]))
                self.app.request(req)
            except Exception as e:
                self.outs.append({"o": "raised", "k": raise_name(e)})

    def _up_record(self, kind, apdu):
        if getattr(apdu, "apduInvokeID", None) is None and getattr(apdu, "pduSource", None) is None \
                and kind == "conf":
            # the bare Error the ASAP substitutes for an undecodable ack / error
            cls = getattr(apdu, "errorClass", None)
            code = getattr(apdu, "errorCode", None)
            from bacpypes.basetypes import ErrorClass, ErrorCode
            c = cls if isinstance(cls, int) else ErrorClass.enumerations.get(cls, -1)
            e = code if isinstance(code, int) else ErrorCode.enumerations.get(code, -1)
            self.outs.append({"o": "confanon", "cls": c, "code": e})
            return
        rec = {"o": kind, "peer": self.peer_of(apdu.pduSource)}
        rec.update(self._apdu_json(apdu))
        self.outs.append(rec)

    def _digest(self, tr):
        # the context is not reported in AWAIT_RESPONSE: the request has been handed
        # to the application (whose decoder consumes the octets) and is never read again
        ctx = tr.segmentAPDU
        timer = None
        if tr.isScheduled:
            timer = int(round((tr.taskTime - START) * 1e6))
        z = lambda v: 0 if v is None else int(v)
        return [self.peer_of(tr.pdu_address), z(tr.invokeID), int(tr.state),
                1 if tr.device_info is not None else 0,
                z(tr.retryCount), z(tr.segmentRetryCount), 1 if tr.sentAllSegments else 0,
                z(tr.lastSequenceNumber), z(tr.initialSequenceNumber), _n(tr.actualWindowSize),
                z(tr.segmentSize), z(tr.segmentCount), z(tr.maxApduLengthAccepted),
                _n(tr.maxSegmentsAccepted), 1 if getattr(tr, "segmented_response_accepted", False) else 0,
                timer, None if (ctx is None or int(tr.state) == 3) else self._ctx_json(ctx)]

    def snapshot(self):
        return {"cl": [self._digest(t) for t in self.smap.clientTransactions],
                "sv": [self._digest(t) for t in self.smap.serverTransactions],
                "next": self.smap.nextInvokeID, "now": self.now_us()}

    def _finish(self, line):
        r = {"r": "ok", "out": self.outs}
        r.update(self.snapshot())
        self.events.append(line)
        self.replies.append(r)
        return r

    def _guard(self, fn):
        self.outs = []
        self.wire = []
        try:
            fn()
        except Exception as e:      # an exception left the access point
            self.outs.append({"o": "raised", "k": raise_name(e)})

    # ---- events ------------------------------------------------------
    def request(self, peer, svc, data, invoke=None):
        from bacpypes.apdu import ConfirmedRequestPDU
        def go():
            req = ConfirmedRequestPDU(svc)
            req.pduDestination = self.addrs[peer]
            req.apduInvokeID = invoke
            req.put_data(bytes(data))
            self.app.request(req)
        self._guard(go)
        return self._finish({"op": "ev", "e": "req", "peer": peer, "svc": svc, "hex": bytes(data).hex(), "id": invoke})

    def unconfirmed(self, peer, svc, data):
        from bacpypes.apdu import UnconfirmedRequestPDU
        def go():
            req = UnconfirmedRequestPDU(svc)
            req.pduDestination = self.addrs[peer]
            req.put_data(bytes(data))
            self.app.request(req)
        self._guard(go)
        return self._finish({"op": "ev", "e": "unconf", "peer": peer, "svc": svc, "hex": bytes(data).hex()})

    def response(self, peer, a):
        """application answers with the PDU described by header dict `a`"""
        from bacpypes import apdu as A
        t = a["t"]
        g = lambda k: a.get(k, 0) or 0
        def go():
            if t == 2:
                x = A.SimpleAckPDU(g("svc"), g("id"))
            elif t == 3:
                x = A.ComplexAckPDU(g("svc"), g("id"))
                x.put_data(bytes.fromhex(a.get("hex", "")))
            elif t == 5:
                x = A.ErrorPDU(g("svc"), g("id"))
                x.put_data(bytes.fromhex(a.get("hex", "")))
            elif t == 6:
                x = A.RejectPDU(g("id"), g("reason"))
            elif t == 7:
                x = A.AbortPDU(bool(g("srv")), g("id"), g("reason"))
            elif t == 4:       # not a response: the ASAP drops it
                x = A.SegmentAckPDU(0, 1, g("id"), g("seq"), g("win"))
            else:
                x = A.UnconfirmedRequestPDU(g("svc"))
            x.pduDestination = self.addrs[peer]
            self.app.response(x)
        self._guard(go)
        m = {k: v for k, v in a.items() if k in ("t", "svc", "id", "reason", "srv", "hex", "seq", "win")}
        if t == 4:
            m["srv"] = 1
        return self._finish({"op": "ev", "e": "rsp", "peer": peer, "a": m})

    def frame(self, peer, a):
        """an APDU from `peer` with header dict `a` (driver protocol keys)"""
        from bacpypes.apdu import APDU
        from bacpypes.pdu import PDU
        if a["t"] <= 7:
            pdu = PDU(wire_of(a), source=self.addrs[peer], destination=self.local)
            apdu = APDU()
            apdu.decode(pdu)             # APCI.decode, as the NSAP does
        else:                            # type the wire decoder refuses: hand over the object
            apdu = APDU()
            apdu.apduType = a["t"]
            apdu.apduInvokeID = a.get("id", 0)
            apdu.pduSource = self.addrs[peer]
            apdu.pduDestination = self.local
        seen = apdu_fields(apdu)
        self._guard(lambda: self.net.response(apdu))
        return self._finish({"op": "ev", "e": "frame", "peer": peer, "a": seen})

    def frame_reenter(self, peer, a, re):
        """like frame(), but the stub application submits the confirmed request `re`
        ({"peer","svc","data","id"}) from INSIDE the confirmation callback this frame causes
        (if it causes one).  For the model this is the `frame` event followed at once by a
        `request` event; the frame line carries the marker "re" (ignored by the driver, used
        by replays).  Returns (reply of the frame event, reply of the request event | None)."""
        from bacpypes.apdu import APDU
        from bacpypes.pdu import PDU
        pdu = PDU(wire_of(a), source=self.addrs[peer], destination=self.local)
        apdu = APDU()
        apdu.decode(pdu)
        seen = apdu_fields(apdu)
        self._re = dict(re)
        self._re_line = None
        self._re_frame_line = {"op": "ev", "e": "frame", "peer": peer, "a": seen,
                               "re": {"peer": re["peer"], "svc": re["svc"], "hex": bytes(re["data"]).hex(), "id": re["id"]}}
        n0 = len(self.replies)
        self._guard(lambda: self.net.response(apdu))
        if self._re is not None:
            # no confirmation callback happened: an ordinary frame event
            self._re = None
            line = self._re_frame_line
            self._re_frame_line = None
            line.pop("re")
            return self._finish(line), None
        # the frame event was closed inside the callback; what is in self.outs now belongs to
        # the re-entrant request (and to anything the stack did after it returned)
        r2 = self._finish(self._re_line)
        self._re_line = None
        return self.replies[n0], r2

    def tick(self, dt_us):
        """advance the clock; refuses to jump over a due task"""
        self.outs = []
        self.wire = []
        target = self.vt.now + dt_us / 1e6
        if self.vt.tm.tasks and self.vt.tm.tasks[0][0] < target:
            target = self.vt.tm.tasks[0][0]          # never jump over a due task
            dt_us = int(round((target - self.vt.now) * 1e6))
            if dt_us <= 0:
                return None
        self.vt.now = target
        return self._finish({"op": "ev", "e": "tick", "dt": dt_us})

    def pending(self):
        """[(due µs, srv, peer, id)] of armed transaction timers, scheduler order"""
        out = []
        for when, n, task in sorted(self.vt.tm.tasks, key=lambda x: (x[0], x[1])):
            if isinstance(task, self.AS.SSM):
                out.append((int(round((when - START) * 1e6)), isinstance(task, self.AS.ServerSSM),
                            self.peer_of(task.pdu_address), task.invokeID))
        return out

    def fire_next(self):
        """jump to the earliest armed timer and run exactly that task through
        the real TaskManager; returns the replies of the tick and of the timeout"""
        tm = self.vt.tm
        if not tm.tasks:
            return None
        when, _n2, task = tm.tasks[0]
        if not isinstance(task, self.AS.SSM):
            raise core.Infra("foreign task in the heap")
        dt = int(round((when - self.vt.now) * 1e6))
        r1 = None
        if dt > 0:
            self.outs = []
            self.wire = []
            self.vt.now = when
            r1 = self._finish({"op": "ev", "e": "tick", "dt": dt})
        srv = isinstance(task, self.AS.ServerSSM)
        peer, inv = self.peer_of(task.pdu_address), task.invokeID
        def go():
            t, _delta = tm.get_next_task()
            assert t is task
            tm.process_task(t)
        self._guard(go)
        r2 = self._finish({"op": "ev", "e": "timeout", "srv": 1 if srv else 0, "peer": peer, "id": inv})
        return r1, r2

    def iam_octets(self, instance, max_apdu, seg_code, vendor=999):
        """an I-Am APDU written BY HAND (unconfirmed request, service 0): object identifier
        (device, instance), unsigned max APDU, enumerated segmentation `seg_code` (the
        STANDARD's numbers: 0 both, 1 transmit, 2 receive, 3 none), unsigned vendor id"""
        def unsigned(v):
            n = max(1, (v.bit_length() + 7) // 8)
            return bytes([0x20 | n]) + v.to_bytes(n, "big")
        return (bytes([0x10, 0x00, 0xC4]) + ((8 << 22) | instance).to_bytes(4, "big")
                + unsigned(max_apdu) + bytes([0x91, seg_code]) + unsigned(vendor))

    def decode_iam(self, octets, addr):
        """decode I-Am octets with the LIBRARY the way the stack does on reception"""
        from bacpypes.apdu import APDU, UnconfirmedRequestPDU, IAmRequest
        from bacpypes.pdu import PDU
        apdu = APDU()
        apdu.decode(PDU(octets, source=addr, destination=self.local))
        x = UnconfirmedRequestPDU()
        x.decode(apdu)
        iam = IAmRequest()
        iam.decode(x)
        return iam

    def iam_real(self, instance, peer, max_apdu, seg):
        """an I-Am from device `instance` at address `peer` reaches the application, which
        does what applications do: deviceInfoCache.iam_device_info(apdu).  The capabilities
        travel as OCTETS (seg = index into SEG_NAMES, translated by SEG_CODES, a table owned
        by the harness) so that the library's own enumeration values are part of the test."""
        iam = self.decode_iam(self.iam_octets(instance, max_apdu, SEG_CODES[seg]), self.addrs[peer])
        self.cache.iam_device_info(iam)
        return iam

    def _learn_real(self, peer, info):
        """what an application does on an I-Am (+ reading Max_Segments_Accepted)"""
        self.iam_real(1000 + peer, peer, info["maxApdu"] if info["maxApdu"] is not None else 1024, info["seg"])
        rec = self.cache.get_device_info(self.addrs[peer])
        if rec is None:
            if self.strict_learn:
                raise LearnError("DeviceInfoCache.iam_device_info did not store the record of a new device")
            # fall back to what the repository's own tests do: put the record in by hand
            from bacpypes.app import DeviceInfo
            rec = DeviceInfo(1000 + peer, self.addrs[peer])
            rec.maxApduLengthAccepted = info["maxApdu"] if info["maxApdu"] is not None else 1024
            rec.segmentationSupported = SEG_NAMES[info["seg"]]
            self.cache.cache[self.addrs[peer]] = rec
            self.cache.cache[1000 + peer] = rec
            self.cache.update_device_info(rec)
        if info["maxApdu"] is None:
            rec.maxApduLengthAccepted = None
        rec.maxSegmentsAccepted = info["maxSegs"]
        rec.maxNpduLength = info["maxNpdu"]

    def view(self, peer):
        """the record the cache returns for the address of `peer`, as the model's `info`"""
        rec = self.cache.get_device_info(self.addrs[peer])
        if rec is None:
            return None
        seg = rec.segmentationSupported
        return {"maxApdu": rec.maxApduLengthAccepted, "seg": SEG_NAMES.index(seg) if seg in SEG_NAMES else -1,
                "maxSegs": rec.maxSegmentsAccepted, "maxNpdu": rec.maxNpduLength, "id": rec.deviceIdentifier}

    def iam(self, instance, peer, max_apdu, seg, peers=(0, 1, 2, 3)):
        """an I-Am of ANY device instance from ANY address (cache histories).  The model is
        told, per address whose visible record changed, what the cache now returns for it
        (`learn` events).  Returns the list of replies."""
        before = {q: self.view(q) for q in peers}
        self.outs = []
        self.wire = []
        self.iam_real(instance, peer, max_apdu, seg)
        out = []
        for q in peers:
            v = self.view(q)
            if v is not None and v != before[q] and v["seg"] >= 0:
                info = {k: v[k] for k in ("maxApdu", "seg", "maxSegs", "maxNpdu")}
                out.append(self._finish({"op": "ev", "e": "learn", "peer": q, "info": info}))
        return out

    def learn(self, peer, info):
        self.outs = []
        self.wire = []
        self._learn_real(peer, info)
        return self._finish({"op": "ev", "e": "learn", "peer": peer, "info": dict(info)})

    def set_dcc(self, d):
        self.outs = []
        self.wire = []
        self.smap.dccEnableDisable = ['enable', 'disable', 'disableInitiation'][d]
        return self._finish({"op": "ev", "e": "dcc", "d": d})

    # ---- model side --------------------------------------------------
    def lines(self):
        return [self.reset_line] + self.events

    def impl_replies(self):
        return [{"r": "ok"}] + self.replies


def br_sig(case, reply):
    """coverage signature from the model's branch string"""
    return reply.get("br", "") if isinstance(reply, dict) else ""


def compare(ctx, stream, locks, exe="drv_c11"):
    """send every lock's event lines to the model driver as ONE batch and diff
    the reply streams event by event; the model's `br` (branch path) is the
    coverage signature.  The first differing event of a scenario is recorded
    as a correspondence disagreement whose case is the whole event prefix
    (replayable); later differences of the same scenario are consequences."""
    if not ctx.model_ok:
        for l in locks:
            ctx.count(stream, n=len(l.events))
        return
    lines = []
    for l in locks:
        lines += l.lines()
    model = core.Driver(exe).ask(lines)
    pos = 0
    for l in locks:
        mine = model[pos:pos + 1 + len(l.events)]
        pos += 1 + len(l.events)
        impl = l.impl_replies()
        ctx.streams[stream] += len(l.events)
        bad = False
        for i, (a, m) in enumerate(zip(impl, mine)):
            if isinstance(m, dict) and m.get("r") == "bad-request":
                raise core.Infra("model rejected request %r: %r" % (l.lines()[i], m))
            if i == 0:
                continue
            br = m.get("br", "")
            ctx.count(stream, br, trivial=br.startswith("tick"))
            if not bad and core.canon(a) != core.canon(core.strip_br(m)):
                bad = True
                ctx.disagree(stream, {"reset": l.reset_line, "events": l.events[:i], "label": getattr(l, "label", "")},
                             a, core.strip_br(m))
