"""
C02 — tag streams are self-delimiting.

Correspondence streams (model = lean/Drv/C02.lean over Model.Tag):
  enc  : TagList.encode of generated tag lists (class x number x length grid)
  dec  : TagList.decode of octet strings (exhaustive short ones, mutated valid
         streams, random ones) + re-encoding
  ctx  : TagList.get_context over nesting shapes
  any  : Any.decode over nesting shapes
Implementation-side oracle (independent of the model):
  decode(encode(ts)) == ts with every octet consumed; header escapes as the
  standard prescribes; decode(b) ok -> decode(encode(decode(b))) == decode(b);
  only InvalidTag may be raised; get_context / Any.decode agree with a
  straightforward stack-based reference.
"""
import itertools
from . import core

LEAN_TARGETS = ["BacVerif.Props.C02", "drv_c02"]
LEANCHECKER = ["BacVerif.Props.C02"]
LEVEL = "proof"
RULE = ("tag lists over class x number{0,1,14,15,16,254,255} x data length grid; all octet strings "
        "of length <=2 (quick) / <=3 (thorough) exhaustively; mutated valid streams; random octets; "
        "all open/close/app/ctx shapes up to length 6 (quick 5) for get_context and Any.decode. "
        "distinct = distinct (stream, model reply class) signatures: for dec the tuple of "
        "(class, number, lvt-escape-class) of the decoded tags or the error kind; trivial = empty input")
TRUSTED = ["lean/BacVerif/Model/Tag.lean is a hand transcription of Tag.encode/decode, TagList.*, "
           "Any.decode; tied by the enc/dec/ctx/any correspondence streams",
           "Python bytes/bytearray/struct"]
ASSUMPTIONS = ["tag data length < 2^32 (put_long masks larger lengths; outside the property's domain)"]

LENGTHS = [0, 1, 2, 4, 5, 6, 253, 254, 255, 256, 65535, 65536, 70000]
NUMBERS = [0, 1, 2, 14, 15, 16, 127, 254, 255]


def impl_tag(t):
    from bacpypes.primitivedata import Tag
    return Tag(t[0], t[1], t[2], bytes.fromhex(t[3]))


def jtag(tag):
    return [tag.tagClass, tag.tagNumber, tag.tagLVT, bytes(tag.tagData).hex()]


def impl(case):
    from bacpypes.primitivedata import TagList
    from bacpypes.pdu import PDUData
    from bacpypes.constructeddata import Any
    op = case["op"]
    try:
        if op == "enc":
            tl = TagList([impl_tag(t) for t in case["tags"]])
            pdu = PDUData()
            tl.encode(pdu)
            return {"r": "ok", "hex": bytes(pdu.pduData).hex()}
        if op == "dec" and case.get("via"):
            return impl_via(case)
        if op == "dec":
            pdu = PDUData(bytes.fromhex(case["hex"]))
            tl = TagList()
            tl.decode(pdu)
            out = PDUData()
            tl.encode(out)
            return {"r": "ok", "tags": [jtag(t) for t in tl.tagList], "re": bytes(out.pduData).hex()}
        if op == "ctx":
            tl = TagList([impl_tag(t) for t in case["tags"]])
            r = tl.get_context(case["c"])
            if r is None:
                return {"r": "ok", "kind": "none"}
            if isinstance(r, TagList):
                return {"r": "ok", "kind": "group", "tags": [jtag(t) for t in r.tagList]}
            return {"r": "ok", "kind": "tag", "tag": jtag(r)}
        if op == "ctxseq":
            # a sequence of get_context / Pop / push on ONE TagList object: every lookup must answer as a
            # fresh list holding the current tags would
            tl = TagList([impl_tag(t) for t in case["tags"]])
            out = []
            popped = []
            for step in case["steps"]:
                if step[0] == "get":
                    try:
                        r = tl.get_context(step[1])
                        if r is None:
                            out.append(["none"])
                        elif isinstance(r, TagList):
                            out.append(["group", [jtag(t) for t in r.tagList]])
                        else:
                            out.append(["tag", jtag(r)])
                    except Exception as e:
                        out.append(["err", core.exc_kind(e)])
                elif step[0] == "pop":
                    t = tl.Pop()
                    if t is not None:
                        popped.append(t)
                    out.append(["popped", None if t is None else jtag(t)])
                elif step[0] == "push":
                    if popped:
                        tl.push(popped.pop())
                    out.append(["pushed"])
            return {"r": "ok", "steps": out}
        if op == "any":
            tl = TagList([impl_tag(t) for t in case["tags"]])
            a = Any()
            a.decode(tl)
            return {"r": "ok", "taken": [jtag(t) for t in a.tagList.tagList],
                    "rest": [jtag(t) for t in tl.tagList]}
    except Exception as e:
        return {"r": "err", "k": core.exc_kind(e)}
    raise core.Infra("bad op")


VIAS = ["scratch", "scratch-set", "comm.PDUData", "comm.PDU", "pdu.PDU", "pdu.PDUData", "ctor", "tagctor",
        "mutate", "bytearray", "classctor"]
_keep = []          # decoded tags kept alive across cases (object identity / aliasing oracle)


def impl_via(case):
    """the same octets decoded the other ways the library's own callers do it: one scratch Tag object
    walked over the stream, every buffer class of comm.py / pdu.py, the constructor forms; `mutate`
    additionally appends IN PLACE to every mutable tagData it got back (what OctetString.value += ... and
    the segment reassembly do to decoded buffers) AFTER recording the result.  Every variant must answer
    exactly as the plain path does (the model is told nothing about the variant)."""
    import bacpypes.comm as comm
    import bacpypes.pdu as pdu_mod
    from bacpypes.primitivedata import Tag, TagList
    via = case["via"]
    raw = bytes.fromhex(case["hex"])
    bufcls = {"comm.PDUData": comm.PDUData, "comm.PDU": comm.PDU, "pdu.PDU": pdu_mod.PDU,
              "pdu.PDUData": pdu_mod.PDUData}.get(via, pdu_mod.PDUData)
    buf = bufcls(bytearray(raw) if via == "bytearray" else raw)
    out = pdu_mod.PDUData()
    alias = None
    if via in ("scratch", "scratch-set"):
        t = Tag()
        if via == "scratch-set":
            t.set(Tag.applicationTagClass, 6, 3, b"abc")
        tags = []
        while buf.pduData:
            t.decode(buf)
            tags.append(jtag(t))
            t.encode(out)
        return {"r": "ok", "tags": tags, "re": bytes(out.pduData).hex()}
    if via == "classctor":
        # the class-checking constructors ApplicationTag(pdu) / ContextTag(pdu) / OpeningTag(pdu) /
        # ClosingTag(pdu): told the class the plain decode found they must give the same tag; told another
        # class, or given a buffer with nothing (left) in it, they must refuse with InvalidTag
        from bacpypes.primitivedata import ApplicationTag, ContextTag, OpeningTag, ClosingTag
        from bacpypes.errors import InvalidTag
        ctors = [ApplicationTag, ContextTag, OpeningTag, ClosingTag]
        plain = impl({"op": "dec", "hex": case["hex"]})
        if plain.get("r") == "ok":
            tl = TagList()
            for t in plain["tags"]:
                other = ctors[(t[0] + 1) % 4]
                probe = bufcls(bytes(buf.pduData))
                try:
                    other(probe)
                    return {"r": "err", "k": "python:WrongClassAccepted"}
                except InvalidTag:
                    pass
                tl.append(ctors[t[0]](buf))
            for c in ctors:                       # nothing left now
                try:
                    c(buf)
                    return {"r": "err", "k": "python:EmptyAccepted"}
                except InvalidTag:
                    pass
        else:
            tl = TagList()
            while buf.pduData:
                lead = buf.pduData[0]
                cls = 2 if (lead & 0x0F) == 0x0E else 3 if (lead & 0x0F) == 0x0F else 1 if lead & 0x08 else 0
                tl.append(ctors[cls](buf))
    elif via == "ctor":
        tl = TagList(buf)
        if buf.pduData:
            return {"r": "err", "k": "python:NotConsumed"}
    elif via == "tagctor":
        tl = TagList()
        while buf.pduData:
            tl.append(Tag(buf))
    else:
        tl = TagList()
        tl.decode(buf)
    tl.encode(out)
    res = {"r": "ok", "tags": [jtag(t) for t in tl.tagList], "re": bytes(out.pduData).hex()}
    # aliasing: no two decoded tags (of this list or of earlier ones still alive) share a mutable buffer
    mut = [t for t in tl.tagList if isinstance(t.tagData, bytearray)]
    seen = {}
    for t in _keep + mut:
        if id(t.tagData) in seen and seen[id(t.tagData)] is not t:
            alias = "two decoded tags share one tagData object"
        seen[id(t.tagData)] = t
    if via == "mutate":
        for t in mut:
            t.tagData += b"\x55"
        _keep.extend(mut[:2])
        del _keep[:-16]
    if alias:
        res["alias"] = alias
    return res


# ---------------------------------------------------------------- oracle

def expected_header(t):
    """the standard's header for a well-formed tag, written independently"""
    cls, num, lvt, _ = t
    first = {0: 0, 1: 8, 2: 0x0E, 3: 0x0F}[cls]
    out = []
    first |= (num << 4) if num < 15 else 0xF0
    if cls in (0, 1):
        first |= lvt if lvt < 5 else 5
    out.append(first)
    if num >= 15:
        out.append(num)
    if cls in (0, 1) and lvt >= 5:
        if lvt <= 253:
            out.append(lvt)
        elif lvt <= 65535:
            out += [254, lvt >> 8, lvt & 255]
        else:
            out += [255, (lvt >> 24) & 255, (lvt >> 16) & 255, (lvt >> 8) & 255, lvt & 255]
    return bytes(out)


def ref_get_context(tags, c):
    """reference: first top-level item with context c"""
    i, n = 0, len(tags)
    while i < n:
        cls, num = tags[i][0], tags[i][1]
        if cls == 0:
            i += 1
        elif cls == 1:
            if num == c:
                return ("tag", tags[i])
            i += 1
        elif cls == 2:
            depth, j = 0, i + 1
            while j < n:
                if tags[j][0] == 2:
                    depth += 1
                elif tags[j][0] == 3:
                    if depth == 0:
                        break
                    depth -= 1
                j += 1
            if j >= n:
                return ("err",)
            if num == c:
                return ("group", tags[i + 1:j])
            i = j + 1
        else:
            return ("err",)
    return ("none",)


def ref_any(tags):
    depth = 0
    for j, t in enumerate(tags):
        if t[0] == 2:
            depth += 1
        elif t[0] == 3:
            if depth == 0:
                return ("ok", tags[:j], tags[j:])
            depth -= 1
    return ("err",) if depth > 0 else ("ok", tags, [])


def oracle(ctx, case, a):
    op = case["op"]
    if a.get("r") == "err" and a["k"].startswith("python:"):
        ctx.fail("unexpected-exception", case, "raised %s (only InvalidTag/DecodingError allowed)" % a["k"])
        return
    if op == "enc" and a.get("r") == "ok" and len(a["hex"]) < 4000:
        # the same list encoded the other ways callers do it: into each buffer class, behind octets that
        # are already there, twice from the same objects
        import bacpypes.comm as comm
        import bacpypes.pdu as pdu_mod
        from bacpypes.primitivedata import TagList
        tl = TagList([impl_tag(t) for t in case["tags"]])
        for name, mk in (("comm.PDUData", comm.PDUData), ("comm.PDU", comm.PDU), ("pdu.PDU", pdu_mod.PDU)):
            try:
                buf = mk(b"\x01\x02")
                tl.encode(buf)
                got = bytes(buf.pduData).hex()
            except Exception as e:
                got = "raised " + core.exc_kind(e)
            if got != "0102" + a["hex"]:
                ctx.fail("usage-dependent", case, "encoding the same tag objects again into a %s holding 01 02 gives %s" % (name, got[:80]))
                break
    if op == "enc" and a.get("r") == "ok" and len(a["hex"]) < 4000 and case["tags"]:
        # tags built from a caller's bytearray (every construction form) that the caller goes on using:
        # the tag must hold what it was given
        from bacpypes.primitivedata import Tag, TagList, ApplicationTag, ContextTag
        import bacpypes.pdu as pdu_mod
        for form in ("ctor", "set", "set_app_data", "subclass"):
            tags, scratch = [], []
            for t in case["tags"]:
                data = bytearray(bytes.fromhex(t[3]))
                scratch.append(data)
                if form == "ctor" or t[0] in (2, 3) or (t[0] == 0 and t[1] == 1):
                    tags.append(Tag(t[0], t[1], t[2], data))
                elif form == "set":
                    x = Tag(); x.set(t[0], t[1], t[2], data); tags.append(x)
                elif form == "set_app_data" and t[0] == 0:
                    x = Tag(); x.set_app_data(t[1], data); tags.append(x)
                elif form == "subclass":
                    tags.append((ApplicationTag if t[0] == 0 else ContextTag)(t[1], data))
                else:
                    tags.append(Tag(t[0], t[1], t[2], data))
            for d in scratch:                       # the caller reuses its buffers
                d += b"\xee\xee"
                if len(d) > 2:
                    d[0] ^= 0xFF
            try:
                buf = pdu_mod.PDUData()
                TagList(tags).encode(buf)
                got = bytes(buf.pduData).hex()
            except Exception as e:
                got = "raised " + core.exc_kind(e)
            if got != a["hex"]:
                ctx.fail("usage-dependent", case, "tags built (%s) from bytearrays the caller changed afterwards encode to %s" % (form, got[:80]))
                break
    if op == "enc" and a.get("r") == "ok" and len(a["hex"]) < 4000 and case["tags"]:
        # ONE Tag object filled again and again (set / set_app_data) and encoded after each filling, twice
        from bacpypes.primitivedata import Tag
        import bacpypes.pdu as pdu_mod
        t = Tag()
        buf = pdu_mod.PDUData()
        try:
            for spec in case["tags"]:
                data = bytes.fromhex(spec[3])
                if spec[0] == 0 and spec[1] != 1 and spec[2] == len(data):
                    t.set_app_data(spec[1], data)
                else:
                    t.set(spec[0], spec[1], spec[2], data)
                once = pdu_mod.PDUData()
                t.encode(once)
                t.encode(buf)
                if bytes(once.pduData) != expected_header(spec) + data:
                    raise ValueError("a re-filled Tag object encodes to %s" % bytes(once.pduData).hex()[:60])
            got = bytes(buf.pduData).hex()
        except Exception as e:
            got = "raised " + str(e)[:100]
        if got != a["hex"]:
            ctx.fail("usage-dependent", case, "one Tag object re-filled for each tag of the list and encoded: %s" % got[:100])
    if op == "enc":
        # decode(encode(ts)) == ts, every octet consumed; canonical headers
        back = impl({"op": "dec", "hex": a["hex"]})
        if back.get("r") != "ok" or back["tags"] != case["tags"]:
            ctx.fail("roundtrip", case, "decode(encode(tags)) != tags: %r" % (back,))
        exp = b"".join(expected_header(t) + bytes.fromhex(t[3]) for t in case["tags"])
        if exp.hex() != a["hex"]:
            ctx.fail("canonical", case, "octets differ from the standard's escapes")
        # self-delimiting: a stream cut INSIDE its last tag must be refused (no misread of a
        # partly present header or length field, no short data)
        if case["tags"] and a["hex"] == exp.hex():
            last = expected_header(case["tags"][-1]) + bytes.fromhex(case["tags"][-1][3])
            head = exp[:len(exp) - len(last)]
            cuts = set(range(1, min(len(last), 8))) | {len(last) - 1} - {0}
            for k in sorted(c for c in cuts if 0 < c < len(last)):
                pre = head + last[:k]
                r = impl({"op": "dec", "hex": pre.hex()})
                if r.get("r") == "ok":
                    ctx.fail("prefix-accepted", {"op": "dec", "hex": pre.hex() if len(pre) < 200 else pre[-40:].hex(),
                                                 "cut_inside_last_tag_at": k, "tags": case["tags"] if len(str(case["tags"])) < 300 else "(long)"},
                             "a stream truncated inside a tag was accepted as %d tag(s)" % len(r["tags"]))
                    break
    elif op == "dec":
        if a.get("alias"):
            ctx.fail("alias", case, a.pop("alias"))
        if a["r"] == "ok":
            # a decoded tag is self-consistent: LVT is the length of its data (the value, without data,
            # for an application boolean; nothing for opening/closing)
            for t in a["tags"]:
                want = 0 if (t[0] in (2, 3) or (t[0] == 0 and t[1] == 1)) else t[2]
                if len(t[3]) // 2 != want:
                    ctx.fail("tag-inconsistent", case, "decoded tag %r: LVT/class prescribe %d data octets, it holds %d" % (
                        [t[0], t[1], t[2], t[3][:40]], want, len(t[3]) // 2))
                    break
        if case.get("via"):
            plain = impl({"op": "dec", "hex": case["hex"]})
            if {k: v for k, v in a.items() if k != "alias"} != plain:
                ctx.fail("usage-dependent", case, "decoding via %s answers %s, the plain TagList.decode of the same octets answers %s" % (
                    case["via"], str(a)[:200], str(plain)[:200]))
        if a["r"] == "ok":
            back = impl({"op": "dec", "hex": a["re"]})
            if back.get("r") != "ok" or back["tags"] != a["tags"]:
                ctx.fail("reparse", case, "re-encoding does not decode to the same list")
            # no over-read: data lengths must fit the input
            total = sum(len(t[3]) // 2 for t in a["tags"])
            if total > len(case["hex"]) // 2:
                ctx.fail("overread", case, "decoded more data octets than the input has")
        elif a["k"] != "invalidTag":
            ctx.fail("wrong-error", case, "decoder failed with %s" % a["k"])
    elif op == "ctx":
        ref = ref_get_context(case["tags"], case["c"])
        got = ("err",) if a["r"] == "err" else \
              ("none",) if a["kind"] == "none" else \
              ("tag", a["tag"]) if a["kind"] == "tag" else ("group", a["tags"])
        if a["r"] == "err" and a["k"] != "invalidTag":
            ctx.fail("wrong-error", case, "get_context failed with %s" % a["k"])
        elif got != ref:
            ctx.fail("get-context", case, "expected %r got %r" % (ref, got))
    elif op == "ctxseq":
        cur = list(case["tags"])
        popped = []
        for step, got in zip(case["steps"], a["steps"]):
            if step[0] == "get":
                ref = ref_get_context(cur, step[1])
                g = ("err",) if got[0] == "err" else ("none",) if got[0] == "none" else (got[0], got[1])
                if g != ref:
                    ctx.fail("get-context-stateful", case, "lookup %r on a list that was looked up before answers %r, a fresh list answers %r" % (
                        step, g, ref))
                    break
            elif step[0] == "pop":
                if cur:
                    popped.append(cur.pop(0))
            elif step[0] == "push":
                if popped:
                    cur.insert(0, popped.pop())
    elif op == "any":
        ref = ref_any(case["tags"])
        got = ("err",) if a["r"] == "err" else ("ok", a["taken"], a["rest"])
        if got != ref:
            ctx.fail("any-decode", case, "expected %r got %r" % (ref, got))


# ---------------------------------------------------------------- generators

def mk_tag(cls, num, length, rng):
    if cls in (2, 3):
        return [cls, num, 0, ""]
    if cls == 0 and num == 1:
        return [0, 1, rng.choice([0, 1, 4, 5, 253, 254, 65536]), ""]
    data = bytes(rng.getrandbits(8) for _ in range(min(length, 8))) + bytes(max(0, length - 8))
    return [cls, num, length, data.hex()]


def gen_enc(ctx, rng):
    cases = []
    # full cross product, one tag per list, then pairs/triples
    singles = []
    for cls in range(4):
        for num in NUMBERS:
            for ln in (LENGTHS if cls in (0, 1) else [0]):
                singles.append(mk_tag(cls, num, ln, rng))
    for t in singles:
        cases.append({"op": "enc", "tags": [t]})
    n = 300 if ctx.quick else 6000
    small = [t for t in singles if t[2] <= 256 or t[0] == 0 and t[1] == 1]
    for _ in range(n):
        k = rng.choice([0, 2, 3, 5, 9])
        pool = singles if rng.random() < 0.15 else small
        cases.append({"op": "enc", "tags": [rng.choice(pool) for _ in range(k)]})
    return cases


def gen_dec_exhaustive(lo, hi, length):
    """all octet strings of the given length whose integer value is in [lo,hi)"""
    for v in range(lo, hi):
        yield {"op": "dec", "hex": v.to_bytes(length, "big").hex() if length else ""}


def gen_dec_mutated(ctx, rng, enc_cases, impl_enc):
    cases = []
    n = 1500 if ctx.quick else 40000
    valid = [bytes.fromhex(r["hex"]) for r in impl_enc if r.get("r") == "ok" and 0 < len(r["hex"]) < 1200]
    for _ in range(n):
        b = bytearray(rng.choice(valid))
        kind = rng.randrange(5)
        if kind == 0 and b:
            b[rng.randrange(len(b))] = rng.getrandbits(8)
        elif kind == 1 and b:
            del b[rng.randrange(len(b)):]
        elif kind == 2:
            b.insert(rng.randrange(len(b) + 1), rng.getrandbits(8))
        elif kind == 3 and b:
            del b[rng.randrange(len(b))]
        else:
            b = bytearray(rng.getrandbits(8) for _ in range(rng.choice([4, 5, 6, 8, 12, 40])))
        cases.append({"op": "dec", "hex": bytes(b).hex()})
    return cases


def gen_via(ctx, rng, dec_cases):
    """usage histories inside ONE process: the decode variants over directed streams (zero-length tags,
    booleans after data tags) and a sample of the mutated streams; `mutate` cases come early and are
    interleaved so that whatever they leave behind is seen by the cases that follow"""
    directed = ["", "00", "0e0f", "60", "08", "70", "80", "1e1f", "6361626311", "11", "10", "636162631100",
                "6361626310", "2e0f", "3e65036162633f", "0e00600f", "11" * 5, "6361626311" * 3, "09001901",
                "650661626364656611", "75080061626364656667" + "10", "0e" + "6103616263"[0:0] + "0f" + "11"]
    pool = directed + [c["hex"] for c in dec_cases[: (300 if ctx.quick else 4000)] if len(c["hex"]) < 400]
    cases = []
    for i, h in enumerate(pool):
        vs = VIAS if i < len(directed) else [rng.choice(VIAS), "mutate" if i % 3 == 0 else rng.choice(VIAS)]
        for v in vs:
            cases.append({"op": "dec", "hex": h, "via": v})
    # and once more the directed ones after all the mutation that went before
    cases += [{"op": "dec", "hex": h, "via": v} for h in directed for v in ("pdu.PDUData", "scratch")]
    return cases


def service_layer(ctx, rng):
    """the tag codec as the service layer drives it (APCISequence.encode / .decode keep a tag list on the
    PDU object): the same request object encoded again gives the same octets; decoding into an object that
    was used before gives what a fresh object gives"""
    from bacpypes.apdu import (APDU, WhoIsRequest, IAmRequest, ReadPropertyRequest, WritePropertyRequest,
                               ReadPropertyACK, SubscribeCOVRequest)
    from bacpypes.primitivedata import Unsigned, Real, TagList
    from bacpypes.constructeddata import Any
    from bacpypes.pdu import PDUData

    def mk():
        out = [WhoIsRequest(), WhoIsRequest(deviceInstanceRangeLowLimit=rng.randrange(100), deviceInstanceRangeHighLimit=4194303),
               IAmRequest(iAmDeviceIdentifier=("device", rng.randrange(4194303)), maxAPDULengthAccepted=1476,
                          segmentationSupported="segmentedBoth", vendorID=rng.randrange(65536)),
               ReadPropertyRequest(objectIdentifier=("analogValue", rng.randrange(1000)), propertyIdentifier="presentValue"),
               ReadPropertyRequest(objectIdentifier=("device", 1), propertyIdentifier="objectList", propertyArrayIndex=rng.randrange(70000)),
               SubscribeCOVRequest(subscriberProcessIdentifier=rng.randrange(2 ** 32), monitoredObjectIdentifier=("binaryValue", 3),
                                   issueConfirmedNotifications=True, lifetime=rng.randrange(2 ** 20))]
        w = WritePropertyRequest(objectIdentifier=("analogValue", 1), propertyIdentifier="presentValue", priority=8)
        w.propertyValue = Any(); w.propertyValue.cast_in(Real(1.5))
        out.append(w)
        r = ReadPropertyACK(objectIdentifier=("analogValue", 1), propertyIdentifier="presentValue")
        r.propertyValue = Any(); r.propertyValue.cast_in(Unsigned(rng.randrange(2 ** 30)))
        out.append(r)
        return out

    def tags_of(apdu):
        tl = TagList()
        tl.decode(PDUData(bytes(apdu.pduData)))
        return [jtag(t) for t in tl.tagList]

    objs = mk()
    firsts = []
    for o in objs:
        case = {"op": "service-layer", "cls": o.__class__.__name__}
        try:
            x = APDU(); o.encode(x); first = tags_of(x)
            firsts.append((o, x, first))
            for k in range(2):
                y = APDU(); o.encode(y)
                if tags_of(y) != first:
                    ctx.fail("usage-dependent", case, "the same %s object encoded again gives %d tags, the first time %d" % (
                        case["cls"], len(tags_of(y)), len(first)))
                    break
        except Exception as e:
            ctx.fail("unexpected-exception", case, "encoding twice raised %s" % core.exc_kind(e))
        ctx.count("service-layer", ("enc", case["cls"]))
    # a service tag stream with tags left over (a stray primitive, a whole open/close group) is refused by
    # the service layer, not silently accepted
    for (o, x, first) in firsts:
        for extra in ("00", "2105", "3e3f", "1e21051f"):
            case = {"op": "service-layer", "cls": o.__class__.__name__, "trailing": extra}
            y = _copy_apdu(x)
            y.pduData = bytearray(bytes(x.pduData) + bytes.fromhex(extra))
            try:
                fresh = o.__class__()
                fresh.decode(y)
                ctx.fail("trailing-accepted", case, "%s decoded a tag stream with trailing tags %s without complaint" % (case["cls"], extra))
            except Exception as e:
                k = core.exc_kind(e)
                if k.startswith("python:") and type(e).__name__ not in ("TooManyArguments", "DecodingError", "InvalidTag", "InvalidParameterDatatype", "MissingRequiredParameter"):
                    ctx.fail("unexpected-exception", case, "trailing tags: raised %s" % k)
            ctx.count("service-layer", ("trailing", case["cls"], extra))
    # decode into used objects: an object that was ENCODED before, and one that DECODED something else before
    for (o, x, first), (o2, x2, first2) in zip(firsts, firsts[1:] + firsts[:1]):
        case = {"op": "service-layer", "cls": o.__class__.__name__, "after": o2.__class__.__name__}
        try:
            fresh = o.__class__(); fresh.decode(_copy_apdu(x))
            used = o.__class__(**{}) ; z = APDU(); o.encode(z)      # o has been encoded (again) just now
            o.decode(_copy_apdu(x))
            y = APDU(); o.encode(y)
            y2 = APDU(); fresh.encode(y2)
            if tags_of(y) != first or tags_of(y2) != first:
                ctx.fail("usage-dependent", case, "decoding the frame into a %s object that was encoded before and re-encoding gives %d tags, the frame has %d" % (
                    case["cls"], len(tags_of(y)), len(first)))
        except Exception as e:
            ctx.fail("unexpected-exception", case, "decode into a used object raised %s" % core.exc_kind(e))
        ctx.count("service-layer", ("dec", case["cls"]))


def _copy_apdu(x):
    from bacpypes.apdu import APDU
    y = APDU()
    y.update(x)
    y.pduData = bytearray(bytes(x.pduData))
    return y


def gen_shapes(ctx, rng):
    """all shapes over {app, ctx c0, ctx c1, open c0, open c1, close c0, close c1}"""
    alphabet = [[0, 2, 1, "07"], [1, 0, 1, "aa"], [1, 1, 1, "bb"],
                [2, 0, 0, ""], [2, 1, 0, ""], [3, 0, 0, ""], [3, 1, 0, ""]]
    cases = []
    maxlen = 4 if ctx.quick else 6
    for k in range(0, maxlen + 1):
        for combo in itertools.product(range(len(alphabet)), repeat=k):
            tags = [alphabet[i] for i in combo]
            cases.append({"op": "ctx", "tags": tags, "c": 0})
            cases.append({"op": "any", "tags": tags})
    # deeper random nestings (depth up to 4 and more)
    n = 500 if ctx.quick else 20000
    for _ in range(n):
        k = rng.randrange(5, 14)
        tags, depth = [], 0
        for _i in range(k):
            r = rng.random()
            if r < 0.3:
                tags.append(alphabet[3 + rng.randrange(2)]); depth += 1
            elif r < 0.6 and (depth > 0 or rng.random() < 0.1):
                tags.append(alphabet[5 + rng.randrange(2)]); depth -= 1
            else:
                tags.append(alphabet[rng.randrange(3)])
        while depth > 0 and rng.random() < 0.8:
            tags.append(alphabet[5 + rng.randrange(2)]); depth -= 1
        cases.append({"op": "ctx", "tags": tags, "c": rng.randrange(3)})
        cases.append({"op": "any", "tags": tags})
    return cases


# ---------------------------------------------------------------- signatures

def gen_ctxseq(ctx, rng):
    alphabet = [[0, 2, 1, "07"], [1, 0, 1, "aa"], [1, 1, 1, "bb"], [1, 2, 1, "cc"], [1, 4, 1, "dd"],
                [2, 0, 0, ""], [2, 1, 0, ""], [2, 2, 0, ""], [3, 0, 0, ""], [3, 1, 0, ""], [3, 2, 0, ""]]
    cases = []
    directed = [
        ([[1, 2, 1, "cc"], [1, 1, 1, "bb"], [2, 2, 0, ""], [1, 0, 1, "aa"], [3, 2, 0, ""]], [["get", 1], ["get", 2]]),
        ([[1, 0, 1, "aa"], [2, 1, 0, ""], [1, 2, 1, "cc"], [3, 1, 0, ""], [1, 2, 1, "dd"]], [["get", 0], ["pop"], ["get", 2]]),
        ([[1, 1, 1, "bb"], [2, 2, 0, ""], [2, 4, 0, ""], [1, 0, 1, "aa"], [3, 4, 0, ""], [3, 2, 0, ""], [1, 4, 1, "dd"]],
         [["get", 1], ["pop"], ["pop"], ["get", 4]]),
    ]
    for tags, steps in directed:
        cases.append({"op": "ctxseq", "tags": tags, "steps": steps})
    n = 1500 if ctx.quick else 40000
    for _ in range(n):
        k = rng.randrange(3, 10)
        tags, depth = [], 0
        for _i in range(k):
            r = rng.random()
            if r < 0.25:
                tags.append(alphabet[5 + rng.randrange(3)]); depth += 1
            elif r < 0.5 and depth > 0:
                tags.append(alphabet[8 + rng.randrange(3)]); depth -= 1
            else:
                tags.append(alphabet[rng.randrange(5)])
        while depth > 0:
            tags.append(alphabet[8 + rng.randrange(3)]); depth -= 1
        steps = []
        for _j in range(rng.randrange(2, 6)):
            r = rng.random()
            steps.append(["get", rng.choice([0, 1, 2, 4])] if r < 0.6 else ["pop"] if r < 0.85 else ["push"])
        cases.append({"op": "ctxseq", "tags": tags, "steps": steps})
    return cases


def gen_noncanonical(ctx, rng):
    """octet strings using the forms the encoder never produces: extended tag-number octet carrying a
    number < 15, length escapes carrying a small length, opening/closing with the class bit clear"""
    cases = []
    for lead_lvt in range(8):
        for cls in (0, 8):
            for num in (0, 1, 2, 14, 15):
                lead = 0xF0 | cls | lead_lvt
                for tail in (b"", b"\x00", b"\x01", b"\x00\x00", b"\x02\x00\x00", b"\xfe\x00\x01\xaa", b"\xff\x00\x00\x00\x01\xaa",
                             b"\x04\x01\x02\x03\x04", b"\x01\xaa\x11", b"\x00\x11\x00"):
                    cases.append({"op": "dec", "hex": (bytes([lead, num]) + tail).hex()})
    for first in (0x05, 0x0D, 0x15, 0x1D, 0x25, 0x2D):
        for ext in (b"\x00", b"\x01\xaa", b"\x04\x01\x02\x03\x04", b"\xfe\x00\x00", b"\xfe\x00\x02\xaa\xbb",
                    b"\xff\x00\x00\x00\x00", b"\xff\x00\x00\x00\x01\xcc"):
            cases.append({"op": "dec", "hex": (bytes([first]) + ext).hex()})
            cases.append({"op": "dec", "hex": (bytes([first]) + ext + b"\x11\x00").hex()})
    return cases


def esc_class(lvt):
    return 0 if lvt < 5 else 1 if lvt <= 253 else 2 if lvt <= 65535 else 3


def sig(case, m):
    if m.get("r") == "err":
        return ("err", m["k"], len(case.get("hex", "")) // 2 if case["op"] == "dec" else len(case.get("tags", [])))
    if case["op"] == "dec" and case.get("via"):
        return (case["via"],) + tuple((t[0], min(t[1], 16), esc_class(t[2])) for t in m["tags"][:2])
    if case["op"] == "dec":
        return tuple((t[0], min(t[1], 16), esc_class(t[2])) for t in m["tags"][:4])
    if case["op"] == "enc":
        return tuple((t[0], min(t[1], 16), esc_class(t[2])) for t in case["tags"][:4])
    if case["op"] == "ctx":
        return (m["kind"], tuple(t[0] for t in case["tags"][:8]))
    if case["op"] == "ctxseq":
        return ("ctxseq",)
    return (len(m["taken"]), tuple(t[0] for t in case["tags"][:8]))


# ---------------------------------------------------------------- run

def run_cases(ctx, stream, cases):
    drv = core.Driver("drv_c02") if ctx.model_ok else None
    a = [impl(c) for c in cases]
    for c, r in zip(cases, a):
        oracle(ctx, c, r)
    if drv:
        b = drv.ask(cases)
        ctx.compare_stream(stream, cases, a, b, sig=sig)
    else:
        for c in cases:
            ctx.count(stream)
    for c in cases[:2]:
        ctx.sample({"stream": stream, "case": c if len(str(c)) < 400 else str(c)[:400]})
    return a


def shard_dec(ctx, spec):
    length, lo, hi = spec
    cases = list(gen_dec_exhaustive(lo, hi, length))
    run_cases(ctx, "dec-exhaustive-%d" % length, cases)


def run(ctx):
    rng = ctx.sub_rng("c02")
    enc = gen_enc(ctx, rng)
    impl_enc = run_cases(ctx, "enc", enc)
    mutated = gen_dec_mutated(ctx, rng, enc, impl_enc)
    run_cases(ctx, "dec-mutated", mutated)
    run_cases(ctx, "dec-via", gen_via(ctx, rng, mutated))
    for _ in range(4 if ctx.quick else 40):
        service_layer(ctx, rng)
    shapes = gen_shapes(ctx, rng)
    run_cases(ctx, "shapes", shapes)
    run_cases(ctx, "noncanonical", gen_noncanonical(ctx, rng))
    # stateful lookups: implementation vs. an independent reference on the current list (the model has
    # no object identity: get_context is a pure function there, so this stream is oracle-only)
    seq = gen_ctxseq(ctx, rng)
    for c in seq:
        r = impl(c)
        oracle(ctx, c, r)
        ctx.count("ctxseq", (tuple(st[0] for st in c["steps"]), tuple(t[0] for t in c["tags"][:6])))
    ctx.sample({"stream": "ctxseq", "case": seq[1]})
    # exhaustive short octet strings
    specs = [(0, 0, 1), (1, 0, 256)]
    step = 8192
    specs += [(2, lo, min(lo + step, 65536)) for lo in range(0, 65536, step)]
    if not ctx.quick:
        step3 = 1 << 18
        specs += [(3, lo, min(lo + step3, 1 << 24)) for lo in range(0, 1 << 24, step3)]
    core.run_shards(ctx, "harness.c02", "shard_dec", specs)
    ctx.exhaustive = False
    ctx.extra["exhaustive_octet_string_length"] = 2 if ctx.quick else 3


def search(ctx):
    """focused failing-input search around disagreements: already covered by the
    oracle over the same streams; widen the mutation stream"""
    rng = ctx.sub_rng("c02-search")
    enc = gen_enc(ctx, rng)
    impl_enc = [impl(c) for c in enc]
    for c, r in zip(enc, impl_enc):
        oracle(ctx, c, r)
    for c in gen_dec_mutated(ctx, rng, enc, impl_enc) * 1:
        oracle(ctx, c, impl(c))


def replay(ctx, payload):
    rec = payload.get("failure") or (payload.get("correspondence_disagreements") or [{}])[0]
    case = rec.get("case")
    if not case:
        raise core.Infra("nothing to replay")
    run_cases(ctx, "replay", [case])
