"""
C03 — every service PDU and constructed type round-trips and matches the standard.

Model  = lean/Drv/C03.lean over Model.Codec and the GENERATED Gen/Schemas.lean.
Tie    = (1) the environment compiled into the driver is compared, entry by
             entry, with the schema walked from the live classes;
         (2) schema-directed values for every one of the constructed types
             and registered PDUs (all presence patterns of optional elements,
             every choice alternative, list lengths 0..3, depth <= 4, boundary
             leaves, Any as balanced tag runs): tag lists, octets, decoded
             value trees, left-over tags and re-encoded octets of model and
             implementation are diffed;
         (3) a malformed stream (mutated valid tag lists) where both sides must
             fail / succeed alike (error kind, consumed tags, shape of the value);
         (4) synthetic environments (classes built at run time) that reach the
             branches of the generic code no shipped class uses — one
             well-formed (oracle applies), one deliberately ill-formed
             (correspondence only: the model must equal the code there too).
         (5) `any`: Any.cast_in / cast_out (and SequenceOfAny's) for every type,
             every atomic class and every (object type, property) datatype inside
             ReadPropertyACK / WriteProperty / COV notification / RPM ack.
         (6) `mutate`: encode, ONE schema-valid modification in place, encode the
             same object again == a fresh object with the new value == the model.
         (7) `decode-first`: fresh interpreter processes that only decode the model's
             tag lists: enumeration leaves must be the NAMES of the model's tables.
         (8) `subclass-history` (fresh processes): run-time subclasses extending library
             sequences, after three encode histories; the model evaluates the extended schema.
         (9) `through-stack` (fresh process): every request / ack class through two real
             stacks; wire octets = NPCI ++ header ++ the model's parameters; + truthiness.
Oracle = on the implementation alone: decode(encode(v)) == v as canonical value
         trees built by walking the class tables (not dict_contents), nothing
         left over, re-encoding gives the identical octets, octets parse back
         to the same tag list; encoding twice / re-encoding twice is stable;
         cast_out(cast_in v) == v, cast_out leaves the Any and the PDU around it
         untouched (re-encode identical, second cast_out equal); a tag after the
         last parameter of a PDU is refused; Annex F examples octet for octet.
"""
import importlib.util, itertools, json, os, subprocess, sys
from . import core

LEAN_TARGETS = ["BacVerif.Props.C03", "drv_c03"]
LEANCHECKER = ["BacVerif.Props.C03"]
LEVEL = "proof"
RULE = ("schema-directed: for each constructed type and each of the 58 registered PDUs every presence "
        "pattern of optional elements (2^k for k<=6, pairwise above), every choice alternative, list "
        "lengths 0..3, nesting depth <=4, leaves from boundary payloads per application type, Any as "
        "random balanced tag runs; plus mutated (malformed) tag lists (9 mutation kinds) and synthetic "
        "schemas (well-formed and ill-formed). distinct = (stream, type, presence pattern / alternative / "
        "list length / boundary leaf / error kind); trivial cases are not counted separately")
TRUSTED = ["lean/BacVerif/Model/Typed.lean (erase / typeVal: C01 leaves around the generic codec) tied by the `typed` stream",
           "lean/BacVerif/Model/Codec.lean is a hand transcription of Sequence/Choice/SequenceOf/ListOf/ArrayOf/"
           "Any/AnyAtomic/NameValue/APCISequence encode+decode; tied by the streams above",
           "translator/c03.py (live introspection -> Gen/Schemas.lean); the compiled table is read back from "
           "the driver and compared with the live classes on every run",
           "the generic codec handles leaves as application-tag payloads; their meaning is composed from C01 "
           "(typed_erase, octets_roundtrip) and compared with the Python attribute values in the `typed` stream",
           "Annex F octets and parameter values are recalled from the standard (not available offline)"]
ASSUMPTIONS = ["leaf payloads are the canonical ones produced by the primitive encoders (C01)",
               "character strings use encoding 0 (the Sequence attribute keeps only the str, not the encoding octet)"]

TRANSLATOR = os.path.join(core.VERIF, "translator", "c03.py")
GEN_OUT = os.path.join(core.LEAN, "BacVerif", "Gen", "Schemas.lean")


def GENERATED(ctx):
    """regenerate Gen/Schemas.lean from the tree under test, in a subprocess"""
    env = dict(os.environ, PYTHONDONTWRITEBYTECODE="1")
    env.pop("PYTHONPATH", None)
    p = subprocess.run([sys.executable, TRANSLATOR, "--repo", core.REPO, "--out", GEN_OUT],
                       stdout=subprocess.PIPE, stderr=subprocess.STDOUT, text=True, env=env, timeout=300)
    if p.returncode != 0:
        raise RuntimeError("translator/c03.py: " + p.stdout.strip().split("\n")[-1])
    # the decode-first stream reads enumeration NAMES from Gen/Enums.lean (C01's table):
    # keep it in step with the tree under test through C01's own generator
    try:
        from . import c01
        keep = ctx.extra.get("generated")
        c01.GENERATED(ctx)
        ctx.extra["generated_enums"] = ctx.extra.pop("generated", None)
        if keep is not None:
            ctx.extra["generated"] = keep
    except core.Infra:
        raise
    except Exception as e:
        ctx.notes.append("Gen/Enums.lean not regenerated (%r); using the committed table" % (e,))


_TR = None


def translator():
    global _TR
    if _TR is None:
        spec = importlib.util.spec_from_file_location("verif_translator_c03", TRANSLATOR)
        _TR = importlib.util.module_from_spec(spec)
        spec.loader.exec_module(_TR)
    return _TR


_SCHEMA = None


def schema():
    """the live schema (same walker as the translator), cached per process"""
    global _SCHEMA
    if _SCHEMA is None:
        core.bind_repo()
        _SCHEMA = translator().walk()
    return _SCHEMA


# ------------------------------------------------------------------ tags / leaves

def jtag(tag):
    return [tag.tagClass, tag.tagNumber, tag.tagLVT, bytes(tag.tagData).hex()]


def mktag(t):
    from bacpypes.primitivedata import Tag
    return Tag(t[0], t[1], t[2], bytes.fromhex(t[3]))


def be(n, k):
    return n.to_bytes(k, "big")


def min_unsigned(n):
    return be(n, max(1, (n.bit_length() + 7) // 8))


def min_signed(n):
    k = 1
    while not (-(1 << (8 * k - 1)) <= n < (1 << (8 * k - 1))):
        k += 1
    return n.to_bytes(k, "big", signed=True)


UNSIGNEDS = [0, 1, 2, 127, 128, 255, 256, 65535, 65536, (1 << 24) - 1, 1 << 24, (1 << 32) - 1]
INTEGERS = [0, 1, -1, 127, 128, -128, -129, 32767, 32768, -32768, -32769, (1 << 23) - 1, -(1 << 23),
            (1 << 31) - 1, -(1 << 31)]
REALS = [0x00000000, 0x3f800000, 0x80000000, 0x7f7fffff, 0x00000001, 0x7f800000, 0xff800000, 0x4290999a,
         0x43340000, 0xbf000000]
DOUBLES = [0, 0x3ff0000000000000, 0x8000000000000000, 0x7fefffffffffffff, 1, 0x7ff0000000000000,
           0x40091eb851eb851f]
STRINGS = ["", "a", "BACnet", "héllo", "日本", "x" * 252, "x" * 253, "y" * 300]
DEFAULT_PAYLOAD = {0: (0, b""), 1: (1, b""), 2: (1, b"\x05"), 3: (1, b"\x05"), 4: (4, b"\x3f\x80\x00\x00"),
                   5: (8, b"\x3f\xf0" + bytes(6)), 6: (2, b"\x01\x02"), 7: (2, b"\x00a"), 8: (2, b"\x04\xa0"),
                   9: (1, b"\x00"), 10: (4, bytes([124, 2, 29, 4])), 11: (4, bytes([12, 30, 0, 0])),
                   12: (4, b"\x00\x00\x00\x05")}


def payloads(app, rng, boundary):
    """candidate (lvt, data) payloads of an application type; boundary=True draws from the grid"""
    if app == 0:
        return [(0, b"")]
    if app == 1:
        return [(0, b""), (1, b"")]
    if app == 2:
        vs = UNSIGNEDS if boundary else [rng.randrange(1 << rng.choice([4, 8, 16, 24, 32]))]
        return [(None, min_unsigned(v)) for v in vs]
    if app == 3:
        vs = INTEGERS if boundary else [rng.randrange(-(1 << 31), 1 << 31) >> rng.choice([0, 8, 16, 24])]
        return [(None, min_signed(v)) for v in vs]
    if app == 4:
        return [(None, be(v, 4)) for v in (REALS if boundary else [rng.choice(REALS)])]
    if app == 5:
        return [(None, be(v, 8)) for v in (DOUBLES if boundary else [rng.choice(DOUBLES)])]
    if app == 6:
        ls = [0, 1, 4, 5, 253, 254, 300] if boundary else [rng.randrange(0, 9)]
        return [(None, bytes(rng.getrandbits(8) for _ in range(l))) for l in ls]
    if app == 7:
        ss = STRINGS if boundary else [rng.choice(STRINGS[:5]) + str(rng.randrange(100))]
        return [(None, b"\x00" + s.encode("utf-8")) for s in ss]
    if app == 8:
        ls = [0, 1, 7, 8, 9, 16, 24] if boundary else [rng.randrange(0, 20)]
        out = []
        for l in ls:
            nb = (l + 7) // 8
            unused = nb * 8 - l
            body = bytearray(rng.getrandbits(8) for _ in range(nb))
            if nb:
                body[-1] &= (0xFF << unused) & 0xFF
            out.append((None, bytes([unused]) + bytes(body)))
        return out
    if app == 9:
        vs = [0, 1, 2, 3, 85, 255, 256, 65535, 65536] if boundary else [rng.randrange(0, 400)]
        return [(None, min_unsigned(v)) for v in vs]
    if app in (10, 11):
        if boundary:
            return [(None, bytes(x)) for x in ([0, 1, 1, 1], [124, 2, 29, 4], [255, 255, 255, 255], [255, 13, 32, 7],
                                               [23, 59, 59, 99])]
        return [(None, bytes(rng.getrandbits(8) for _ in range(4)))]
    if app == 12:
        if boundary:
            ws = [0, 5, (8 << 22) | 3, (8 << 22) | 0x3FFFFF, (1023 << 22) | 1, (200 << 22) | 77, 0xFFFFFFFF]
        else:
            ws = [(rng.randrange(1024) << 22) | rng.randrange(1 << 22)]
        return [(None, be(w, 4)) for w in ws]
    raise core.Infra("no payloads for application type %r" % app)


_LEAF_CACHE = {}


def leaf_value(cls, app, lvt, data):
    """the Python attribute value an Atomic class decodes from a payload, or
    None if that value does not re-encode to the same payload (then it is not
    in the domain of the round-trip property)"""
    from bacpypes.primitivedata import Tag
    key = (cls, lvt, data)
    if key in _LEAF_CACHE:
        return _LEAF_CACHE[key]
    res = None
    try:
        v = cls(Tag(0, app, lvt, data)).value
        t = Tag()
        cls(v).encode(t)
        if (t.tagClass, t.tagNumber, t.tagLVT, bytes(t.tagData)) == (0, app, lvt, data):
            res = (v,)
    except Exception:
        res = None
    _LEAF_CACHE[key] = res
    return res


def norm_payload(app, p):
    lvt, data = p
    return (len(data) if lvt is None else lvt, data)


class Gen:
    """schema-directed value generator producing live bacpypes objects"""

    def __init__(self, rng, maxdepth=4):
        self.rng = rng
        self.maxdepth = maxdepth
        self.sch = schema()

    # leaves ------------------------------------------------------------
    def leaf(self, ref, boundary=False, pick=None):
        """attribute value for an Atomic element class"""
        rng = self.rng
        cands = [norm_payload(ref.app, p) for p in payloads(ref.app, rng, boundary or rng.random() < 0.5)]
        if pick is not None:
            cands = cands[pick % len(cands):] + cands[:pick % len(cands)]
        else:
            rng.shuffle(cands)
        for lvt, data in cands + [DEFAULT_PAYLOAD[ref.app]]:
            r = leaf_value(ref.cls, ref.app, lvt, data)
            if r is not None:
                return r[0]
        raise core.Infra("no valid leaf for %s" % ref.cls.__name__)

    def atom(self, boundary=False):
        """an Atomic INSTANCE (value of an AnyAtomic element)"""
        from bacpypes.primitivedata import Tag
        rng = self.rng
        for _ in range(20):
            app = rng.randrange(13)
            lvt, data = norm_payload(app, rng.choice(payloads(app, rng, boundary or rng.random() < 0.5)))
            try:
                obj = Tag(0, app, lvt, data).app_to_object()
                t = Tag()
                obj.encode(t)
                if (t.tagNumber, t.tagLVT, bytes(t.tagData)) == (app, lvt, data):
                    return obj
            except Exception:
                pass
        return Tag(0, 2, 1, b"\x05").app_to_object()

    def balanced(self, depth=0):
        """a random balanced tag run (content of an Any)"""
        rng = self.rng
        out = []
        for _ in range(rng.choice([0, 1, 1, 2, 3])):
            r = rng.random()
            if r < 0.25 and depth < 3:
                c = rng.choice([0, 1, 2, 14, 15, 254])
                out.append([2, c, 0, ""])
                out.extend(self.balanced(depth + 1))
                out.append([3, c, 0, ""])
            elif r < 0.6:
                app = rng.randrange(13)
                lvt, data = norm_payload(app, rng.choice(payloads(app, rng, False)))
                out.append([0, app, lvt, data.hex()])
            else:
                d = bytes(rng.getrandbits(8) for _ in range(rng.choice([0, 1, 2, 4, 5])))
                out.append([1, rng.choice([0, 1, 3, 14, 15, 200]), len(d), d.hex()])
        return out

    def any_value(self, cls=None):
        from bacpypes.constructeddata import Any
        from bacpypes.primitivedata import TagList
        a = (cls or Any)()
        a.tagList = TagList([mktag(t) for t in self.balanced()])
        return a

    # constructed ---------------------------------------------------------
    def ref_value(self, ref, depth, in_list=False):
        """value of an element / list item with class `ref`"""
        if ref.k == "prim":
            return self.leaf(ref)
        if ref.k == "anyAtomic":
            return self.atom()
        return self.node_value(ref.node, depth, as_attr=not in_list, cls=ref.cls)

    def node_value(self, node, depth, plan=None, as_attr=False, cls=None):
        """a live object of the class of `node`.
        plan: directives for THIS node: {"present": set of optional field indices,
        "alt": i, "len": n, "boundary": field index whose leaf walks the grid (with "pick")}
        as_attr: the value is stored in a Sequence attribute (SequenceOf/ListOf
        elements are then plain lists, as Sequence.encode expects)"""
        rng = self.rng
        plan = plan or {}
        deep = depth >= self.maxdepth
        if node.k == "any":
            return self.any_value(cls)
        if node.k == "seq":
            obj = node.cls()
            for i, f in enumerate(node.fields):
                if f.opt:
                    if "present" in plan:
                        here = i in plan["present"]
                    else:
                        here = (not deep) and rng.random() < 0.5
                    if not here:
                        setattr(obj, f.name, None)
                        continue
                if f.ref.k == "prim" and plan.get("boundary") == i:
                    v = self.leaf(f.ref, boundary=True, pick=plan.get("pick", 0))
                else:
                    v = self.ref_value(f.ref, depth + 1)
                setattr(obj, f.name, v)
            return obj
        if node.k == "choice":
            if "alt" in plan:
                i = plan["alt"]
            elif deep:
                # cheapest alternative: an atomic one if there is any
                prims = [j for j, f in enumerate(node.fields) if f.ref.k != "ty"]
                i = rng.choice(prims) if prims else min(range(len(node.fields)),
                                                        key=lambda j: node.fields[j].ref.node.rank)
            else:
                i = rng.randrange(len(node.fields))
            f = node.fields[i]
            if f.ref.k == "prim" and "pick" in plan:
                v = self.leaf(f.ref, boundary=True, pick=plan["pick"])
            else:
                v = self.ref_value(f.ref, depth + 1)
            return node.cls(**{f.name: v})
        if node.k == "list":
            if node.fixed is not None:
                n = node.fixed
            elif "len" in plan:
                n = plan["len"]
            else:
                n = 0 if deep else rng.choice([0, 1, 1, 2, 3])
            items = [self.ref_value(node.elem, depth + 1, in_list=True) for _ in range(n)]
            if as_attr and node.lk in ("seqof", "listof"):
                return items
            return node.cls(items)
        if node.k == "nameValue":
            from bacpypes.basetypes import CharacterString
            name = self.leaf(translator().Ref("prim", app=7, cls=CharacterString))
            which = plan.get("alt", rng.randrange(3))
            if which == 0:
                value = None
            elif which == 1:
                value = self.atom()
            else:
                value = self.node_value(node.dt.node, depth + 1)
            return node.cls(name=name, value=value)
        raise core.Infra("cannot generate " + node.k)


# ------------------------------------------------------------------ canonical value trees

SHAPE = [False]     # malformed stream: leaf payloads are not compared (they may be non-canonical)


def leaf_tree(cls, v):
    from bacpypes.primitivedata import Tag
    if SHAPE[0]:
        return {"p": 0}
    t = Tag()
    cls(v).encode(t)
    return {"p": [t.tagLVT, bytes(t.tagData).hex()]}


def atom_tree(v):
    from bacpypes.primitivedata import Tag
    if SHAPE[0]:
        return {"a": v._app_tag}
    t = Tag()
    v.encode(t)
    return {"a": [t.tagNumber, t.tagLVT, bytes(t.tagData).hex()]}


def ref_tree(ref, v):
    if ref.k == "prim":
        return leaf_tree(ref.cls, v)
    if ref.k == "anyAtomic":
        return atom_tree(v)
    return tree(ref.node, v)


def tree(node, obj):
    """canonical value tree of a live object, by walking the class tables"""
    from bacpypes import constructeddata as cd
    if node.k == "seq":
        out = []
        for f in node.fields:
            v = getattr(obj, f.name, None)
            out.append(None if v is None else ref_tree(f.ref, v))
        return {"seq": out}
    if node.k == "choice":
        for i, f in enumerate(node.fields):
            v = getattr(obj, f.name, None)
            if v is not None:
                extra = [g.name for g in node.fields[i + 1:] if getattr(obj, g.name, None) is not None]
                if extra:
                    return {"ch": [i, ref_tree(f.ref, v)], "also-set": extra}
                return {"ch": [i, ref_tree(f.ref, v)]}
        return {"ch": None}
    if node.k == "list":
        if isinstance(obj, list):
            items = obj
        elif isinstance(obj, cd.Array):
            items = obj.value[1:]
        else:
            items = obj.value
        return {"list": [ref_tree(node.elem, x) for x in items]}
    if node.k == "any":
        return {"tags": [jtag(t) for t in obj.tagList.tagList]}
    if node.k == "nameValue":
        from bacpypes.primitivedata import CharacterString, Atomic
        name = None if obj.name is None else leaf_tree(CharacterString, obj.name)
        if obj.value is None:
            value = None
        elif isinstance(obj.value, Atomic):
            value = atom_tree(obj.value)
        else:
            value = tree(node.dt.node, obj.value)
        return {"seq": [name, value]}
    raise core.Infra("tree: " + node.k)


def sem_leaf(cls, v):
    """what the Python attribute MEANS, in the vocabulary of C01's PrimVal"""
    import struct
    app = cls._app_tag
    if app == 0:
        return {"null": 0}
    if app == 1:
        return {"bool": bool(v)}
    if app == 2:
        return {"u": int(v)}
    if app == 3:
        return {"i": int(v)}
    if app == 4:
        return {"f32": int.from_bytes(struct.pack(">f", v), "big")}
    if app == 5:
        return {"f64": int.from_bytes(struct.pack(">d", v), "big")}
    if app == 6:
        return {"o": bytes(v).hex()}
    if app == 7:
        return {"s": [0, v.encode("utf-8").hex()]}
    if app == 8:
        return {"b": [int(x) for x in v]}
    if app == 9:
        return {"e": int(cls(v).get_long())}
    if app == 10:
        return {"d": [int(x) for x in v]}
    if app == 11:
        return {"t": [int(x) for x in v]}
    if app == 12:
        from bacpypes.primitivedata import ObjectIdentifier
        t, i = ObjectIdentifier(v).get_tuple()
        return {"oid": [int(t), int(i)]}
    raise core.Infra("sem_leaf: %r" % (cls,))


def sem_ref(ref, v):
    if ref.k == "prim":
        return {"p": sem_leaf(ref.cls, v)}
    if ref.k == "anyAtomic":
        return {"a": sem_leaf(type(v), v.value)}
    return stree(ref.node, v)


def stree(node, obj):
    """the decoded object as a TYPED tree: leaves by meaning, not by payload"""
    from bacpypes import constructeddata as cd
    if node.k == "seq":
        return {"seq": [None if getattr(obj, f.name, None) is None else sem_ref(f.ref, getattr(obj, f.name))
                        for f in node.fields]}
    if node.k == "choice":
        for i, f in enumerate(node.fields):
            v = getattr(obj, f.name, None)
            if v is not None:
                return {"ch": [i, sem_ref(f.ref, v)]}
        return {"ch": None}
    if node.k == "list":
        items = obj if isinstance(obj, list) else obj.value[1:] if isinstance(obj, cd.Array) else obj.value
        return {"list": [sem_ref(node.elem, x) for x in items]}
    if node.k == "any":
        return {"tags": [jtag(t) for t in obj.tagList.tagList]}
    if node.k == "nameValue":
        from bacpypes.primitivedata import CharacterString, Atomic
        value = None if obj.value is None else (
            {"a": sem_leaf(type(obj.value), obj.value.value)} if isinstance(obj.value, Atomic)
            else stree(node.dt.node, obj.value))
        return {"seq": [{"p": sem_leaf(CharacterString, obj.name)}, value]}
    raise core.Infra("stree: " + node.k)


def blank(v):
    """shape of a value tree: leaf payloads removed (malformed stream)"""
    if isinstance(v, dict):
        if "p" in v:
            return {"p": 0}
        if "a" in v:
            return {"a": v["a"][0] if isinstance(v["a"], list) else v["a"]}
        return {k: blank(x) for k, x in v.items()}
    if isinstance(v, list):
        return [blank(x) for x in v]
    return v


# ------------------------------------------------------------------ implementation adapter

FAMILY = ("invalidTag", "missingRequired", "invalidDatatype", "tooMany", "valueRange", "encoding", "decoding")


def err_reply(e):
    """decoding/reject family -> the enum; any other exception class -> "other"
    (the model says `other` exactly where the fixed tree still raises
    NotImplementedError / ValueError / struct.error / IndexError / TypeError);
    the class name travels in "exc", which is not compared"""
    k = core.exc_kind(e)
    if k in FAMILY:
        return {"r": "err", "k": k}
    site = "?"
    try:
        import traceback
        fr = traceback.extract_tb(e.__traceback__)[-1]
        site = "%s:%d:%s" % (os.path.basename(fr.filename), fr.lineno, fr.name)
    except Exception:
        pass
    return {"r": "err", "k": "other", "exc": type(e).__name__, "site": site}


def impl_encode(node, obj):
    """value.encode(taglist) + TagList.encode; PDUs through APCISequence.encode"""
    from bacpypes.primitivedata import TagList
    from bacpypes.pdu import PDUData
    from bacpypes.apdu import APDU
    if node.apci:
        apdu = APDU()
        obj.encode(apdu)
        tl = obj._tag_list
        return {"r": "ok", "tags": [jtag(t) for t in tl.tagList], "hex": bytes(apdu.pduData).hex()}
    tl = TagList()
    obj.encode(tl)
    pdu = PDUData()
    tl.encode(pdu)
    return {"r": "ok", "tags": [jtag(t) for t in tl.tagList], "hex": bytes(pdu.pduData).hex()}


def impl_decode(node, tags, pdu):
    """klass().decode(taglist) -> (reply, object)"""
    from bacpypes.primitivedata import TagList
    from bacpypes.pdu import PDUData
    from bacpypes.apdu import APDU
    obj = node.cls()
    if pdu:
        data = PDUData()
        TagList([mktag(t) for t in tags]).encode(data)
        apdu = APDU()
        apdu.pduData = bytearray(data.pduData)
        obj.decode(apdu)
        rest = []
    else:
        tl = TagList([mktag(t) for t in tags])
        obj.decode(tl)
        rest = [jtag(t) for t in tl.tagList]
    v = tree(node, obj)
    if SHAPE[0]:
        return {"r": "ok", "v": v, "rest": rest, "re": {}}, obj
    try:
        re = impl_encode(node, obj)
        re = {"tags": re["tags"], "hex": re["hex"]}
        # encoding must not consume or mutate the value: a second encoding is identical
        re2 = impl_encode(node, obj)
        if re2["hex"] != re["hex"]:
            re = {"err": "unstable", "exc": "second re-encoding differs: %s then %s" % (re["hex"], re2["hex"])}
    except Exception as e:
        re = {"err": err_reply(e)["k"], "exc": type(e).__name__}
    return {"r": "ok", "v": v, "rest": rest, "re": re}, obj


def impl(case, shape=False):
    """the implementation's answer to a model request (`dec`)"""
    node = schema().nodes[case["t"]]
    SHAPE[0] = shape
    try:
        if case["op"] == "dec":
            return impl_decode(node, case["tags"], case.get("pdu", False))[0]
    except Exception as e:
        return err_reply(e)
    finally:
        SHAPE[0] = False
    raise core.Infra("bad op")


# ------------------------------------------------------------------ case generation

def presence_patterns(k, rng):
    """all 2^k for k <= 6, otherwise a pairwise-covering set"""
    if k <= 6:
        return [set(i for i in range(k) if (m >> i) & 1) for m in range(1 << k)]
    pats = [set(), set(range(k))]
    pats += [{i} for i in range(k)] + [set(range(k)) - {i} for i in range(k)]
    # random rows until every pair of positions has seen all four combinations
    need = set((i, j, a, b) for i in range(k) for j in range(i + 1, k) for a in (0, 1) for b in (0, 1))

    def cover(p):
        for i in range(k):
            for j in range(i + 1, k):
                need.discard((i, j, int(i in p), int(j in p)))
    for p in pats:
        cover(p)
    while need:
        p = set(i for i in range(k) if rng.random() < 0.5)
        before = len(need)
        cover(p)
        if len(need) < before:
            pats.append(p)
    return pats


def plans_for(node, rng, quick):
    """the systematic part of the quantifier for one type: list of (plan, signature)"""
    out = []
    if node.k == "seq":
        opt = [i for i, f in enumerate(node.fields) if f.opt]
        for p in presence_patterns(len(opt), rng):
            pres = set(opt[i] for i in p)
            out.append(({"present": pres}, "pres:" + "".join("1" if i in pres else "0" for i in opt)))
        # boundary leaves: walk the grid on each atomic field once
        for i, f in enumerate(node.fields):
            if f.ref.k == "prim":
                for pick in range(3 if quick else 12):
                    out.append(({"present": set(opt), "boundary": i, "pick": pick}, "leaf:%d:%d" % (f.ref.app, pick)))
    elif node.k == "choice":
        for i, f in enumerate(node.fields):
            out.append(({"alt": i}, "alt:%d" % i))
            if f.ref.k == "prim":
                for pick in range(2 if quick else 12):
                    out.append(({"alt": i, "pick": pick}, "alt:%d:leaf:%d" % (i, pick)))
    elif node.k == "list":
        if node.fixed is not None:
            out.append(({}, "len:fixed"))
            out.append(({}, "len:fixed"))
        else:
            for n in (0, 1, 2, 3):
                out.append(({"len": n}, "len:%d" % n))
    elif node.k == "nameValue":
        for a in (0, 1, 2):
            out.append(({"alt": a}, "nv:%d" % a))
    else:
        for _ in range(6):
            out.append(({}, "any"))
    return out


def build_cases(node, rng, quick, extra):
    """list of (signature, live object)"""
    g = Gen(rng)
    cases = []
    for plan, sg in plans_for(node, rng, quick):
        cases.append((sg, g.node_value(node, 0, plan)))
    for _ in range(extra):
        cases.append(("random", g.node_value(node, 0)))
    return cases


# ------------------------------------------------------------------ the valid-value streams + oracle

def run_type(ctx, drv_reqs, node, cases):
    """evaluate the oracle on the implementation for every generated value of one
    type and queue the model requests; returns the list of per-case records"""
    recs = []
    n_buf = 0
    for sg, obj in cases:
        case = {"type": node.name, "t": node.idx, "sig": sg}
        try:
            v = tree(node, obj)
        except Exception as e:
            raise core.Infra("generator produced an object the walker cannot read: %s %r" % (node.name, e))
        case["v"] = v
        # --- implementation: encode
        try:
            enc = impl_encode(node, obj)
        except Exception as e:
            ctx.fail("encode-raises", case, "a structurally valid %s does not encode: %s: %s" % (
                node.name, type(e).__name__, e), type=node.name, exc=type(e).__name__)
            recs.append((case, None, None))
            continue
        case_hex = enc["hex"]
        try:
            if impl_encode(node, obj)["hex"] != case_hex:
                ctx.fail("encode-unstable", dict(case, hex=case_hex),
                         "encoding %s twice gives different octets (encode mutates the value)" % node.name,
                         type=node.name)
        except Exception as e:
            ctx.fail("encode-unstable", dict(case, hex=case_hex),
                     "the second encoding of %s raises %s" % (node.name, type(e).__name__), type=node.name)
        # --- implementation: octets -> tags -> value
        dec = None
        try:
            from bacpypes.primitivedata import TagList
            from bacpypes.pdu import PDUData
            tl = TagList()
            tl.decode(PDUData(bytes.fromhex(case_hex)))
            parsed = [jtag(t) for t in tl.tagList]
            if parsed != enc["tags"]:
                ctx.fail("octets-reparse", case, "octets of %s do not parse back to the encoded tag list" % node.name,
                         type=node.name)
            dec, _obj2 = impl_decode(node, parsed, node.apci)
            typed = stree(node, _obj2)
        except Exception as e:
            ctx.fail("decode-raises", dict(case, hex=case_hex),
                     "%s cannot decode what it encodes: %s: %s" % (node.name, type(e).__name__, e),
                     type=node.name, exc=type(e).__name__)
        if dec is not None:
            if core.canon(dec["v"]) != core.canon(v):
                ctx.fail("roundtrip-value", dict(case, hex=case_hex, decoded=dec["v"]),
                         "decode(encode(v)) != v for %s" % node.name, type=node.name)
            elif dec["rest"]:
                ctx.fail("roundtrip-leftover", dict(case, hex=case_hex),
                         "decode(encode(v)) leaves tags over for %s" % node.name, type=node.name)
            elif "err" in dec["re"]:
                ctx.fail("reencode-raises", dict(case, hex=case_hex),
                         "the decoded %s does not encode again: %s" % (node.name, dec["re"].get("exc")),
                         type=node.name, exc=dec["re"].get("exc"))
            elif dec["re"]["hex"] != case_hex:
                ctx.fail("reencode-octets", dict(case, hex=case_hex, re=dec["re"]["hex"]),
                         "re-encoded octets differ for %s" % node.name, type=node.name)
        # --- caller-owned buffers: decoding must not eat or alias the octets it was given
        if dec is not None and case_hex and n_buf < 3:
            n_buf += 1
            buffer_checks(ctx, node, case, case_hex, v)
        # --- APCISequence: a tag after the last parameter must be refused (TooManyArguments
        #     or another reject-family error), never silently accepted
        if dec is not None and node.apci:
            extra = enc["tags"] + [[1, 250, 1, "00"]]
            try:
                impl_decode(node, extra, True)
                ctx.fail("trailing-accepted", dict(case, tags=extra),
                         "%s accepts a PDU with a tag after its last parameter" % node.name, type=node.name)
            except Exception as e:
                if core.exc_kind(e) not in FAMILY:
                    ctx.fail("trailing-wrong-error", dict(case, tags=extra),
                             "%s: trailing tag raises %s" % (node.name, type(e).__name__), type=node.name)
        # --- model requests
        drv_reqs.append(({"op": "enc", "t": node.idx, "v": v}, {"r": "ok", "tags": enc["tags"], "hex": enc["hex"]},
                         case))
        if dec is not None:
            d = dict(dec)
            d["re"] = {k: x for k, x in dec["re"].items() if k != "exc"}
            drv_reqs.append(({"op": "dec", "t": node.idx, "tags": enc["tags"], "pdu": node.apci}, d, case))
            # octet level, typed: what the attributes MEAN (C01's vocabulary) and the octets again
            drv_reqs.append(({"op": "typed", "t": node.idx, "hex": case_hex},
                             {"r": "ok", "tv": typed, "re": dec["re"].get("hex", "err")}, case))
        recs.append((case, enc, dec))
    return recs


def buffer_checks(ctx, node, case, hexs, v):
    """PDUData / PDU / APDU constructed from a CALLER-OWNED bytearray (and from another
    PDU's pduData, as the layers of the stack do): after decoding the caller's buffer is
    unchanged, a second decode from the same buffer gives the same value, and scribbling
    over the buffer afterwards does not change what was decoded"""
    from bacpypes.comm import PDUData
    from bacpypes.pdu import PDU
    from bacpypes.apdu import APDU
    from bacpypes.primitivedata import TagList
    keep = bytes.fromhex(hexs)

    def decode_from(make):
        src = make()
        if node.apci:
            obj = node.cls()
            obj.decode(src)
        else:
            tl = TagList()
            tl.decode(src)
            obj = node.cls()
            obj.decode(tl)
        return obj
    try:
        for label, wrap in (("PDUData(bytearray)", lambda b: PDUData(b)), ("PDU(bytearray)", lambda b: PDU(b)),
                            ("APDU(bytearray)", lambda b: APDU(b)),
                            ("PDU(other.pduData)", None)):
            buf = bytearray(keep)
            if wrap is None:
                outer = PDU(bytes(keep))
                owner = outer.pduData               # the upstream layer's buffer
                make = (lambda: APDU(outer.pduData)) if node.apci else (lambda: PDU(outer.pduData))
            else:
                owner = buf
                if node.apci and not label.startswith("APDU"):
                    continue
                if not node.apci and label.startswith("APDU"):
                    continue
                make = lambda wrap=wrap, buf=buf: wrap(buf)      # noqa: E731
            first = decode_from(make)
            t1 = tree(node, first)
            if bytes(owner) != keep:
                ctx.fail("buffer-consumed", dict(case, hex=hexs, how=label, left=bytes(owner).hex()),
                         "decoding %s from %s consumed the caller's octets (%d of %d left)" % (
                             node.name, label, len(owner), len(keep)), type=node.name, how=label)
                return
            second = decode_from(make)
            if core.canon(tree(node, second)) != core.canon(t1) or core.canon(t1) != core.canon(v):
                ctx.fail("buffer-second-decode", dict(case, hex=hexs, how=label),
                         "a second decode of %s from the same %s gives a different value" % (node.name, label),
                         type=node.name, how=label)
                return
            for i in range(len(owner)):
                owner[i] ^= 0xFF
            if core.canon(tree(node, first)) != core.canon(t1):
                ctx.fail("buffer-aliased", dict(case, hex=hexs, how=label),
                         "overwriting the caller's buffer after decoding changed the decoded %s" % node.name,
                         type=node.name, how=label)
                return
    except core.Infra:
        raise
    except Exception as e:
        ctx.fail("buffer-consumed", dict(case, hex=hexs), "%s: decoding from a caller-owned buffer: %s: %s" % (
            node.name, type(e).__name__, e), type=node.name)


def mutate(tags, rng):
    """one structural mutation of a tag list (payloads are kept)"""
    tags = [list(t) for t in tags]
    kind = rng.randrange(9)
    n = len(tags)
    if kind == 0 and n:
        del tags[rng.randrange(n)]
    elif kind == 1 and n:
        i = rng.randrange(n)
        tags.insert(i, list(tags[i]))
    elif kind == 2 and n:
        i = rng.randrange(n)
        t = tags[i]
        if t[0] in (2, 3):
            t[0] = 5 - t[0]
        elif t[0] == 1:
            t[0] = 0
            t[1] = min(t[1], 12)
            if t[1] == 1:
                t[2], t[3] = 1, ""
        else:
            t[0] = 1
            if t[1] == 1:
                t[2], t[3] = 1, "01"
    elif kind == 3 and n:
        i = rng.randrange(n)
        t = tags[i]
        t[1] = max(0, t[1] + rng.choice([-1, 1]))
        if t[0] == 0:
            t[1] = min(t[1], 15)
            if t[1] == 1:
                t[2], t[3] = rng.randrange(2), ""
            elif t[3] == "" and t[2]:
                t[2] = 0
    elif kind == 4 and n:
        del tags[rng.randrange(n):]
    elif kind == 5:
        tags.insert(rng.randrange(n + 1), [3, rng.choice([0, 1, 2, 3]), 0, ""])
    elif kind == 6:
        tags.insert(rng.randrange(n + 1), [2, rng.choice([0, 1, 2, 3]), 0, ""])
    elif kind == 7 and n > 1:
        i = rng.randrange(n - 1)
        tags[i], tags[i + 1] = tags[i + 1], tags[i]
    else:
        app = rng.randrange(13)
        lvt, data = norm_payload(app, DEFAULT_PAYLOAD[app])
        tags.insert(rng.randrange(n + 1), rng.choice([[0, app, lvt, data.hex()],
                                                       [1, rng.randrange(6), len(data) or 1, data.hex() or "00"]]))
    return tags


def shape_reply(r):
    """what is compared on the malformed stream: outcome, error kind, consumed
    tags, shape of the value (leaf payloads may be non-canonical there, and
    whether such a leaf encodes again is C01's matter)"""
    if r.get("r") != "ok":
        return {"r": r.get("r"), "k": r.get("k")}
    return {"r": "ok", "v": blank(r["v"]), "rest": r["rest"]}


def run_malformed(ctx, drv, recs_by_type, rng, per_type, ask=None, tag=""):
    cases, impl_r = [], []
    skipped = 0
    for node, recs in recs_by_type:
        good = [enc["tags"] for _c, enc, _d in recs if enc is not None]
        if not good:
            continue
        for _ in range(per_type):
            tags = mutate(rng.choice(good), rng)
            if rng.random() < 0.3:
                tags = mutate(tags, rng)
            case = {"op": "dec", "t": node.idx, "tags": tags, "pdu": node.apci}
            a = impl(case, shape=True)
            if a.get("exc") in ("UnicodeDecodeError",):
                skipped += 1          # leaf level (C01): a payload re-read as a character string
                continue
            cases.append(case)
            impl_r.append(shape_reply(a))
    ctx.extra["malformed_skipped_leaf_level"] = ctx.extra.get("malformed_skipped_leaf_level", 0) + skipped
    if drv and cases:
        model_r = [shape_reply(b) for b in (ask or drv.ask)(cases)]
        names = schema().nodes
        ctx.compare_stream(tag + "malformed", cases, impl_r, model_r,
                           sig=lambda c, m: (names[c["t"]].name, m.get("k") or "ok"))
    else:
        for _ in cases:
            ctx.count(tag + "malformed")


def census_nonfamily(ctx, n_per_type):
    """which exceptions OUTSIDE the decoding / reject family still escape the
    decoders on malformed tag lists (relevant to C10): one witness per site"""
    sch = schema()
    rng = ctx.sub_rng("c03-census")
    g = Gen(rng)
    sites = {}
    for node in sch.nodes:
        try:
            good = [impl_encode(node, g.node_value(node, 0))["tags"] for _ in range(3)]
        except Exception:
            continue
        for _ in range(n_per_type):
            tags = mutate(rng.choice(good), rng)
            case = {"op": "dec", "t": node.idx, "tags": tags, "pdu": node.apci}
            a = impl(case, shape=True)
            if a.get("r") == "err" and a.get("k") == "other":
                key = "%s in %s" % (a.get("exc"), a.get("site"))
                rec = sites.setdefault(key, {"count": 0, "witness": {"type": node.name, "tags": tags}})
                rec["count"] += 1
    ctx.extra["nonfamily_exception_sites"] = sites


def check_schema(ctx, drv):
    """the environment compiled into the driver == the live classes"""
    live = schema().to_json()
    got = drv.ask([{"op": "schema"}])[0]
    want = driver_env(schema())
    cases = [{"op": "schema-entry", "i": i, "name": live["types"][i]["name"]} for i in range(len(want))]
    gt = got.get("types", [])
    a = want
    b = [gt[i] if i < len(gt) else {"missing": True} for i in range(len(want))]
    if len(gt) != len(want):
        ctx.disagree("schema", {"op": "schema-size"}, len(want), len(gt))
    ctx.compare_stream("schema", cases, a, b, sig=lambda c, m: m.get("k"))
    for r in ("confirmed", "complexAck", "unconfirmed", "error"):
        ctx.compare_stream("schema", [{"op": "registry", "kind": r}], [live["registries"][r]], [got.get(r)],
                           sig=lambda c, m: c["kind"])


def driver_env(sch):
    """the environment in the driver's JSON form"""
    out = []
    for t in sch.to_json()["types"]:
        d = {"k": t["k"]}
        if t["k"] in ("seq", "choice"):
            d["fields"] = [{"ref": {k: v for k, v in f["ref"].items() if k != "cls"}, "ctx": f["ctx"], "opt": f["opt"]}
                           for f in t["fields"]]
        elif t["k"] == "list":
            d.update(lk=t["lk"], elem={k: v for k, v in t["elem"].items() if k != "cls"}, fixed=t["fixed"])
        elif t["k"] == "nameValue":
            d["dt"] = t["dt"]
        out.append(d)
    return out


def run_slice(ctx, drv, nodes, extra, per_type_mal, rng, prefix=(), tag=""):
    """valid-value streams + oracle + malformed stream for the given types;
    `prefix` = requests sent ahead of every driver batch (setenv)"""
    ask = (lambda reqs: drv.ask(list(prefix) + reqs)[len(prefix):]) if drv else None
    reqs, by_type = [], []
    for node in nodes:
        cases = build_cases(node, rng, ctx.quick, extra)
        recs = run_type(ctx, reqs, node, cases)
        by_type.append((node, recs))
    if drv:
        model = ask([r for r, _a, _c in reqs])
        for stream in ("enc", "dec", "typed"):
            sel = [(r, a, c, m) for (r, a, c), m in zip(reqs, model) if r["op"] == stream]
            if stream == "dec" and isinstance(ctx, NoOracle):
                # ambiguous schemas read a leaf payload as another type: compare shapes only
                sel = [(r, shape_reply(a), c, shape_reply(m)) for r, a, c, m in sel]
            ctx.compare_stream(tag + stream, [dict(r, type=c["type"], sig=c["sig"]) for r, _a, c, _m in sel],
                               [a for _r, a, _c, _m in sel], [m for _r, _a, _c, m in sel],
                               sig=lambda c, m: (c["type"], c["sig"], m.get("k") or "ok"))
    else:
        for r, _a, c in reqs:
            ctx.count(tag + r["op"], (c["type"], c["sig"]))
    for (r, _a, c) in reqs[:1]:
        ctx.sample({"stream": tag + r["op"], "type": c["type"], "sig": c["sig"], "v": str(c["v"])[:300]})
    run_malformed(ctx, drv, by_type, rng, per_type_mal, ask=ask, tag=tag)


def shard_types(ctx, spec):
    """worker: a slice of the type table"""
    idxs, extra, per_type_mal, label = spec
    rng = ctx.sub_rng("c03/%s" % label)
    drv = core.Driver("drv_c03") if ctx.model_ok else None
    sch = schema()
    run_slice(ctx, drv, [sch.nodes[i] for i in idxs], extra, per_type_mal, rng)


# ------------------------------------------------------------------ the `any` stream: cast_in / cast_out

def atomic_refs(sch):
    """one Ref per distinct Atomic class the schemas mention"""
    seen, out = set(), []
    for n in sch.nodes:
        refs = [f.ref for f in n.fields] + ([n.elem] if n.elem is not None else [])
        for r in refs:
            if r.k == "prim" and r.cls not in seen:
                seen.add(r.cls)
                out.append(r)
    return sorted(out, key=lambda r: r.cls.__name__)


def ref_of_class(sch, cls):
    """Ref for an arbitrary datatype class (property datatypes), or None"""
    from bacpypes.primitivedata import Atomic
    from bacpypes.constructeddata import AnyAtomic
    tr = translator()
    if cls in sch.by_cls:
        return tr.Ref("ty", node=sch.by_cls[cls], cls=cls)
    if isinstance(cls, type) and issubclass(cls, AnyAtomic):
        return tr.Ref("anyAtomic", cls=cls)
    if isinstance(cls, type) and issubclass(cls, Atomic) and isinstance(cls._app_tag, int):
        return tr.Ref("prim", app=cls._app_tag, cls=cls)
    return None


def typed_any_targets(sch):
    """(label, Ref) for every (object type, property) of the registered object
    classes: what `get_datatype` says a WriteProperty / ReadPropertyACK /
    PropertyValue / COV-notification value of that property is"""
    from bacpypes import object as O
    out, skipped = [], 0
    for (otype, vendor), ocls in sorted(O.registered_object_types.items(), key=lambda kv: (str(kv[0][0]), kv[0][1])):
        for pid in sorted(ocls._properties, key=str):
            dt = O.get_datatype(otype, pid, vendor)
            r = ref_of_class(sch, dt) if dt is not None else None
            if r is None or (r.k == "ty" and r.node.k == "any"):
                skipped += 1
                continue
            out.append(("%s.%s" % (otype, pid), r, otype, pid))
    return out, skipped


def cast_instance(g, ref):
    """(live element for Any.cast_in, canonical tree, class for cast_out)"""
    if ref.k == "prim":
        v = g.leaf(ref)
        return ref.cls(v), leaf_tree(ref.cls, v), ref.cls
    if ref.k == "anyAtomic":
        a = g.atom()
        return a, atom_tree(a), ref.cls
    node = ref.node
    obj = g.node_value(node, 1, cls=ref.cls)       # an INSTANCE (lists / arrays included)
    return obj, tree(node, obj), ref.cls


def cast_tree(ref, out):
    """canonical tree of what cast_out returned"""
    if ref.k == "prim":
        return leaf_tree(ref.cls, out)
    if ref.k == "anyAtomic":
        return atom_tree(out)
    return tree(ref.node, out)


def ref_json(ref):
    return {k: v for k, v in ref.js().items() if k != "cls"}


def any_containers(rng, a, otype=None, pid=None):
    """PDUs / structures carrying the Any `a`: (label, class, builder, getter of the decoded Any)"""
    from bacpypes import apdu as A
    from bacpypes.basetypes import PropertyValue
    oid = (otype if isinstance(otype, (str, int)) else "analogValue", 3)
    pid = pid if isinstance(pid, (str, int)) else "presentValue"
    return [
        ("ReadPropertyACK", A.ReadPropertyACK,
         lambda: A.ReadPropertyACK(objectIdentifier=oid, propertyIdentifier=pid, propertyValue=a),
         lambda p: p.propertyValue),
        ("WritePropertyRequest", A.WritePropertyRequest,
         lambda: A.WritePropertyRequest(objectIdentifier=oid, propertyIdentifier=pid, propertyValue=a, priority=8),
         lambda p: p.propertyValue),
        ("ConfirmedCOVNotificationRequest", A.ConfirmedCOVNotificationRequest,
         lambda: A.ConfirmedCOVNotificationRequest(
             subscriberProcessIdentifier=1, initiatingDeviceIdentifier=("device", 1),
             monitoredObjectIdentifier=oid, timeRemaining=0,
             listOfValues=[PropertyValue(propertyIdentifier=pid, value=a)]),
         lambda p: p.listOfValues[0].value),
        ("ReadPropertyMultipleACK", A.ReadPropertyMultipleACK,
         lambda: A.ReadPropertyMultipleACK(listOfReadAccessResults=[A.ReadAccessResult(
             objectIdentifier=oid, listOfResults=[A.ReadAccessResultElement(
                 propertyIdentifier=pid, readResult=A.ReadAccessResultElementChoice(propertyValue=a))])]),
         lambda p: p.listOfReadAccessResults[0].listOfResults[0].readResult.propertyValue),
    ]


def pdu_octets(obj):
    from bacpypes.apdu import APDU
    apdu = APDU()
    obj.encode(apdu)
    return bytes(apdu.pduData).hex()


def pdu_from_octets(cls, hexs):
    from bacpypes.apdu import APDU
    apdu = APDU()
    apdu.pduData = bytearray(bytes.fromhex(hexs))
    obj = cls()
    obj.decode(apdu)
    return obj


def any_case(ctx, sch, g, rng, label, ref, reqs, otype=None, pid=None, any_cls=None, prebuilt=None):
    """one value through cast_in -> PDU -> octets -> PDU -> cast_out -> re-encode -> cast_out"""
    from bacpypes.constructeddata import Any
    from bacpypes.primitivedata import TagList
    case = {"any": label, "class": ref.cls.__name__, "ref": ref_json(ref)}
    if ref.k == "ty":
        case["type_name"] = ref.node.name
    try:
        elem, v, klass = prebuilt or cast_instance(g, ref)
    except core.Infra:
        raise
    except Exception as e:
        raise core.Infra("any stream: cannot generate %s: %r" % (label, e))
    case["v"] = v
    if otype is not None:
        case["otype"], case["pid"] = otype if isinstance(otype, (str, int)) else str(otype), \
            pid if isinstance(pid, (str, int)) else str(pid)
    try:
        # cast_in == encoding the value directly
        a = (any_cls or Any)()
        a.cast_in(elem)
        in_tags = [jtag(t) for t in a.tagList.tagList]
        if ref.k == "ty":
            tl = TagList()
            elem.encode(tl)
            direct = [jtag(t) for t in tl.tagList]
            if direct != in_tags:
                ctx.fail("any-cast-in", dict(case, direct=direct, cast=in_tags),
                         "cast_in(%s) does not hold the tags of encoding the value directly" % label, type=label)
        reqs.append(({"op": "castin", "ref": case["ref"], "v": v}, {"r": "ok", "tags": in_tags}, case))
        # straight out again, twice, the Any untouched
        for n in (1, 2):
            out = a.cast_out(klass)
            if core.canon(cast_tree(ref, out)) != core.canon(v):
                ctx.fail("any-cast-value", dict(case, got=cast_tree(ref, out), round=n),
                         "cast_out(cast_in(v)) != v for %s (look %d)" % (label, n), type=label)
                return
            if [jtag(t) for t in a.tagList.tagList] != in_tags:
                ctx.fail("any-cast-mutates", dict(case, left=[jtag(t) for t in a.tagList.tagList]),
                         "cast_out(%s) changed the tag list of the Any" % klass.__name__, type=label)
                return
        reqs.append(({"op": "castout", "ref": case["ref"], "tags": in_tags}, {"r": "ok", "v": v}, case))
        if any_cls is not None:
            return
        # inside a PDU: decode -> cast_out -> equal -> re-encode identical -> cast_out again
        cname, ccls, build, get = rng.choice(any_containers(rng, a, otype, pid))
        case["container"] = cname
        hex1 = pdu_octets(build())
        pdu2 = pdu_from_octets(ccls, hex1)
        pv = get(pdu2)
        out1 = pv.cast_out(klass)
        if core.canon(cast_tree(ref, out1)) != core.canon(v):
            ctx.fail("any-cast-value", dict(case, hex=hex1, got=cast_tree(ref, out1)),
                     "the %s cast out of a decoded %s differs from the value sent" % (label, cname), type=label)
            return
        hex2 = pdu_octets(pdu2)
        if hex2 != hex1:
            ctx.fail("any-cast-mutates", dict(case, hex=hex1, re=hex2),
                     "after cast_out(%s) the decoded %s re-encodes to different octets" % (klass.__name__, cname),
                     type=label)
            return
        out2 = pv.cast_out(klass)
        if core.canon(cast_tree(ref, out2)) != core.canon(v):
            ctx.fail("any-cast-value", dict(case, hex=hex1, got=cast_tree(ref, out2), round=2),
                     "a second cast_out of the same %s gives a different value" % label, type=label)
            return
        if pdu_octets(pdu2) != hex1:
            ctx.fail("any-cast-mutates", dict(case, hex=hex1), "second re-encoding of %s differs" % cname, type=label)
    except core.Infra:
        raise
    except Exception as e:
        ctx.fail("any-cast-raises", case, "%s: %s: %s" % (label, type(e).__name__, e), type=label,
                 exc=type(e).__name__)


def make_incomplete(node, obj):
    """break the live object in place so that encoding it RAISES, preferably after it
    has already emitted some tags (a later required element missing, the last member of a
    list incomplete); returns True if it managed to"""
    from bacpypes import constructeddata as cd
    if node.k == "seq":
        req = [i for i, f in enumerate(node.fields) if not f.opt]
        if req:
            setattr(obj, node.fields[req[-1]].name, None)
            return True
        for f in reversed(node.fields):
            x = getattr(obj, f.name, None)
            if x is not None and f.ref.k == "ty" and not isinstance(x, list) and make_incomplete(f.ref.node, x):
                return True
        return False
    if node.k == "choice":
        for f in node.fields:
            x = getattr(obj, f.name, None)
            if x is not None:
                if f.ref.k == "ty" and not isinstance(x, list):
                    return make_incomplete(f.ref.node, x)
                return False
        return False
    if node.k == "list":
        items = obj.value[1:] if isinstance(obj, cd.Array) else obj.value
        if items and node.elem.k == "ty":
            return make_incomplete(node.elem.node, items[-1])
        return False
    return False


def any_retry_case(ctx, sch, g, rng, label, ref, reqs, any_cls=None):
    """cast_in of an INCOMPLETE value (must raise) must leave the Any as it was; the
    corrected cast_in on the SAME Any then holds exactly the encoding of the corrected value"""
    from bacpypes.constructeddata import Any
    node = ref.node
    case = {"any": label, "retry": True, "class": ref.cls.__name__, "ref": ref_json(ref), "type_name": node.name}
    try:
        good = None
        for _ in range(6):
            cand = g.node_value(node, 1, {"len": 2} if node.k == "list" and node.fixed is None else None, cls=ref.cls)
            v = tree(node, cand)
            bad = obj_from_tree(node, v, cls=ref.cls)
            if make_incomplete(node, bad):
                good = cand
                break
        if good is None:
            return
        case["v"] = v
        a = (any_cls or Any)()
        prior = []
        if any_cls is None and rng.random() < 0.5:
            a.cast_in(g.atom())
            prior = [jtag(t) for t in a.tagList.tagList]
        try:
            a.cast_in(bad)
        except Exception:
            pass
        else:
            return                      # this incomplete value happens to encode: not a failure case
        ctx.count("any-retry", (label.split(":")[0], node.k))
        left = [jtag(t) for t in a.tagList.tagList]
        if left != prior:
            ctx.fail("any-cast-in-debris", dict(case, left=left, before=prior),
                     "a cast_in(%s) that raised left %d tag(s) behind in the Any" % (label, len(left) - len(prior)),
                     type=label)
            return
        a.cast_in(good)
        tags = [jtag(t) for t in a.tagList.tagList]
        reqs.append(({"op": "castin", "ref": case["ref"], "v": v}, {"r": "ok", "tags": tags[len(prior):]}, case))
        if any_cls is None and not prior:
            cname, ccls, build, get = rng.choice(any_containers(rng, a))
            hex1 = pdu_octets(build())
            out = get(pdu_from_octets(ccls, hex1)).cast_out(ref.cls)
            if core.canon(cast_tree(ref, out)) != core.canon(v):
                ctx.fail("any-cast-value", dict(case, hex=hex1, container=cname),
                         "after a failed and a corrected cast_in the %s in a %s decodes to a different value" % (
                             label, cname), type=label)
        elif not prior:
            out = a.cast_out(ref.cls)
            if core.canon(cast_tree(ref, out)) != core.canon(v):
                ctx.fail("any-cast-value", case, "after a failed and a corrected cast_in: cast_out differs", type=label)
    except core.Infra:
        raise
    except Exception as e:
        ctx.fail("any-cast-raises", case, "%s (retry): %s: %s" % (label, type(e).__name__, e), type=label,
                 exc=type(e).__name__)


def run_any(ctx, drv, spec=None):
    """cast_in / cast_out of Any and SequenceOfAny:
       direct  — a sample of EVERY constructed type, list, array and atomic class;
       typed   — every (object type, property) datatype `get_datatype` knows, inside
                 ReadPropertyACK / WritePropertyRequest / COV notification / RPM ack;
       seqany  — SequenceOfAny with every ListOf class (ReadRangeACK.itemData)"""
    from bacpypes.constructeddata import SequenceOfAny
    sch = schema()
    part, nparts, reps = spec or (0, 1, 1)
    rng = ctx.sub_rng("c03-any/%d" % part)
    g = Gen(rng, maxdepth=3)
    reqs = []
    tr = translator()
    targets = []
    for n in sch.nodes:
        if n.k != "any" and not n.apci:      # a PDU class encodes into an APDU, it is never the content of an Any
            targets.append(("direct:" + n.name, tr.Ref("ty", node=n, cls=n.cls), None, None, None))
    for r in atomic_refs(sch):
        targets.append(("direct:" + r.cls.__name__, r, None, None, None))
    targets.append(("direct:AnyAtomic", ref_of_class(sch, __import__("bacpypes.constructeddata", fromlist=["x"]).AnyAtomic),
                    None, None, None))
    typed, skipped = typed_any_targets(sch)
    if ctx.quick:
        # every distinct datatype once, plus a random sample of the rest
        seen, keep = set(), []
        rng.shuffle(typed)
        for t in typed:
            if t[1].cls not in seen or len(keep) < 500:
                seen.add(t[1].cls)
                keep.append(t)
        typed = keep
    for label, r, otype, pid in typed:
        targets.append(("typed:" + label, r, otype, pid, None))
    for n in sch.nodes:
        if n.k == "list" and n.lk == "listof":
            targets.append(("seqany:" + n.name, tr.Ref("ty", node=n, cls=n.cls), None, None, SequenceOfAny))
    targets = targets[part::nparts]
    for _ in range(reps):
        for label, r, otype, pid, acls in targets:
            any_case(ctx, sch, g, rng, label, r, reqs, otype, pid, acls)
            if r.k == "ty" and (label.startswith("direct:") or label.startswith("seqany:")):
                any_retry_case(ctx, sch, g, rng, label, r, reqs, acls)
    if drv and reqs:
        model = drv.ask([r for r, _a, _c in reqs])
        ctx.compare_stream("any", [dict(r, any=c["any"]) for r, _a, c in reqs], [a for _r, a, _c in reqs], model,
                           sig=lambda c, m: (c["op"], c["any"].split(":")[0],
                                             c["any"].split(":")[1].split(".")[-1], m.get("k") or "ok"))
    else:
        for r, _a, c in reqs:
            ctx.count("any", (r["op"], c["any"]))


def replay_any(ctx, drv, case):
    """re-run one case of the `any` stream from its record"""
    from bacpypes.constructeddata import SequenceOfAny
    from bacpypes.primitivedata import Tag
    sch = schema()
    rng = ctx.sub_rng("c03-any-replay")
    g = Gen(rng, maxdepth=3)
    rj, v = case["ref"], case["v"]
    tr = translator()
    if rj["k"] == "ty":
        named = [n for n in sch.nodes if n.name == case.get("type_name")]
        if case.get("type_name") and not named:
            raise core.Infra("no type %r in the tree under test" % case["type_name"])
        node = named[0] if named else sch.nodes[rj["i"]]
        cls = [c for c in node.classes if c.__name__ == case.get("class")] or [node.cls]
        ref = tr.Ref("ty", node=node, cls=cls[0])
        elem = obj_from_tree(node, v)
        if node.k == "any":
            raise core.Infra("nothing to cast")
        if not isinstance(elem, cls[0]) and node.k == "list":
            elem = cls[0](elem)
    elif rj["k"] == "prim":
        refs = [r for r in atomic_refs(sch) if r.cls.__name__ == case.get("class")]
        if not refs:
            raise core.Infra("no atomic class %r" % case.get("class"))
        ref = refs[0]
        elem = ref.cls(ref.cls(Tag(0, ref.app, v["p"][0], bytes.fromhex(v["p"][1]))).value)
    else:
        from bacpypes.constructeddata import AnyAtomic
        ref = ref_of_class(sch, AnyAtomic)
        elem = Tag(0, v["a"][0], v["a"][1], bytes.fromhex(v["a"][2])).app_to_object()
    reqs = []
    label = case.get("any", "replay")
    if case.get("retry"):
        reqs = []
        for _ in range(30):
            any_retry_case(ctx, sch, g, rng, label, ref, reqs, SequenceOfAny if label.startswith("seqany:") else None)
        for _ in reqs:
            ctx.count("any")
        return
    # every container, so that the one that failed is among them
    for _ in range(8):
        any_case(ctx, sch, g, rng, label, ref, reqs, case.get("otype"), case.get("pid"),
                 SequenceOfAny if label.startswith("seqany:") else None, prebuilt=(elem, v, ref.cls))
    if drv and reqs:
        ctx.compare_stream("any", [r for r, _a, _c in reqs], [a for _r, a, _c in reqs],
                           drv.ask([r for r, _a, _c in reqs]), sig=lambda c, m: (c["op"], label))
    else:
        for _ in reqs:
            ctx.count("any")


def shard_any(ctx, spec):
    drv = core.Driver("drv_c03") if ctx.model_ok else None
    run_any(ctx, drv, spec)


# ------------------------------------------------------------------ the `mutate` stream: encode, modify IN PLACE, encode again

def set_any_content(g, a):
    """change what an Any holds through its own API: empty it, then cast_in"""
    from bacpypes.primitivedata import TagList
    from bacpypes.constructeddata import SequenceOfAny
    a.tagList = TagList()
    if isinstance(a, SequenceOfAny):          # takes ListOf instances only
        lists = [n for n in g.sch.nodes if n.k == "list" and n.lk == "listof"]
        if lists and g.rng.random() < 0.8:
            a.cast_in(g.node_value(g.rng.choice(lists), 2))
        return
    for _ in range(g.rng.choice([0, 1, 1, 2])):
        a.cast_in(g.atom())


def modify(node, obj, g, depth=0):
    """ONE schema-valid modification of the live object `obj` (an instance of the
    class of `node`), in place; returns a label or None if nothing could be changed"""
    rng = g.rng
    if node.k == "any":
        set_any_content(g, obj)
        return "any-content"
    if node.k == "seq":
        if not node.fields:
            return None
        order = list(range(len(node.fields)))
        rng.shuffle(order)
        for i in order:
            f = node.fields[i]
            cur = getattr(obj, f.name, None)
            if cur is None:                       # absent optional element: set it
                setattr(obj, f.name, g.ref_value(f.ref, depth + 2))
                return "set-optional"
            if f.opt and rng.random() < 0.5:      # present optional element: clear it
                setattr(obj, f.name, None)
                return "clear-optional"
            if f.ref.k != "ty":                   # atomic: another conforming value
                for _ in range(6):
                    new = g.ref_value(f.ref, depth + 2)
                    if core.canon(ref_tree(f.ref, new)) != core.canon(ref_tree(f.ref, cur)):
                        setattr(obj, f.name, new)
                        return "replace-leaf"
                continue
            sub = f.ref.node
            if sub.k == "list" and isinstance(cur, list):
                if cur and rng.random() < 0.4:
                    del cur[rng.randrange(len(cur))]
                    return "list-remove"
                cur.append(g.ref_value(sub.elem, depth + 2, in_list=True))
                return "list-append"
            if rng.random() < 0.7 and depth < 3:  # go inside the live sub-object
                r = modify(sub, cur, g, depth + 1)
                if r:
                    return "nested/" + r
            setattr(obj, f.name, g.ref_value(f.ref, depth + 2))
            return "replace-structure"
        return None
    if node.k == "choice":
        cur_i = None
        for i, f in enumerate(node.fields):
            if getattr(obj, f.name, None) is not None:
                cur_i = i
                break
        if len(node.fields) > 1 and (cur_i is None or rng.random() < 0.6):
            j = rng.choice([i for i in range(len(node.fields)) if i != cur_i])
            if cur_i is not None:
                setattr(obj, node.fields[cur_i].name, None)
            setattr(obj, node.fields[j].name, g.ref_value(node.fields[j].ref, depth + 2))
            return "change-alternative"
        f = node.fields[cur_i]
        cur = getattr(obj, f.name)
        if f.ref.k == "ty" and not isinstance(cur, list) and depth < 3:
            r = modify(f.ref.node, cur, g, depth + 1)
            if r:
                return "nested/" + r
        setattr(obj, f.name, g.ref_value(f.ref, depth + 2))
        return "replace-alternative-value"
    if node.k == "list":
        from bacpypes import constructeddata as cd
        new = g.ref_value(node.elem, depth + 2, in_list=True)
        if isinstance(obj, cd.Array):
            n = obj.value[0]
            if node.fixed is not None:
                if n == 0:
                    return None
                obj[rng.randrange(1, n + 1)] = new
                return "array-set"
            if n and rng.random() < 0.4:
                del obj[rng.randrange(1, n + 1)]
                return "array-remove"
            obj.append(new)
            return "array-append"
        if obj.value and rng.random() < 0.4:
            del obj.value[rng.randrange(len(obj.value))]
            return "list-remove"
        obj.value.append(new)
        return "list-append"
    if node.k == "nameValue":
        which = rng.randrange(3)
        obj.value = None if (which == 0 and obj.value is not None) else \
            g.atom() if which <= 1 else g.node_value(node.dt.node, depth + 2)
        return "namevalue-value"
    return None


def mutate_case(ctx, node, g, reqs, start):
    """start = "new": a generated object; "decoded": the object decode() built from its
    octets; "decoded+encoded": that object after it has been encoded once more"""
    obj = g.node_value(node, 0)
    case = {"mutate": start, "type": node.name, "t": node.idx}
    try:
        v0 = tree(node, obj)
        hex1 = impl_encode(node, obj)["hex"]
        if start != "new":
            from bacpypes.primitivedata import TagList
            from bacpypes.pdu import PDUData
            tl = TagList()
            tl.decode(PDUData(bytes.fromhex(hex1)))
            obj = impl_decode(node, [jtag(t) for t in tl.tagList], node.apci)[1]
            # (impl_decode already re-encodes the decoded object: "decoded+encoded")
            if start == "decoded":
                obj = node.cls()
                if node.apci:
                    from bacpypes.apdu import APDU
                    apdu = APDU()
                    apdu.pduData = bytearray(bytes.fromhex(hex1))
                    obj.decode(apdu)
                else:
                    obj.decode(TagList([mktag(jtag(t)) for t in tl.tagList]))
        what = modify(node, obj, g)
        if what is None:
            return
        case["modification"] = what
        v1 = tree(node, obj)
        case["before"], case["v"] = v0, v1
        hex2 = impl_encode(node, obj)["hex"]                       # the SAME object again
        hexf = impl_encode(node, obj_from_tree(node, v1))["hex"]   # a FRESH object with the new value
    except core.Infra:
        raise
    except Exception as e:
        ctx.fail("mutate-raises", case, "%s (%s): %s: %s" % (node.name, case.get("modification"),
                                                            type(e).__name__, e), type=node.name)
        return
    if hex2 != hexf:
        ctx.fail("mutate-stale", dict(case, first=hex1, again=hex2, fresh=hexf),
                 "%s encoded, modified (%s) and encoded again gives %s, a fresh object with the same value gives %s"
                 % (node.name, what, hex2 or "(nothing)", hexf or "(nothing)"), type=node.name, modification=what)
        return
    reqs.append(({"op": "enc", "t": node.idx, "v": v1},
                 {"r": "ok", "hex": hex2}, dict(case, sig="%s:%s" % (start, what.split("/")[-1]))))


def replay_mutate(ctx, drv, case):
    """re-run the recorded sequence: the value BEFORE, encode, then bring the SAME
    object to the recorded value AFTER by assigning its elements, encode again"""
    sch = schema()
    node = [n for n in sch.nodes if n.name == case.get("type")]
    if not node:
        raise core.Infra("no type %r in the tree under test" % case.get("type"))
    node = node[0]
    if node.k not in ("seq", "choice"):
        # lists / Any: rebuild through the generator path with the same modification kinds
        rng = ctx.sub_rng("c03-mutate-replay")
        g = Gen(rng, maxdepth=3)
        reqs = []
        for _ in range(200):
            mutate_case(ctx, node, g, reqs, case.get("mutate", "new"))
        for _ in reqs:
            ctx.count("mutate")
        return
    obj = obj_from_tree(node, case["before"])
    hex1 = impl_encode(node, obj)["hex"]
    if case.get("mutate") != "new":
        obj = impl_decode(node, impl_encode(node, obj)["tags"], node.apci)[1]
    target = obj_from_tree(node, case["v"])
    for f in node.fields:                    # element-wise assignment on the same object
        setattr(obj, f.name, getattr(target, f.name, None))
    hex2 = impl_encode(node, obj)["hex"]
    hexf = impl_encode(node, obj_from_tree(node, case["v"]))["hex"]
    ctx.count("mutate", (node.name, "replay"))
    if hex2 != hexf:
        ctx.fail("mutate-stale", dict(case, first=hex1, again=hex2, fresh=hexf),
                 "%s encoded, modified and encoded again gives %s, a fresh object with the same value gives %s"
                 % (node.name, hex2 or "(nothing)", hexf or "(nothing)"), type=node.name)
    if drv:
        m = drv.ask([{"op": "enc", "t": node.idx, "v": case["v"]}])[0]
        ctx.compare_stream("mutate", [{"op": "enc", "t": node.idx, "v": case["v"]}], [{"r": "ok", "hex": hex2}],
                           [{"r": m.get("r"), "hex": m.get("hex")}], sig=lambda c, m_: (node.name, "replay"))


def shard_mutate(ctx, spec):
    part, nparts, reps = spec
    drv = core.Driver("drv_c03") if ctx.model_ok else None
    sch = schema()
    rng = ctx.sub_rng("c03-mutate/%d" % part)
    g = Gen(rng, maxdepth=3)
    reqs = []
    for node in sch.nodes[part::nparts]:
        for _ in range(reps):
            for start in ("new", "decoded", "decoded+encoded"):
                mutate_case(ctx, node, g, reqs, start)
    if drv and reqs:
        model = [{"r": m.get("r"), "hex": m.get("hex")} if m.get("r") == "ok" else m
                 for m in drv.ask([r for r, _a, _c in reqs])]
        ctx.compare_stream("mutate", [dict(r, type=c["type"], sig=c["sig"]) for r, _a, c in reqs],
                           [a for _r, a, _c in reqs], model,
                           sig=lambda c, m: (c["type"], c["sig"], m.get("k") or "ok"))
    else:
        for r, _a, c in reqs:
            ctx.count("mutate", (c["type"], c["sig"]))


# ------------------------------------------------------------------ the `decode-first` stream: decoding as the FIRST use of a class
#
# Enumerations build their name table lazily, per class, when the first instance
# is constructed.  Every other stream encodes (constructs) before it decodes, in
# a process that has long warmed every class.  Here FRESH interpreter processes
# (subprocess, not fork) do nothing but decode tag lists produced by the MODEL
# driver (never by the library in that process) and report the raw attribute
# values; the enumeration leaves must be the NAMES the model's tables give
# (C01 `xlateNum` over Gen/Enums.lean), not raw numbers.  Afterwards the same
# process re-encodes what it decoded (decode-first, then encode).

def enum_key(cls):
    return "%s.%s" % (cls.__module__.split(".")[-1], cls.__name__)


def enum_refs(sch):
    return [r for r in atomic_refs(sch) if r.app == 9]


def has_enum_leaf(node):
    refs = [f.ref for f in node.fields] + ([node.elem] if node.elem is not None else [])
    return any(r.k == "prim" and r.app == 9 for r in refs)


def enum_only(node, v, leaf):
    """the value tree with every NON-enumeration leaf blanked; enumeration leaves
    are replaced by leaf(ref, payload-or-python-value)"""
    def of_ref(ref, x):
        if x is None:
            return None
        if ref.k == "prim":
            return {"e": leaf(ref, x)} if ref.app == 9 else {"p": "-"}
        if ref.k == "anyAtomic":
            return {"a": "-"}
        return enum_only(ref.node, x, leaf)
    if node.k == "seq":
        return {"seq": [of_ref(f.ref, x) for f, x in zip(node.fields, v["seq"])]}
    if node.k == "choice":
        i, x = v["ch"]
        return {"ch": [i, of_ref(node.fields[i].ref, x)]}
    if node.k == "list":
        return {"list": [of_ref(node.elem, x) for x in v["list"]]}
    if node.k == "any":
        return {"tags": len(v["tags"])}
    if node.k == "nameValue":
        x = v["seq"][1]
        return {"seq": [{"p": "-"}, None if x is None else ({"a": "-"} if "a" in x else enum_only(node.dt.node, x, leaf))]}
    raise core.Infra("enum_only: " + node.k)


def raw_enum_tree(node, obj):
    """the same shape read off a LIVE decoded object, WITHOUT constructing any
    instance of an enumeration class (that would expand its table)"""
    from bacpypes import constructeddata as cd

    def of_ref(ref, x):
        if x is None:
            return None
        if ref.k == "prim":
            return {"e": x if isinstance(x, (str, int)) and not isinstance(x, bool) else repr(x)} \
                if ref.app == 9 else {"p": "-"}
        if ref.k == "anyAtomic":
            return {"a": "-"}
        return raw_enum_tree(ref.node, x)
    if node.k == "seq":
        return {"seq": [of_ref(f.ref, getattr(obj, f.name, None)) for f in node.fields]}
    if node.k == "choice":
        for i, f in enumerate(node.fields):
            x = getattr(obj, f.name, None)
            if x is not None:
                return {"ch": [i, of_ref(f.ref, x)]}
        return {"ch": None}
    if node.k == "list":
        items = obj if isinstance(obj, list) else obj.value[1:] if isinstance(obj, cd.Array) else obj.value
        return {"list": [of_ref(node.elem, x) for x in items]}
    if node.k == "any":
        return {"tags": len(obj.tagList.tagList)}
    if node.k == "nameValue":
        from bacpypes.primitivedata import Atomic
        x = obj.value
        return {"seq": [{"p": "-"}, None if x is None else ({"a": "-"} if isinstance(x, Atomic)
                                                           else raw_enum_tree(node.dt.node, x))]}
    raise core.Infra("raw_enum_tree: " + node.k)


def decode_first_worker():
    """runs in a FRESH interpreter: stdin = {"cases": [...]}, stdout = {"results": [...], "warm_at_import": [...]}.
    Phase 1 only decodes; phase 2 (after every decode is done) re-encodes."""
    req = json.load(sys.stdin)
    core.bind_repo()
    from bacpypes.primitivedata import Tag, TagList
    sch = schema()                      # pure introspection of classes, constructs no value
    erefs = {enum_key(r.cls): r for r in enum_refs(sch)}
    warm = sorted(k for k, r in erefs.items() if "_xlate_table" in r.cls.__dict__)
    by_name = {n.name: n for n in sch.nodes}
    results, keep = [], []
    for c in req["cases"]:
        try:
            if c["kind"] == "direct":
                r = erefs[c["cls"]]
                data = bytes.fromhex(c["data"])
                val = r.cls(Tag(0, 9, len(data), data)).value
                results.append({"r": "ok", "e": val if isinstance(val, (str, int)) else repr(val)})
                keep.append(None)
            else:
                node = by_name[c["type"]]
                obj = node.cls()
                tags = [mktag(t) for t in c["tags"]]
                if node.apci:
                    from bacpypes.apdu import APDU
                    from bacpypes.pdu import PDUData
                    data = PDUData()
                    TagList(tags).encode(data)
                    apdu = APDU()
                    apdu.pduData = bytearray(data.pduData)
                    obj.decode(apdu)
                else:
                    obj.decode(TagList(tags))
                results.append({"r": "ok", "ev": raw_enum_tree(node, obj)})
                keep.append((node, obj))
        except Exception as e:
            results.append({"r": "err", "k": core.exc_kind(e), "msg": str(e)[:200]})
            keep.append(None)
    for res, k in zip(results, keep):       # decode-first, THEN encode
        if k is not None and res.get("r") == "ok":
            try:
                res["re"] = impl_encode(k[0], k[1])["hex"]
            except Exception as e:
                res["re"] = "err:" + type(e).__name__
    json.dump({"results": results, "warm_at_import": warm}, sys.stdout)


def fresh_process(cases):
    env = dict(os.environ, VERIF_REPO=core.REPO, PYTHONDONTWRITEBYTECODE="1", TZ="UTC")
    env.pop("PYTHONPATH", None)
    code = ("import sys; sys.path.insert(0, %r); from harness import c03; c03.decode_first_worker()" % core.VERIF)
    p = subprocess.run([sys.executable, "-c", code], input=json.dumps({"cases": cases}), stdout=subprocess.PIPE,
                       stderr=subprocess.PIPE, text=True, env=env, cwd=core.VERIF, timeout=600)
    if p.returncode != 0:
        raise core.Infra("decode-first worker failed: " + p.stderr[-600:])
    return json.loads(p.stdout)


def decode_first_cases(ctx, drv, rng, per_node):
    """(cases, expected): tag lists come from the MODEL's encoder, names from the model's tables"""
    sch = schema()
    g = Gen(rng, maxdepth=2)
    cases, expected, queries = [], [], []
    # directly via every enumeration class: defined numbers (lowest, highest, one more) and an undefined one
    for r in enum_refs(sch):
        nums = set()
        for c in r.cls.__mro__:
            nums.update(v for v in getattr(c, "enumerations", {}).values() if isinstance(v, int))
        nums = sorted(nums)
        picks = sorted(set(([nums[0], nums[-1], rng.choice(nums)] if nums else []) + [4000000]))
        for n in picks:
            cases.append({"kind": "direct", "cls": enum_key(r.cls), "n": n, "data": min_unsigned(n).hex()})
            queries.append((enum_key(r.cls), n))
            expected.append(("direct", len(queries) - 1))
    # as elements of structures
    enc_reqs, enc_idx = [], []
    for node in sch.nodes:
        if node.k in ("seq", "choice", "list") and has_enum_leaf(node):
            plans = [p for p, _s in plans_for(node, rng, True)][:per_node] or [{}]
            for plan in plans[:per_node]:
                obj = g.node_value(node, 0, plan)
                v = tree(node, obj)
                enc_reqs.append({"op": "enc", "t": node.idx, "v": v})
                enc_idx.append((node, v))
    model_enc = drv.ask(enc_reqs)
    for (node, v), m in zip(enc_idx, model_enc):
        if m.get("r") != "ok":
            continue
        slot = {}

        def leaf(ref, x, slot=slot):
            n = int.from_bytes(bytes.fromhex(x["p"][1]), "big")
            queries.append((enum_key(ref.cls), n))
            return ("q", len(queries) - 1, n)
        ev = enum_only(node, v, leaf)
        cases.append({"kind": "struct", "type": node.name, "tags": m["tags"], "hex": m["hex"]})
        expected.append(("struct", ev, m["hex"]))
    names = drv.ask([{"op": "enumnames", "q": [[k, n] for k, n in queries]}])[0]["names"]
    # a class without any `enumerations` (plain Enumerated) has no table in Gen/Enums.lean: numbers stay numbers
    bare = set(enum_key(r.cls) for r in enum_refs(sch)
               if not any(getattr(c, "enumerations", {}) for c in r.cls.__mro__))
    names = [None if (nm == "?unknown-class" and k in bare) else nm for (k, _n), nm in zip(queries, names)]

    def resolve(x):
        if isinstance(x, tuple) and x and x[0] == "q":
            nm = names[x[1]]
            return x[2] if nm is None else nm
        if isinstance(x, dict):
            return {k: resolve(y) for k, y in x.items()}
        if isinstance(x, list):
            return [resolve(y) for y in x]
        return x
    out = []
    for e in expected:
        if e[0] == "direct":
            nm = names[e[1]]
            out.append({"r": "ok", "e": queries[e[1]][1] if nm is None else nm})
        else:
            out.append({"r": "ok", "ev": resolve(e[1]), "re": e[2]})
    unknown = sorted(set(k for (k, _n), nm in zip(queries, names) if nm == "?unknown-class"))
    if unknown:
        raise core.Infra("Gen/Enums.lean does not know %r (run ./check C01 to regenerate)" % unknown[:5])
    return cases, out


def run_decode_first(ctx, drv, processes, per_node):
    if not drv:
        return
    warm_seen = None
    for k in range(processes):
        rng = ctx.sub_rng("c03-decode-first/%d" % k)
        cases, want = decode_first_cases(ctx, drv, rng, per_node)
        order = list(range(len(cases)))
        if k % 2 == 1:
            order.sort(key=lambda i: 0 if cases[i]["kind"] == "struct" else 1)   # structures first
        if k >= 2:
            rng.shuffle(order)
        cases = [cases[i] for i in order]
        want = [want[i] for i in order]
        got = fresh_process(cases)
        warm_seen = got["warm_at_import"]
        res = got["results"]
        for c, a, b in zip(cases, res, want):
            a2 = {x: y for x, y in a.items() if x != "msg"}
            if core.canon(a2) != core.canon(b):
                label = c.get("cls") or c.get("type")
                ctx.fail("decode-first", dict(c, decode_first=label, got=a, want=b),
                         "decoding as the first use of the class in a fresh process: %s gives %s, the model (names "
                         "from the enumeration tables) gives %s" % (
                             label, json.dumps(a.get("e", a.get("ev", a)))[:160],
                             json.dumps(b.get("e", b.get("ev")))[:160]), type=label)
        ctx.compare_stream("decode-first", [dict(c, op="decode-first") for c in cases],
                           [{x: y for x, y in a.items() if x != "msg"} for a in res], want,
                           sig=lambda c, m: (c["kind"], c.get("cls") or c.get("type")))
    ctx.extra["decode_first"] = {"fresh_processes": processes,
                                 "enumeration_classes": len(enum_refs(schema())),
                                 "classes_already_warm_after_import": warm_seen}


def replay_decode_first(ctx, drv, case):
    c = {k: v for k, v in case.items() if k not in ("got", "want", "decode_first")}
    got = fresh_process([c])["results"][0]
    want = case.get("want")
    ctx.count("decode-first", (c["kind"], c.get("cls") or c.get("type")))
    a2 = {x: y for x, y in got.items() if x != "msg"}
    if want is not None and core.canon(a2) != core.canon(want):
        ctx.fail("decode-first", dict(case, got=got), "decode-first replay: got %s, want %s" % (
            json.dumps(a2)[:200], json.dumps(want)[:200]), type=case.get("decode_first"))


# ------------------------------------------------------------------ synthetic schemas

def synthetic_classes():
    """classes built at run time that reach the branches of the GENERIC code no
    shipped class uses (the theorem quantifies over every well-formed schema):
    AnyAtomic elements (optional / required / in lists), Any without context,
    ArrayOf elements incl. fixed length, inline and nested choices, an optional
    structure without context in front of a context-less list, lists of choices"""
    from bacpypes.constructeddata import Sequence, Choice, Element, SequenceOf, ArrayOf, Any, AnyAtomic
    from bacpypes.primitivedata import Unsigned, Real, CharacterString, Boolean, Null, Enumerated, OctetString
    from bacpypes.basetypes import DateTime

    class SynInner(Sequence):
        sequenceElements = [Element('x', Unsigned, 0), Element('y', Real, 1, True)]

    class SynChoice(Choice):
        choiceElements = [Element('n', Null), Element('u', Unsigned), Element('b', Boolean, 3),
                          Element('s', SynInner, 0), Element('l', SequenceOf(SynInner), 1), Element('a', Any, 2)]

    class SynOuterChoice(Choice):
        choiceElements = [Element('c', SynChoice, 0), Element('e', Enumerated, 5), Element('o', OctetString)]

    class SynAtoms(Sequence):
        sequenceElements = [Element('k', Unsigned, 0), Element('req', AnyAtomic), Element('aa', AnyAtomic, None, True),
                            Element('c', Any, 1, True), Element('arr', ArrayOf(Unsigned), 2, True),
                            Element('arr3', ArrayOf(Real, 3), 3, True)]

    class SynTryRestore(Sequence):
        sequenceElements = [Element('k', CharacterString), Element('opt', SynInner, None, True),
                            Element('och', SynOuterChoice, None, True), Element('tail', SequenceOf(Unsigned))]

    class SynInline(Sequence):
        sequenceElements = [Element('ch', SynChoice), Element('z', Unsigned, 9, True),
                            Element('lst', SequenceOf(SynOuterChoice), 10, True)]

    wf = [SynInner, SynChoice, SynOuterChoice, SynAtoms, SynTryRestore, SynInline,
          SequenceOf(SynChoice), ArrayOf(SynInner, 2), SequenceOf(AnyAtomic), SequenceOf(SynAtoms)]

    # NOT well-formed on purpose (ambiguous / not decodable): the model must still
    # behave like the code; only the correspondence is evaluated on these
    class SynAnyLast(Sequence):
        sequenceElements = [Element('dt', DateTime), Element('flag', Boolean, 0, True), Element('rest', Any)]

    class SynAmbiguous(Sequence):
        sequenceElements = [Element('k', Unsigned, 0), Element('aa', AnyAtomic, None, True),
                            Element('same', Unsigned, 1, True), Element('same2', Real, 1, True),
                            Element('req', AnyAtomic)]

    class SynBadChoice(Choice):
        choiceElements = [Element('u', Unsigned), Element('aa', AnyAtomic), Element('s', SynInner),
                          Element('r', Real, 1)]

    class SynAtomCtx(Sequence):
        sequenceElements = [Element('k', Unsigned, 0), Element('aa', AnyAtomic, 1, True)]

    class SynOptList(Sequence):
        sequenceElements = [Element('l', SequenceOf(SynInner), None, True), Element('z', Unsigned, 9, True)]

    nonwf = [SynAnyLast, SynAmbiguous, SynBadChoice, SynAtomCtx, SynOptList]
    return wf, nonwf


class NoOracle:
    """context proxy for schemas that are not well-formed: the library is not
    expected to round-trip them, only the model has to agree with it"""

    def __init__(self, ctx):
        self.__dict__["_c"] = ctx

    def __getattr__(self, k):
        return getattr(self._c, k)

    def __setattr__(self, k, v):
        setattr(self._c, k, v)

    def fail(self, kind, case, what, **fields):
        self._c.count("syn-nonwf-observed", (kind, fields.get("type")))


def run_synthetic(ctx, drv):
    global _SCHEMA
    core.bind_repo()
    saved = schema()
    wf, nonwf = synthetic_classes()
    try:
        for label, roots, want_wf in (("syn-", wf, True), ("synx-", nonwf, False)):
            _SCHEMA = translator().walk(roots=roots)
            prefix = [{"op": "setenv", "env": driver_env(_SCHEMA)}]
            if drv:
                info = drv.ask(prefix + [{"op": "wf"}])[1]
                bad = [_SCHEMA.nodes[i].name for i in info.get("bad", [])]
                if want_wf and not info.get("wf"):
                    raise core.Infra("the synthetic environment of harness/c03.py is not well-formed: %r" % (bad,))
                if not want_wf:
                    ctx.extra["synthetic_types_refused_by_wfEnv"] = bad
            rng = ctx.sub_rng("c03-" + label)
            run_slice(ctx if want_wf else NoOracle(ctx), drv, _SCHEMA.nodes, 40 if ctx.quick else 500,
                      60 if ctx.quick else 700, rng, prefix=prefix, tag=label)
            if want_wf:
                ctx.extra["synthetic_types"] = [n.name for n in _SCHEMA.nodes]
    finally:
        _SCHEMA = saved


# ------------------------------------------------------------------ fresh interpreter processes with a chosen HISTORY

def fresh_entry():
    """runs in a FRESH interpreter: stdin = {"fn", "spec", "tier", "seed", "model_ok"};
    stdout = the sub-context's results as JSON"""
    req = json.load(sys.stdin)
    core.bind_repo()
    sub = core.Ctx("C03", req["tier"], req["seed"])
    sub.model_ok = req["model_ok"]
    globals()[req["fn"]](sub, req["spec"])
    per_kind, kept = {}, []
    for f in sub.failures:                      # at most 60 of a kind, so that no kind hides another
        per_kind[f["kind"]] = per_kind.get(f["kind"], 0) + 1
        if per_kind[f["kind"]] <= 60:
            kept.append(f)
    json.dump({"failures": kept, "n_failures": len(sub.failures),
               "disagreements": sub.disagreements[:50], "evaluations": sub.evaluations,
               "signatures": sorted(set("%s|%s" % (k, sg) for k, sg in sub.signatures)),
               "kinds": dict(sub.kinds), "streams": dict(sub.streams), "errkinds": dict(sub.errkinds),
               "extra": sub.extra}, sys.stdout, default=str)


def spawn_fresh(tier, seed, model_ok, fn, spec):
    env = dict(os.environ, VERIF_REPO=core.REPO, PYTHONDONTWRITEBYTECODE="1", TZ="UTC")
    env.pop("PYTHONPATH", None)
    code = "import sys; sys.path.insert(0, %r); from harness import c03; c03.fresh_entry()" % core.VERIF
    req = {"fn": fn, "spec": spec, "tier": tier, "seed": seed, "model_ok": bool(model_ok)}
    p = subprocess.run([sys.executable, "-c", code], input=json.dumps(req), stdout=subprocess.PIPE,
                       stderr=subprocess.PIPE, text=True, env=env, cwd=core.VERIF, timeout=1200)
    if p.returncode != 0:
        return {"infra": "fresh worker %s failed: %s" % (fn, p.stderr[-800:])}
    return json.loads(p.stdout)


def merge_fresh(ctx, d):
    if "infra" in d:
        raise core.Infra(d["infra"])
    ctx.failures.extend(d["failures"])
    ctx.disagreements.extend(d["disagreements"])
    ctx.evaluations += d["evaluations"]
    for sg in d["signatures"]:
        k, _, rest = sg.partition("|")
        ctx.signatures.add((k, rest))
    ctx.kinds.update(d["kinds"])
    ctx.streams.update(d["streams"])
    ctx.errkinds.update(d["errkinds"])
    return d["extra"]


def run_fresh(ctx, fn, spec):
    return merge_fresh(ctx, spawn_fresh(ctx.tier, ctx.seed, ctx.model_ok, fn, spec))


def run_fresh_many(ctx, jobs):
    """several fresh interpreters side by side; results merged in order"""
    from concurrent.futures import ThreadPoolExecutor
    with ThreadPoolExecutor(max_workers=min(8, len(jobs))) as ex:
        futs = [ex.submit(spawn_fresh, ctx.tier, ctx.seed, ctx.model_ok, fn, spec) for fn, spec in jobs]
        return [merge_fresh(ctx, f.result()) for f in futs]


# ------------------------------------------------------------------ the `subclass-history` stream
#
# Vendor code extends a library sequence by subclassing it with a longer
# sequenceElements.  Anything the generic code remembers PER CLASS must belong to
# that class alone.  Fresh processes define such subclasses at run time and
# round-trip them after different histories: the parent encoded first, the
# subclass first, a bare element-less Sequence() first.  The model evaluates the
# extended schema (the driver takes the environment of the run-time classes).

SUBCLASS_PARENTS = ["DeviceObjectPropertyReference", "DateTime", "PropertyValue", "ReadAccessSpecification",
                    "Address", "ErrorType", "RecipientProcess",
                    "ReadPropertyRequest", "WhoIsRequest", "IAmRequest", "SubscribeCOVRequest",
                    "GetAlarmSummaryRequest", "GetEventInformationRequest", "ReadPropertyACK", "Error"]


def subclass_family():
    """[(parent class, [subclasses])]: extra optional / required / both elements with contexts above the parent's"""
    from bacpypes.constructeddata import Element, Sequence
    from bacpypes.primitivedata import Unsigned, CharacterString, Real
    from bacpypes import basetypes as bt, apdu
    out = []
    for name in SUBCLASS_PARENTS:
        parent = getattr(bt, name, None) or getattr(apdu, name, None)
        if parent is None or not issubclass(parent, Sequence):
            continue
        base = list(parent.sequenceElements)
        variants = {
            "Opt": [Element("vendorOpt", Unsigned, 20, True)],
            "Req": [Element("vendorReq", CharacterString, 21)],
            "Both": [Element("vendorOpt", Unsigned, 20, True), Element("vendorReq", CharacterString, 21),
                     Element("vendorTail", Real, 22, True)],
        }
        subs = [type(str(parent.__name__ + "Ext" + tag), (parent,), {"sequenceElements": base + extra})
                for tag, extra in sorted(variants.items())]
        out.append((parent, subs))
    return out


def fresh_subclass_history(ctx, spec):
    global _SCHEMA
    order, extra, mal = spec
    from bacpypes.primitivedata import TagList
    from bacpypes.constructeddata import Sequence
    drv = core.Driver("drv_c03") if ctx.model_ok else None
    rng = ctx.sub_rng("c03-subclass/" + order)
    lib = schema()
    fam = subclass_family()
    subs = [c for _p, cs in fam for c in cs]

    def encode_parents():
        g = Gen(rng, maxdepth=2)
        for parent, _cs in fam:
            node = lib.by_cls[parent]
            impl_encode(node, g.node_value(node, 0))

    if order == "bare-first":
        Sequence().encode(TagList())          # an element-less instance of the common base class
    elif order == "parent-first":
        encode_parents()
    saved = lib
    try:
        _SCHEMA = translator().walk(roots=subs)
        prefix = [{"op": "setenv", "env": driver_env(_SCHEMA)}]
        if drv:
            info = drv.ask(prefix + [{"op": "wf"}])[1]
            if not info.get("wf"):
                raise core.Infra("the subclass environment is not well-formed: %r" % (
                    [_SCHEMA.nodes[i].name for i in info.get("bad", [])],))
        nodes = [n for n in _SCHEMA.nodes if n.cls in subs]
        run_slice(ctx, drv, nodes, extra, mal, rng, prefix=prefix, tag="sub-%s-" % order)
        ctx.extra["subclasses"] = [n.name for n in nodes]
    finally:
        _SCHEMA = saved
    # the library classes themselves, after that history (bare-first poisons classes not yet encoded)
    idx = [lib.by_cls[p].idx for p, _cs in fam]
    others = [n for n in lib.nodes if n.k == "seq" and n.idx not in idx]
    rng.shuffle(others)
    run_slice(ctx, drv, [lib.nodes[i] for i in idx] + others[:40], 1, 2, rng, tag="sub-%s-lib-" % order)


# ------------------------------------------------------------------ truthiness + the `through-stack` stream

def truthiness(ctx):
    """no PDU-like object may be falsy because its payload is empty (code everywhere
    tests `if not apdu:` / `if iocb.ioResponse:`); the unchanged tree defines no
    __len__ / __bool__ on them"""
    from bacpypes.comm import PDUData, PCI
    from bacpypes.pdu import PDU
    from bacpypes import apdu as A
    things = [("PDUData()", PDUData()), ("PDUData(b'')", PDUData(b"")), ("PDU()", PDU()), ("PDU(b'')", PDU(b"")),
              ("APDU()", A.APDU()), ("ConfirmedRequestPDU()", A.ConfirmedRequestPDU()),
              ("UnconfirmedRequestPDU()", A.UnconfirmedRequestPDU()), ("ComplexAckPDU()", A.ComplexAckPDU()),
              ("SimpleAckPDU()", A.SimpleAckPDU()), ("ErrorPDU()", A.ErrorPDU())]
    for reg in (A.confirmed_request_types, A.complex_ack_types, A.unconfirmed_request_types, A.error_types):
        for _c, cls in sorted(reg.items()):
            things.append((cls.__name__ + "()", cls()))
            apdu = A.APDU()
            try:
                obj = cls()
                obj.decode(apdu)          # empty payload: decodes for classes without required parameters
                things.append((cls.__name__ + " decoded from an empty payload", obj))
            except Exception:
                pass
            things.append(("APDU carrying " + cls.__name__, apdu))
    for label, x in things:
        ctx.count("truthiness", ("truthy", label.split("(")[0].split(" ")[0]))
        try:
            ok = bool(x) is True
        except Exception as e:
            ok = False
            label += " (bool raises %s)" % type(e).__name__
        if not ok:
            ctx.fail("falsy-pdu", {"truthiness": label}, "bool(%s) is not True: an object with an empty payload "
                     "is treated as missing" % label, type=label)


def make_rig():
    """two complete stacks (Application / ASAP / SMAP / NSAP / vlan node) on one vlan,
    with a tap on the wire"""
    from bacpypes.comm import bind
    from bacpypes.task import TaskManager
    from bacpypes.pdu import Address, LocalBroadcast
    from bacpypes.vlan import Network, Node
    from bacpypes.app import Application
    from bacpypes.appservice import StateMachineAccessPoint, ApplicationServiceAccessPoint
    from bacpypes.netservice import NetworkServiceAccessPoint, NetworkServiceElement
    from bacpypes.local.device import LocalDeviceObject

    class _NSE(NetworkServiceElement):
        _startup_disabled = True

    class TapNetwork(Network):
        def __init__(self, *a, **kw):
            Network.__init__(self, *a, **kw)
            self.wire = []

        def process_pdu(self, pdu):
            self.wire.append((str(pdu.pduSource), bytes(pdu.pduData).hex()))
            return Network.process_pdu(self, pdu)

    class Station(Application):
        def __init__(self, instance, vlan):
            device = LocalDeviceObject(objectName="dev%d" % instance, objectIdentifier=("device", instance),
                                       maxApduLengthAccepted=1476, segmentationSupported="noSegmentation",
                                       vendorIdentifier=999)
            Application.__init__(self, device)
            self.address = Address(instance)
            self.asap = ApplicationServiceAccessPoint()
            self.smap = StateMachineAccessPoint(device)
            self.smap.deviceInfoCache = self.deviceInfoCache
            self.nsap = NetworkServiceAccessPoint()
            self.nse = _NSE()
            bind(self.nse, self.nsap)
            bind(self, self.asap, self.smap, self.nsap)
            self.node = Node(self.address, vlan)
            self.nsap.bind(self.node)
            self.requests, self.responses, self.answer = [], [], None

        def indication(self, apdu):
            self.requests.append(apdu)
            if self.answer:
                self.response(self.answer(apdu))

        def confirmation(self, apdu):
            self.responses.append(apdu)

    tm = TaskManager()
    vlan = TapNetwork(broadcast_address=LocalBroadcast())
    return tm, vlan, Station(1, vlan), Station(2, vlan)


def pump(tm):
    for _ in range(10000):
        task, _delta = tm.get_next_task()
        if task is None:
            return
        tm.process_task(task)
    raise core.Infra("through-stack: the task queue does not drain")


def fresh_through_stack(ctx, spec):
    """every confirmed / unconfirmed request class and every complex ack class through
    two real stacks: the octets on the wire = NPCI ++ APCI header ++ the MODEL's encoding of
    the parameters, and the peer application receives an equal value"""
    per_class = spec
    from bacpypes import apdu as A
    drv = core.Driver("drv_c03") if ctx.model_ok else None
    sch = schema()
    rng = ctx.sub_rng("c03-through-stack")
    g = Gen(rng, maxdepth=1)
    truthiness(ctx)
    tm, vlan, client, server = make_rig()
    pending = []          # (case, sent tree, wire octets) for the model comparison

    def values(node):
        seen, out = set(), []
        plans = [p for p, _s in plans_for(node, rng, True)]
        rng.shuffle(plans)
        # the presence patterns that give the SHORTEST encodings first: nothing optional, empty lists
        plans = [{"present": set()}] + plans
        for plan in plans:
            if len(out) >= per_class:
                break
            obj = g.node_value(node, 0, plan)
            for f in node.fields:           # one of them with every list empty
                if len(out) == 0 and f.ref.k == "ty" and f.ref.node.k == "list" and isinstance(getattr(obj, f.name, None), list):
                    setattr(obj, f.name, [])
            try:
                hexs = impl_encode(node, node.cls(**{f.name: getattr(obj, f.name) for f in node.fields}))["hex"]
            except Exception:
                continue
            if len(hexs) // 2 > 1200 or hexs in seen:
                continue
            seen.add(hexs)
            out.append(obj)
        return out

    def send(kind, node, obj, reply_node=None, reply_obj=None):
        case = {"through_stack": kind, "type": node.name, "t": node.idx, "v": tree(node, obj)}
        if reply_node is not None:
            case["ack_type"], case["ack_v"] = reply_node.name, tree(reply_node, reply_obj)
        ctx.count("through-stack", (kind, (reply_node or node).name, "empty" if not impl_encode(reply_node or node, reply_obj or obj)["hex"] else "params"))
        del server.requests[:]
        del client.responses[:]
        del vlan.wire[:]
        if kind == "unconfirmed":
            server.answer = None
        elif reply_node is None:
            server.answer = lambda req: A.SimpleAckPDU(context=req)
        else:
            def answer(req, reply_node=reply_node, reply_obj=reply_obj):
                ack = reply_node.cls(context=req, **{f.name: getattr(reply_obj, f.name) for f in reply_node.fields})
                return ack
            server.answer = answer
        try:
            req = node.cls(**{f.name: getattr(obj, f.name) for f in node.fields})
            req.pduDestination = server.address
            if not bool(req):
                ctx.fail("falsy-pdu", case, "bool(%s instance) is not True" % node.name, type=node.name)
            client.request(req)
            pump(tm)
        except core.Infra:
            raise
        except Exception as e:
            ctx.fail("through-stack", case, "%s sent through Application/ASAP/SMAP/NSAP: %s: %s" % (
                node.name, type(e).__name__, e), type=node.name, exc=type(e).__name__)
            return
        if len(server.requests) != 1 or not isinstance(server.requests[0], node.cls):
            ctx.fail("through-stack", dict(case, wire=vlan.wire), "%s did not arrive at the peer application (%d PDUs "
                     "delivered)" % (node.name, len(server.requests)), type=node.name)
            return
        got = server.requests[0]
        if not bool(got):
            ctx.fail("falsy-pdu", case, "the %s the peer decoded is falsy" % node.name, type=node.name)
        if core.canon(tree(node, got)) != core.canon(case["v"]):
            ctx.fail("through-stack", dict(case, received=tree(node, got)),
                     "the %s the peer application received differs from the one sent" % node.name, type=node.name)
            return
        wire = [w for src, w in vlan.wire if src == str(client.address)]
        if not wire:
            ctx.fail("through-stack", case, "nothing from the client on the wire", type=node.name)
            return
        pending.append((dict(case, part="request"), node, case["v"], wire[0], kind))
        if reply_node is not None:
            if len(client.responses) != 1 or not isinstance(client.responses[0], reply_node.cls):
                ctx.fail("through-stack", dict(case, wire=vlan.wire), "the %s did not arrive at the requesting application: %r"
                         % (reply_node.name, [type(x).__name__ for x in client.responses]), type=reply_node.name)
                return
            back = client.responses[0]
            if not bool(back):
                ctx.fail("falsy-pdu", case, "the decoded %s (ioResponse) is falsy" % reply_node.name, type=reply_node.name)
            if core.canon(tree(reply_node, back)) != core.canon(case["ack_v"]):
                ctx.fail("through-stack", dict(case, received=tree(reply_node, back)),
                         "the %s the requester received differs from the one sent" % reply_node.name, type=reply_node.name)
                return
            wire = [w for src, w in vlan.wire if src == str(server.address)]
            if wire:
                pending.append((dict(case, part="ack"), reply_node, case["ack_v"], wire[0], "ack"))

    for choice, cls in sorted(A.confirmed_request_types.items()):
        node = sch.by_cls[cls]
        for obj in values(node):
            send("confirmed", node, obj)
    for choice, cls in sorted(A.unconfirmed_request_types.items()):
        node = sch.by_cls[cls]
        for obj in values(node):
            send("unconfirmed", node, obj)
    for choice, cls in sorted(A.complex_ack_types.items()):
        rcls = A.confirmed_request_types.get(choice)
        if rcls is None:
            continue
        rnode, anode = sch.by_cls[rcls], sch.by_cls[cls]
        reqs = values(rnode)
        for obj in values(anode):
            if reqs:
                send("confirmed", rnode, rng.choice(reqs), anode, obj)

    # the octets on the wire: NPCI (local unicast, no routing: 01 04 / 01 00) ++ APCI header ++ parameters
    if drv and pending:
        model = drv.ask([{"op": "enc", "t": node.idx, "v": v} for _c, node, v, _w, _k in pending])
        cases, a, b = [], [], []
        for (case, node, v, wire, kind), m in zip(pending, model):
            svc = node.cls.serviceChoice
            octs = bytes.fromhex(wire)
            body = m.get("hex") if m.get("r") == "ok" else None
            if kind == "confirmed":
                shape_ok = len(octs) >= 6 and octs[0] == 1 and octs[2] >> 4 == 0 and octs[2] & 0x08 == 0 and octs[5] == svc
                got_body = octs[6:].hex()
            elif kind == "unconfirmed":
                shape_ok = len(octs) >= 4 and octs[0] == 1 and octs[2] == 0x10 and octs[3] == svc
                got_body = octs[4:].hex()
            else:
                shape_ok = len(octs) >= 5 and octs[0] == 1 and octs[2] >> 4 == 3 and octs[2] & 0x08 == 0 and octs[4] == svc
                got_body = octs[5:].hex()
            cases.append(dict(case, op="through-stack", wire=wire))
            a.append({"header_ok": shape_ok, "body": got_body})
            b.append({"header_ok": True, "body": body})
            if not shape_ok or got_body != body:
                ctx.fail("through-stack", dict(case, wire=wire, model_body=body),
                         "%s: the octets at the bottom of the stack are %s, expected NPCI ++ header(service %d) ++ %s"
                         % (node.name, wire, svc, body or "(nothing)"), type=node.name)
        ctx.compare_stream("through-stack", cases, a, b,
                           sig=lambda c, m: (c["through_stack"], c.get("part"), c.get("ack_type") or c["type"],
                                             "empty" if not m.get("body") else "params"))
    ctx.extra["through_stack_exchanges"] = len(pending)


def run_histories(ctx):
    orders = ("parent-first", "subclass-first", "bare-first")
    jobs = [("fresh_subclass_history", [o, 2 if ctx.quick else 60, 4 if ctx.quick else 120]) for o in orders]
    jobs.append(("fresh_through_stack", 4 if ctx.quick else 40))
    ex = run_fresh_many(ctx, jobs)
    ctx.extra["subclass_history"] = {"orders": sorted(orders), "subclasses": (ex[0] or {}).get("subclasses")}
    ctx.extra["through_stack_exchanges"] = (ex[3] or {}).get("through_stack_exchanges")


# ------------------------------------------------------------------ Annex F (tests, labelled as tests)

def annex_f():
    """(name, registry kind, service choice, octets after the APCI header, builder of the published value)"""
    from bacpypes import apdu as A
    from bacpypes.constructeddata import Any
    from bacpypes.primitivedata import Real, BitString
    from bacpypes.basetypes import PropertyValue, StatusFlags

    def cov_values():
        sf = Any()
        sf.cast_in(BitString([0, 0, 0, 0]))
        return [PropertyValue(propertyIdentifier="presentValue", value=Any(Real(65.0))),
                PropertyValue(propertyIdentifier="statusFlags", value=sf)]
    return [
        ("F.3.5 ReadProperty request", "confirmed", 12, "0c000000051955",
         lambda: A.ReadPropertyRequest(objectIdentifier=("analogInput", 5), propertyIdentifier="presentValue")),
        ("F.3.5 ReadProperty ack", "complexAck", 12, "0c0000000519553e444290999a3f",
         lambda: A.ReadPropertyACK(objectIdentifier=("analogInput", 5), propertyIdentifier="presentValue",
                                   propertyValue=Any(Real(72.30000305175781)))),
        ("F.1.? Who-Is with limits", "unconfirmed", 8, "09031903",
         lambda: A.WhoIsRequest(deviceInstanceRangeLowLimit=3, deviceInstanceRangeHighLimit=3)),
        ("Who-Is without limits", "unconfirmed", 8, "",
         lambda: A.WhoIsRequest()),
        ("I-Am", "unconfirmed", 0, "c4020000032204009103" "2163",
         lambda: A.IAmRequest(iAmDeviceIdentifier=("device", 3), maxAPDULengthAccepted=1024,
                              segmentationSupported="noSegmentation", vendorID=99)),
        ("F.3.9 WriteProperty request", "confirmed", 15, "0c0080000119553e44433400003f4908",
         lambda: A.WritePropertyRequest(objectIdentifier=("analogValue", 1), propertyIdentifier="presentValue",
                                        propertyValue=Any(Real(180.0)), priority=8)),
        ("F.1.10 SubscribeCOV request", "confirmed", 5, "09121c0000000a29013900",
         lambda: A.SubscribeCOVRequest(subscriberProcessIdentifier=18, monitoredObjectIdentifier=("analogInput", 10),
                                       issueConfirmedNotifications=True, lifetime=0)),
        ("F.1.2 ConfirmedCOVNotification request", "confirmed", 1,
         "09121c020000042c0000000a39004e09552e44428200002f096f2e8204002f4f",
         lambda: A.ConfirmedCOVNotificationRequest(subscriberProcessIdentifier=18,
                                                   initiatingDeviceIdentifier=("device", 4),
                                                   monitoredObjectIdentifier=("analogInput", 10),
                                                   timeRemaining=0, listOfValues=cov_values())),
    ]


def run_annex_f(ctx, drv):
    from bacpypes import apdu as A
    regs = {"confirmed": A.confirmed_request_types, "complexAck": A.complex_ack_types,
            "unconfirmed": A.unconfirmed_request_types, "error": A.error_types}
    sch = schema()
    reqs, impl_r = [], []
    for name, kind, choice, hexs, build in annex_f():
        case = {"annex": name, "kind": kind, "choice": choice, "hex": hexs}
        cls = regs[kind].get(choice)
        if cls is None:
            ctx.fail("annex-f", case, "service choice %d is not registered" % choice)
            continue
        node = sch.by_cls[cls]
        try:
            obj = build()
            enc = impl_encode(node, obj)
            if enc["hex"] != hexs:
                ctx.fail("annex-f", dict(case, got=enc["hex"]), "%s: produced octets differ from the published ones" % name)
            apdu = A.APDU()
            apdu.pduData = bytearray(bytes.fromhex(hexs))
            back = cls()
            back.decode(apdu)
            if core.canon(tree(node, back)) != core.canon(tree(node, obj)):
                ctx.fail("annex-f", dict(case, decoded=tree(node, back)),
                         "%s: published octets do not decode to the published parameter values" % name)
            a = {"r": "ok", "t": node.idx, "v": tree(node, back), "rest": [],
                 "re": {"tags": enc["tags"], "hex": enc["hex"]}}
        except Exception as e:
            ctx.fail("annex-f", case, "%s: %s: %s" % (name, type(e).__name__, e))
            a = err_reply(e)
            a.pop("exc", None)
        reqs.append({"op": "service", "kind": kind, "choice": choice, "hex": hexs, "annex": name})
        impl_r.append(a)
    if drv and reqs:
        ctx.compare_stream("annex-f", reqs, impl_r, drv.ask(reqs), sig=lambda c, m: c["annex"])
    else:
        for _ in reqs:
            ctx.count("annex-f")


# ------------------------------------------------------------------ corpus

def run_corpus(ctx, drv):
    d = os.path.join(core.VERIF, "corpus", "C03")
    if not os.path.isdir(d):
        return
    for fn in sorted(os.listdir(d)):
        if fn.endswith(".json"):
            replay_case(ctx, drv, json.load(open(os.path.join(d, fn))), "corpus:" + fn)


def obj_from_tree(node, v, as_attr=False, cls=None):
    """rebuild a live object from a canonical value tree (corpus / replay)"""
    from bacpypes.primitivedata import Tag, TagList
    from bacpypes.constructeddata import Any

    def of_ref(ref, x, in_list=False):
        if ref.k == "prim":
            return ref.cls(Tag(0, ref.app, x["p"][0], bytes.fromhex(x["p"][1]))).value
        if ref.k == "anyAtomic":
            return Tag(0, x["a"][0], x["a"][1], bytes.fromhex(x["a"][2])).app_to_object()
        return obj_from_tree(ref.node, x, as_attr=not in_list, cls=ref.cls)
    if node.k == "seq":
        obj = node.cls()
        for f, x in zip(node.fields, v["seq"]):
            setattr(obj, f.name, None if x is None else of_ref(f.ref, x))
        return obj
    if node.k == "choice":
        i, x = v["ch"]
        return node.cls(**{node.fields[i].name: of_ref(node.fields[i].ref, x)})
    if node.k == "list":
        items = [of_ref(node.elem, x, in_list=True) for x in v["list"]]
        return items if (as_attr and node.lk in ("seqof", "listof")) else node.cls(items)
    if node.k == "any":
        a = (cls or Any)()
        a.tagList = TagList([mktag(t) for t in v["tags"]])
        return a
    if node.k == "nameValue":
        from bacpypes.primitivedata import CharacterString
        name = CharacterString(Tag(0, 7, v["seq"][0]["p"][0], bytes.fromhex(v["seq"][0]["p"][1]))).value
        x = v["seq"][1]
        value = None if x is None else (Tag(0, x["a"][0], x["a"][1], bytes.fromhex(x["a"][2])).app_to_object()
                                        if "a" in x else obj_from_tree(node.dt.node, x))
        return node.cls(name=name, value=value)
    raise core.Infra("obj_from_tree: " + node.k)


def replay_case(ctx, drv, case, label):
    sch = schema()
    if "annex" in case:
        return run_annex_f(ctx, drv)
    if "any" in case:
        return replay_any(ctx, drv, case)
    if "mutate" in case:
        return replay_mutate(ctx, drv, case)
    if "decode_first" in case:
        return replay_decode_first(ctx, drv, case)
    if "through_stack" in case or "truthiness" in case:
        run_fresh(ctx, "fresh_through_stack", 6)
        return
    if str(case.get("type", "")).find("Ext") > 0 and not [n for n in sch.nodes if n.name == case.get("type")]:
        for order in ("parent-first", "subclass-first", "bare-first"):
            run_fresh(ctx, "fresh_subclass_history", [order, 3, 6])
        return
    node = None
    for n in sch.nodes:
        if n.name == case.get("type"):
            node = n
    if node is None:
        raise core.Infra("%s: no type %r in the tree under test" % (label, case.get("type")))
    if "v" in case:
        obj = obj_from_tree(node, case["v"])
        reqs = []
        run_type(ctx, reqs, node, [(case.get("sig", label), obj)])
        if drv and reqs:
            model = drv.ask([r for r, _a, _c in reqs])
            ctx.compare_stream(label, [r for r, _a, _c in reqs], [a for _r, a, _c in reqs], model,
                               sig=lambda c, m: (node.name, c["op"]))
    elif "tags" in case:
        c = {"op": "dec", "t": node.idx, "tags": case["tags"], "pdu": bool(case.get("pdu", node.apci))}
        a = shape_reply(impl(c, shape=True))
        if drv:
            ctx.compare_stream(label, [c], [a], [shape_reply(b) for b in drv.ask([c])],
                               sig=lambda c_, m: (node.name, m.get("k") or "ok"))


# ------------------------------------------------------------------ entry points

def type_slices(n, k):
    idx = list(range(n))
    return [idx[i::k] for i in range(k) if idx[i::k]]


def run(ctx):
    sch = schema()
    drv = core.Driver("drv_c03") if ctx.model_ok else None
    if drv:
        check_schema(ctx, drv)
        info = drv.ask([{"op": "wf"}])[0]
        names = [n.name for n in sch.nodes]
        proved = set(info.get("proved", []))
        ctx.extra["wf_env"] = info.get("wf")
        ctx.extra["types_total"] = len(names)
        ctx.extra["types_covered_by_codec_roundtrip"] = len(proved)
        ctx.extra["types_not_covered_by_the_theorem"] = [names[i] for i in range(len(names)) if i not in proved]
        if info.get("bad"):
            ctx.extra["types_violating_wf"] = [names[i] for i in info["bad"] if i < len(names)]
    run_corpus(ctx, drv)
    run_annex_f(ctx, drv)
    census_nonfamily(ctx, 6 if ctx.quick else 60)
    run_synthetic(ctx, drv)
    run_decode_first(ctx, drv, 2 if ctx.quick else 8, 2 if ctx.quick else 8)
    run_histories(ctx)
    core.run_shards(ctx, "harness.c03", "shard_mutate",
                    [(k, 16, 1 if ctx.quick else 40) for k in range(16)])
    typed, skipped = typed_any_targets(sch)
    ctx.extra["any_stream"] = {"object_property_datatypes": len(typed),
                               "distinct_datatype_classes": len(set(t[1].cls for t in typed)),
                               "skipped_untyped_or_Any": skipped,
                               "atomic_classes": len(atomic_refs(sch))}
    if ctx.quick:
        core.run_shards(ctx, "harness.c03", "shard_any", [(k, 8, 1) for k in range(8)])
    else:
        core.run_shards(ctx, "harness.c03", "shard_any", [(k, 16, 12) for k in range(16)])
    n = len(sch.nodes)
    if ctx.quick:
        specs = [(sl, 6, 20, "q%d" % k) for k, sl in enumerate(type_slices(n, 16))]
    else:
        specs = []
        for rep in range(16):
            specs += [(sl, 100, 150, "t%d.%d" % (rep, k)) for k, sl in enumerate(type_slices(n, 16))]
    core.run_shards(ctx, "harness.c03", "shard_types", specs)
    ctx.extra["registered_pdus"] = sum(len(v) for v in sch.registries.values())


def search(ctx):
    """focused search when an obligation / the correspondence is broken: sweep
    the types named by the failing well-formedness clause (or by the
    disagreements) with all presence patterns and more random values"""
    sch = schema()
    targets = set()
    for d in ctx.disagreements:
        c = d.get("case") or {}
        if isinstance(c, dict) and "t" in c and isinstance(c["t"], int) and c["t"] < len(sch.nodes):
            targets.add(c["t"])
    bad = ctx.extra.get("types_violating_wf") or []
    for n in sch.nodes:
        if n.name in bad:
            targets.add(n.idx)
    if not targets:
        targets = set(range(len(sch.nodes)))
    rng = ctx.sub_rng("c03-search")
    for i in sorted(targets):
        node = sch.nodes[i]
        run_type(ctx, [], node, build_cases(node, rng, False, 40))
        if len(ctx.failures) > 20:
            break


def replay(ctx, payload):
    drv = core.Driver("drv_c03") if ctx.model_ok else None
    rec = payload.get("failure") or (payload.get("correspondence_disagreements") or [{}])[0]
    case = rec.get("case")
    if not case:
        raise core.Infra("nothing to replay")
    replay_case(ctx, drv, case, "replay")
