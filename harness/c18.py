"""
C18 — addresses parse, print, compare and hash coherently in every notation.

Correspondence streams (model = lean/Drv/C18.lean over Model.Addr):
  stations  : every station number 0..255 (+ the refused neighbours) in every spelling
  nets      : network numbers at the range edges x every net-carrying form
  ipv4      : IPv4 addresses x mask lengths 0..32 (+ refused 33..) x port boundaries
  octets    : octet strings of length 0..8 in every octet-string form
  tuples    : (host, port) tuples with string and integer hosts
  pairs     : every ordered pair inside pools of equivalent spellings and across pools (==, _tuple)
  malformed : near-miss mutations of valid texts, random strings, exhaustive short strings
  pack      : pack_ip_addr / unpack_ip_addr
  reuse     : ONE long-lived Address object, hashed / stored in a dict and a set, then re-initialised with the
              next spelling (decode_address, __init__ again, the typed subclasses' __init__ on the same
              object, refused spellings in between); per step the model's reply for a FRESH address
  stack     : hand-encoded NPDU octets (local, SNET/SADR via several routers, DNET global / remote
              broadcast / remote station) through a real NetworkServiceAccessPoint (application rig and
              two-port router rig) and BVLL octets through AnnexJCodec+BIPSimple; the model's reply for the
              typed address each pduSource / pduDestination denotes
For each constructed address both sides report type, net, octets, length, the
IP helper fields, the printed text and the (type, net, octets) of the re-parsed
printed text.

  app       : a real ApplicationIOController (stub service access point below it) sending IOCB requests to a
              station written in every equivalent spelling of the pools, incl. explicit-route spellings
              ('2:5@10.0.0.9', route= of the subclasses, route attached afterwards), answered (ack / error /
              reject / abort) from the plain source (half of them the Address object the NSAP rig hands up);
              the model's addrEqR / hashKeyR for (destination+route, source)
  mixed     : an address and an int as keys of ONE table (all 256 one-octet stations x ints incl. the station
              number itself, remote / IP / broadcast addresses); the model's addrEqInt and keyOfAddr vs keyOfInt
  settings  : histories (length 1..3) of the supported ways to change route_aware (attribute, item, dict_settings,
              os_settings via BACPYPES_ROUTE_AWARE) ending in each value; then ==/_tuple() of 8 address pairs with
              and without routes; the model's addrEqR / tupleR under the value the stack reports; default restored
  coerce    : a == t for non-address t (str, int, bytes/bytearray, (host, port), (long, port), ('', port)) over the
              pools; the model's eq of a with the address t denotes
Implementation-side oracle (independent of the model):
  * the denotation attached by the generator ("exp": type / net / octets, and
    for IP texts subnet / host / directed broadcast / port computed with the
    standard `ipaddress` module) or "refuse";
  * for every accepted address: 0 <= net <= 65534 and an int, octets/length
    coherent, IP tuple port == addrPort == port in the octets,
    Address(str(a)) == a both ways with equal hash and dict membership;
  * object reuse: after every re-initialisation the object equals a fresh address of the new value both
    ways, hashes equally, finds and is found in dict/set, prints alike; after ANY history (every stream)
    hash(x) == hash(shadow(x)), shadow = blank Address given x's current five fields;
  * stack (default settings): every address handed up carries no route, has the fields the frame denotes
    (independent delivery/mapping reference), equals the typed address and its printed text both ways with
    equal hash and dict membership, passes the generic checks; all sightings of one station are equal, hash
    alike, print alike and find the same DeviceInfoCache record (also under the typed address);
  * app: every spelling addresses the SAME transaction queue: one APDU downstream, one queue, the IOCB is
    completed by the reply from the equal address with that very reply, the queue is released, the next request
    goes out; two spellings of one station in flight + a request to another station: two queues (one per
    station), served in order;
  * mixed keys: {address: a, int: b} (both insertion orders) keeps two entries and each lookup its own value,
    sets keep two members, no membership across kinds — also for int == station number; the real
    DeviceInfoCache fed I-Ams whose device instances equal other devices' station numbers answers every lookup
    by instance (0..255 + all instances) and by address (all 256 stations, every device's spelling and printed
    text) like two separate reference maps, has_device_info likewise, acquire() counts on the right record;
  * settings history: settings.route_aware and settings['route_aware'] both show the last value set; under the
    reported value equal addresses hash equally, find each other as dict keys and in DeviceInfoCache (route
    aware: for pairs that both carry a route or both carry none), and different routes give different _tuple();
  * coercion (generic_checks, every accepted address of every stream, once per distinct value/construction, and
    the coerce stream): (a == t) == (a == Address(t)) and (a != t) == (a != Address(t)) for fixed tuples / ints /
    strings / bytes and for every non-address spelling of a itself (octets, 0x / X'' text, int, (dotted, port),
    (long, port), (long - 2^32, port), ('', port) for 0.0.0.0, printed text), which must compare equal;
  * pools: all members pairwise ==, equal hash, found in a dict keyed by any
    other member; members of different pools are !=; == is reflexive,
    symmetric and transitive over sampled triples.
"""
import itertools, struct, ipaddress
from . import core

LEAN_TARGETS = ["BacVerif.Props.C18", "drv_c18"]
LEANCHECKER = ["BacVerif.Props.C18"]
LEVEL = "proof"
RULE = ("all station numbers 0..255 (+256..300 and far values, refused) in 10 spellings; network numbers "
        "{0,1,255,256,65533,65534,65535,65536,70000,10^20} x 12 net-carrying forms; IPv4 (edge + seeded random) "
        "x masks 0..32 (+33,34,99 refused) x ports {none,0,1,47807,47808,47809,47823,47824,65535,65536,70000}, "
        "expected values from the standard ipaddress module; octet strings of length 0..8 x 9 forms; tuples; "
        "every ordered pair inside pools of equivalent spellings + cross-pool pairs; near-miss mutations, random "
        "strings and all strings up to length 5 (quick 4) over the 16-letter notation alphabet 0129*:./x'Xaf\\nA and blank, and all strings of length 6 (thorough ..8) over 01.:/*x. "
        "object reuse: all ordered pairs of 14 canonical values + seeded random 2..6-step histories over the pools' "
        "spellings (12% refused ones); stack: (rig A/B) x 15 source stations x 7 destinations x 4 link sources x arrival "
        "port + seeded random scenarios, B/IP: hosts x 6 ports x {unicast, broadcast, forwarded}. "
        "app: every station pool x (its spellings + explicit-route variants, <=10 quick / <=40 thorough) x reply kind, "
        "+ two-spellings-in-flight scenarios; mixed keys: 256 stations x 7 ints + 13 other addresses x 12 ints; "
        "DeviceInfoCache: 3 fixed + 60 (thorough 1500) seeded device sets with instance/station clashes. "
        "distinct = distinct (stream, model branch label of constructor/recogniser/printer or error kind)")
TRUSTED = ["lean/BacVerif/Model/Addr.lean is a hand transcription of Address.decode_address/__str__/__eq__/_tuple and "
           "the typed constructors; tied by the correspondence streams",
           "Python re, int(), bytes, struct, binascii; socket.inet_aton/inet_ntoa (modelled on digit-and-dot "
           "strings, compared on every IP case); the standard ipaddress module (oracle)"]
ASSUMPTIONS = ["route suffix NOTATIONS '@...' are outside the parsing claim (model: RAddr = address + route, built by the "
               "harness from text@router / route=); they appear only as destinations of the app stream, never two "
               "different explicit routes for one station (then __eq__ compares the routes)",
               "ASCII strings only (Python's \\d also accepts other Unicode decimal digits)",
               "netifaces is not installed (interface-name notation unreachable); the harness pins pdu.netifaces = None",
               "settings.route_aware is False (default) in every stream except route_aware_reuse (3 cases) and the "
               "settings-history stream, which restore the default through every way of setting it",
               "tuple host strings are drawn from digits and dots (inet_aton's hex parts / trailing blanks not modelled)"]

PORTS = [None, 0, 1, 47807, 47808, 47809, 47823, 47824, 65535, 65536, 70000]
NETS = [0, 1, 255, 256, 65533, 65534, 65535, 65536, 70000, 10 ** 20]


# ---------------------------------------------------------------- implementation adapter

def setup():
    import bacpypes.pdu as pdu
    from bacpypes.settings import settings
    pdu.netifaces = None
    settings.route_aware = False
    settings["route_aware"] = False


def ek(e):
    if isinstance(e, struct.error):
        return "encoding"
    if isinstance(e, OSError):
        return "other"
    if isinstance(e, ValueError):
        return "valueRange"
    if isinstance(e, TypeError):
        return "invalidDatatype"
    return core.exc_kind(e)


def raw_arg(spec):
    k = spec["k"]
    if k == "str":
        return spec["s"]
    if k == "int":
        return spec["n"]
    if k == "bytes":
        return bytes.fromhex(spec["x"])
    if k in ("tups", "tupi"):
        return (spec["h"], spec["p"])
    raise core.Infra("bad inner ctor " + k)


def route_text(r):
    """the text after '@' for a route spec (int / bytes / (host, port))"""
    if r["k"] == "int":
        return str(r["n"])
    if r["k"] == "bytes":
        return "0x" + r["x"]
    if r["k"] == "tups":
        return r["h"] if r["p"] == 47808 else "%s:%d" % (r["h"], r["p"])
    raise core.Infra("bad route spec")


def build(spec):
    from bacpypes import pdu
    if spec.get("route") is not None:
        return build_routed(spec)
    k = spec["k"]
    if k in ("str", "int", "bytes", "tups", "tupi"):
        return pdu.Address(raw_arg(spec))
    if k == "net2":
        return pdu.Address(spec["net"], raw_arg(spec["a"]))
    if k == "LS":
        return pdu.LocalStation(spec["n"])
    if k == "LSb":
        return pdu.LocalStation(bytes.fromhex(spec["x"]))
    if k == "RS":
        return pdu.RemoteStation(spec["net"], spec["n"])
    if k == "RSb":
        return pdu.RemoteStation(spec["net"], bytes.fromhex(spec["x"]))
    if k == "LB":
        return pdu.LocalBroadcast()
    if k == "RB":
        return pdu.RemoteBroadcast(spec["net"])
    if k == "GB":
        return pdu.GlobalBroadcast()
    if k == "null":
        return pdu.Address()
    raise core.Infra("bad ctor " + k)


def build_routed(spec):
    """destinations written WITH AN EXPLICIT ROUTE: 'text@router' or the route= argument of the subclasses"""
    from bacpypes import pdu
    r = spec["route"]
    k = spec["k"]
    if k == "str":
        return pdu.Address(spec["s"] + "@" + route_text(r))
    rt = pdu.Address(raw_arg(r))
    if k == "LS":
        return pdu.LocalStation(spec["n"], route=rt)
    if k == "LSb":
        return pdu.LocalStation(bytes.fromhex(spec["x"]), route=rt)
    if k == "RS":
        return pdu.RemoteStation(spec["net"], spec["n"], route=rt)
    if k == "RSb":
        return pdu.RemoteStation(spec["net"], bytes.fromhex(spec["x"]), route=rt)
    a = build({kk: v for kk, v in spec.items() if kk != "route"})
    a.addrRoute = rt
    return a


def key(a):
    return [a.addrType, a.addrNet, None if a.addrAddr is None else bytes(a.addrAddr).hex()]


def jaddr(a, with_ip=True):
    from bacpypes import pdu
    ip = None
    if with_ip and hasattr(a, "addrIP"):
        bt = a.addrBroadcastTuple
        ip = {"ip": a.addrIP, "mask": a.addrMask, "host": a.addrHost, "subnet": a.addrSubnet,
              "port": a.addrPort, "th": a.addrTuple[0], "bh": bt[0]}
    try:
        s = str(a)
    except Exception as e:
        s = {"err": ek(e)}
    rt = None
    if isinstance(s, str):
        try:
            rt = key(pdu.Address(s))
        except Exception as e:
            rt = {"err": ek(e)}
    return {"r": "ok", "ty": a.addrType, "net": a.addrNet,
            "addr": None if a.addrAddr is None else bytes(a.addrAddr).hex(),
            "len": a.addrLen, "ip": ip, "str": s, "rt": rt}


def impl(case, keep=None):
    from bacpypes import pdu
    op = case["op"]
    try:
        if op == "mk":
            a = build(case["c"])
            if keep is not None:
                keep.append(a)
            return jaddr(a)
        if op == "eq":
            a = build(case["a"])
            b = build(case["b"])
            if keep is not None:
                keep.extend([a, b])
            return {"r": "ok", "eq": bool(a == b), "hk": a._tuple() == b._tuple()}
        if op == "pack":
            return {"r": "ok", "hex": pdu.pack_ip_addr((case["h"], case["p"])).hex()}
        if op == "unpack":
            h, p = pdu.unpack_ip_addr(bytes.fromhex(case["x"]))
            return {"r": "ok", "h": h, "p": p}
    except Exception as e:
        return {"r": "err", "k": ek(e)}
    raise core.Infra("bad op")


# ---------------------------------------------------------------- oracle

def ip_expect(ipint, masklen, port):
    """independent reference: the standard ipaddress module"""
    iface = ipaddress.ip_interface((ipint, masklen))
    net = iface.network
    return {"ip": ipint, "mask": int(net.netmask), "host": int(iface.ip) - int(net.network_address),
            "subnet": int(net.network_address), "bcast": str(net.broadcast_address),
            "port": 47808 if port is None else port}


HEXD = set("0123456789abcdefABCDEF")
DEC = set("0123456789")


def _isdec(t):
    return len(t) > 0 and all(c in DEC for c in t)


def _hexpairs(h):
    if len(h) == 0 or len(h) % 2 or any(c not in HEXD for c in h):
        return None
    return bytes(int(h[i:i + 2], 16) for i in range(0, len(h), 2))


def _ref_station(t):
    """station part -> octets | None (no notation) | 'skip' (no opinion)"""
    if _isdec(t):
        v = int(t)
        return bytes([v]) if v <= 255 else None
    if t.startswith("0x"):
        return _hexpairs(t[2:])
    if t.startswith("X'") and t.endswith("'") and len(t) >= 3:
        return _hexpairs(t[2:-1])
    # dotted quad [/mask] [:port]
    port, mask = 47808, 32
    if ":" in t:
        t, p = t.split(":", 1)
        if not _isdec(p):
            return None
        port = int(p)
    if "/" in t:
        t, m = t.split("/", 1)
        if not _isdec(m):
            return None
        mask = int(m)
    parts = t.split(".")
    if len(parts) != 4 or not all(_isdec(q) for q in parts):
        return None
    if port > 65535 or mask > 32:
        return None
    if any(len(q) > 1 and q[0] == "0" for q in parts):
        return "skip"       # inet_aton reads these as octal; ipaddress refuses them: no opinion
    if any(int(q) > 255 for q in parts):
        return None
    return bytes(int(q) for q in parts) + struct.pack("!H", port)


def ref_parse(s):
    """Independent reference for the textual notations the property lists.
    Returns [type, net, octets-hex] | None (not a notation: must be refused) | 'skip'.
    Tolerated on purpose: ONE trailing newline (Python's `$`)."""
    if s.endswith("\n"):
        s = s[:-1]
    if s == "*":
        return [1, None, None]
    if s == "*:*":
        return [5, None, None]
    groups = s.split(":")
    if len(groups) == 6 and all(len(g) == 2 and _hexpairs(g) is not None for g in groups):
        return [2, None, "".join(groups).lower()]
    if ":" in s:
        head, tail = s.split(":", 1)
        if _isdec(head):
            net = int(head)
            if tail == "*":
                return [3, net, None] if net <= 65534 else None
            st = _ref_station(tail)
            if st is None or net > 65534:
                return None
            return "skip" if st == "skip" else [4, net, st.hex()]
    st = _ref_station(s)
    if st is None:
        return None
    return "skip" if st == "skip" else [2, None, st.hex()]


def generic_checks(ctx, case, a):
    """what must hold for every address the library hands out"""
    from bacpypes import pdu
    t = a.addrType
    if t == 0:
        return
    remote = t in (3, 4)
    station = t in (2, 4)
    if remote:
        n = a.addrNet
        if not (isinstance(n, int) and not isinstance(n, bool) and 0 <= n <= 65534):
            ctx.fail("net-range", case, "accepted with network %r (must be 0..65534)" % (n,), net=repr(n))
            return
    elif a.addrNet is not None:
        ctx.fail("fields", case, "non-remote address carries network %r" % (a.addrNet,))
    if station:
        if not isinstance(a.addrAddr, bytes) or a.addrLen != len(a.addrAddr):
            ctx.fail("fields", case, "octets/length incoherent: %r / %r" % (a.addrAddr, a.addrLen))
            return
    elif a.addrAddr is not None or a.addrLen is not None:
        ctx.fail("fields", case, "broadcast carries octets %r" % (a.addrAddr,))
    if hasattr(a, "addrIP") and station and len(a.addrAddr) == 6:
        port = struct.unpack("!H", a.addrAddr[4:])[0]
        ipv = struct.unpack("!L", a.addrAddr[:4])[0]
        bt = a.addrBroadcastTuple
        import socket
        th = a.addrTuple[0]
        try:
            th_ok = (socket.inet_aton(th) if th else bytes(4)) == a.addrAddr[:4]
        except OSError:
            th_ok = False
        if not (a.addrPort == port == a.addrTuple[1] and bt[1] == port and a.addrIP == ipv and th_ok):
            ctx.fail("ip-incoherent", case,
                     "addrPort %r / addrTuple %r / broadcast %r disagree with octets %s" % (
                         a.addrPort, a.addrTuple, bt, a.addrAddr.hex()), port=a.addrPort)
            return
    if station and len(a.addrAddr) == 0:
        return          # length 0 is outside the quantifier (1..7): cannot be printed
    # print -> parse
    try:
        s = str(a)
        b = pdu.Address(s)
    except Exception as e:
        ctx.fail("print-parse", case, "str()/re-parse raised %s: %s" % (type(e).__name__, e))
        return
    ok = (b == a) and (a == b) and not (a != b) and hash(a) == hash(b) and (b in {a: 1}) and (a in {b: 1})
    if not ok or key(a) != key(b):
        ctx.fail("print-parse", case, "Address(%r) is %r, not equal to the printed address %r" % (s, key(b), key(a)))
    shadow_check(ctx, case, a, "after str()/==/hash")
    coercion_check(ctx, case, a)


_COERCE_FIXED = None
_COERCE_SEEN = set()


def _outcome(f):
    try:
        return bool(f())
    except Exception as e:
        return "raises " + ek(e)


def coerce_args(a):
    """non-Address spellings to compare `a` with: every one that denotes a itself, and fixed near misses"""
    global _COERCE_FIXED
    from bacpypes import pdu
    if _COERCE_FIXED is None:
        fixed = [("1.2.3.4", 47808), (0x01020304, 47808), ("", 47808), ("0.0.0.0", 47808), 5, "5", b"\x05", "*", "1:5",
                 "0x01020304bac0", bytearray(b"\x01\x02\x03\x04\xba\xc0")]
        _COERCE_FIXED = [(t, pdu.Address(t)) for t in fixed]
    out = list(_COERCE_FIXED)
    t, bs = a.addrType, a.addrAddr
    mine = []
    if t == 2 and bs is not None and len(bs) >= 1:
        mine += [bytes(bs), "0x" + bs.hex(), "X'" + bs.hex().upper() + "'"]
        if len(bs) == 1:
            mine += [bs[0], str(bs[0])]
        if len(bs) == 6:
            ipint, port = struct.unpack("!LH", bs)
            mine += [(str(ipaddress.IPv4Address(ipint)), port), (ipint, port), (ipint - 2 ** 32, port)]
            if ipint == 0:
                mine.append(("", port))
    elif t in (1, 3, 4, 5):
        try:
            mine.append(str(a))
        except Exception:
            pass
    for m in mine:
        try:
            out.append((m, pdu.Address(m)))
        except Exception:
            pass
    return out, len(mine)


def coercion_check(ctx, case, a):
    """`a == t` for a non-address t is `a == Address(t)` (that is what __eq__ says it does), same for !="""
    sig_ = (a.addrType, a.addrNet, a.addrAddr, getattr(a, "addrTuple", None), type(a).__name__, case.get("c", {}).get("k"))
    if sig_ in _COERCE_SEEN:
        return True
    if len(_COERCE_SEEN) < 200000:
        _COERCE_SEEN.add(sig_)
    args, nmine = coerce_args(a)
    for i, (t, ref) in enumerate(args):
        e1, e2 = _outcome(lambda: a == t), _outcome(lambda: a == ref)
        n1, n2 = _outcome(lambda: a != t), _outcome(lambda: a != ref)
        if e1 != e2 or n1 != n2 or (i >= len(args) - nmine and e1 is not True):
            ctx.fail("coercion", case, "%s == %r is %r but == Address(%r) is %r (!=: %r / %r)%s" % (
                a, t, e1, t, e2, n1, n2, "; that spelling denotes the address itself" if i >= len(args) - nmine else ""),
                arg=repr(t))
            return False
    return True


def shadow(a):
    """a blank Address given the five fields an address consists of: what `a` is worth NOW"""
    from bacpypes import pdu
    b = pdu.Address()
    b.addrType, b.addrNet, b.addrAddr, b.addrLen = a.addrType, a.addrNet, a.addrAddr, a.addrLen
    r = a.addrRoute
    b.addrRoute = None if r is None else shadow(r)
    return b


def shadow_check(ctx, case, a, when):
    """whatever happened to the object before: its hash is the hash of its current value"""
    b = shadow(a)
    if hash(a) != hash(b) or not (a == b and b == a) or ({b: 1}.get(a) != 1):
        ctx.fail("stale-hash", case, "%s: the object is worth %r but hashes/looks up differently from a fresh "
                 "address of that value (hash %d vs %d)" % (when, key(a), hash(a), hash(b)))
        return False
    return True


def mutable_octets_check(ctx, case, a):
    """raw octets may be handed over as a bytearray: the address must equal, hash and look up like the
    one built from bytes, and must not change when the caller reuses its buffer"""
    from bacpypes import pdu
    c = case["c"]
    inner = c.get("a") if c["k"] == "net2" else c
    if not isinstance(inner, dict) or inner.get("k") not in ("bytes", "LSb", "RSb") or c["k"] in ("RSb",) and False:
        return
    buf = bytearray.fromhex(inner["x"])
    try:
        if c["k"] == "bytes":
            b = pdu.Address(buf)
        elif c["k"] == "net2":
            b = pdu.Address(c["net"], buf)
        elif c["k"] == "LSb":
            b = pdu.LocalStation(buf)
        elif c["k"] == "RSb":
            b = pdu.RemoteStation(c["net"], buf)
        else:
            return
        k0 = key(b)
        ok = (a == b) and (b == a) and hash(a) == hash(b) and (b in {a: 1}) and (a in {b: 1})
        if len(buf):
            buf[0] ^= 0xFF
        same_after = key(b) == k0 and (a == b)
    except Exception as e:
        ctx.fail("bytearray-octets", case, "raw octets given as a bytearray: %s: %s" % (type(e).__name__, e))
        return
    if not ok or k0 != key(a):
        ctx.fail("bytearray-octets", case, "address built from a bytearray is %r, from bytes %r; ==/hash/dict disagree" % (k0, key(a)))
    elif not same_after:
        ctx.fail("bytearray-octets", case, "address changed when the caller modified the bytearray it was built from")


def oracle(ctx, case, r, objs):
    op = case["op"]
    if r.get("r") == "err" and r["k"].startswith("python:"):
        ctx.fail("unexpected-exception", case, "raised %s" % r["k"])
        return
    if op == "mk":
        exp = case.get("exp")
        if r["r"] == "ok":
            generic_checks(ctx, case, objs[0])
            mutable_octets_check(ctx, case, objs[0])
        if case["c"]["k"] == "str" and "@" not in case["c"]["s"] and case["c"]["s"].isascii():
            ref = ref_parse(case["c"]["s"])
            if ref is None and r["r"] == "ok":
                ctx.fail("not-refused", case, "text %r is none of the notations but is accepted as %r (printed %r)" % (
                    case["c"]["s"], [r["ty"], r["net"], r["addr"]], r["str"]), why="reference-recogniser")
                return
            if isinstance(ref, list):
                if r["r"] != "ok":
                    ctx.fail("refused", case, "valid notation %r refused (%s); denotes %r" % (case["c"]["s"], r["k"], ref))
                    return
                if [r["ty"], r["net"], r["addr"]] != ref:
                    ctx.fail("fields", case, "text %r yields %r, the notation denotes %r" % (
                        case["c"]["s"], [r["ty"], r["net"], r["addr"]], ref))
                    return
        if exp is None:
            return
        if exp == "refuse":
            if r["r"] == "ok":
                ctx.fail("not-refused", case, "accepted as %r (printed %r); the notation denotes no address" % (
                    [r["ty"], r["net"], r["addr"]], r["str"]), why=case.get("why"))
            return
        if r["r"] != "ok":
            ctx.fail("refused", case, "valid notation refused (%s); denotes %r" % (r["k"], exp))
            return
        if [r["ty"], r["net"], r["addr"]] != exp["key"]:
            ctx.fail("fields", case, "yields %r, the notation denotes %r" % ([r["ty"], r["net"], r["addr"]], exp["key"]))
            return
        if r["len"] != (None if exp["key"][2] is None else len(exp["key"][2]) // 2):
            ctx.fail("fields", case, "addrLen %r" % (r["len"],))
        e = exp.get("ip")
        if e is not None:
            g = r["ip"]
            if g is None:
                ctx.fail("ip-fields", case, "IP helper fields missing")
            elif (g["ip"], g["mask"], g["host"], g["subnet"], g["bh"], g["port"]) != (
                    e["ip"], e["mask"], e["host"], e["subnet"], e["bcast"], e["port"]):
                ctx.fail("ip-fields", case, "ip/mask/host/subnet/broadcast/port %r; ipaddress says %r" % (
                    (g["ip"], g["mask"], g["host"], g["subnet"], g["bh"], g["port"]),
                    (e["ip"], e["mask"], e["host"], e["subnet"], e["bcast"], e["port"])))
    elif op == "eq":
        same = case.get("same")
        if r["r"] != "ok":
            if same is not None:
                ctx.fail("refused", case, "pool member refused (%s)" % r["k"])
            return
        a, b = objs
        if same is True:
            if not (a == b and b == a and not (a != b) and hash(a) == hash(b) and (b in {a: 1})):
                ctx.fail("eq-hash", case, "equivalent spellings: ==:%r/%r hash-equal:%r dict:%r" % (
                    a == b, b == a, hash(a) == hash(b), b in {a: 1}))
        elif same is False:
            if a == b or b == a or (b in {a: 1}):
                ctx.fail("eq-hash", case, "different addresses compare equal / share a dict entry")
        if (a == b) and hash(a) != hash(b):
            ctx.fail("eq-hash", case, "a == b but hash differs")
        if (a == b) != (b == a):
            ctx.fail("eq-sym", case, "== not symmetric")
        if not (a == a and b == b):
            ctx.fail("eq-refl", case, "== not reflexive")
    elif op == "pack":
        if r["r"] == "ok" and case.get("exp") is not None and r["hex"] != case["exp"]:
            ctx.fail("pack", case, "pack_ip_addr gives %s, expected %s" % (r["hex"], case["exp"]))
    elif op == "unpack":
        if r["r"] == "ok" and case.get("exp") is not None and [r["h"], r["p"]] != case["exp"]:
            ctx.fail("pack", case, "unpack_ip_addr gives %r, expected %r" % ([r["h"], r["p"]], case["exp"]))


# ---------------------------------------------------------------- generators

def mk(c, exp=None, why=None):
    d = {"op": "mk", "c": c}
    if exp is not None:
        d["exp"] = exp
    if why:
        d["why"] = why
    return d


def K(ty, net, octets):
    return {"key": [ty, net, None if octets is None else bytes(octets).hex()]}


def S(s):
    return {"k": "str", "s": s}


def gen_stations():
    cases = []
    for n in list(range(0, 301)) + [511, 512, 999, 1000, 65535, 65536, 10 ** 12]:
        ok = n <= 255
        e = K(2, None, [n]) if ok else "refuse"
        why = None if ok else "station>255"
        cases.append(mk(S(str(n)), e, why))
        cases.append(mk(S("00" + str(n)), e, why))
        cases.append(mk(S(str(n) + "\n"), None))
        cases.append(mk({"k": "int", "n": n}, e, why))
        cases.append(mk({"k": "LS", "n": n}, e, why))
        er = K(4, 9, [n]) if ok else "refuse"
        cases.append(mk(S("9:" + str(n)), er, why))
        cases.append(mk({"k": "RS", "net": 9, "n": n}, er, why))
        cases.append(mk({"k": "net2", "net": 9, "a": {"k": "int", "n": n}}, er, why))
        cases.append(mk({"k": "net2", "net": 9, "a": S(str(n))}, er, why))
        if ok:
            h = "%02x" % n
            cases.append(mk(S("0x" + h), e))
            cases.append(mk(S("0x" + h.upper()), e))
            cases.append(mk(S("X'" + h + "'"), e))
            cases.append(mk(S("9:0x" + h), er))
            cases.append(mk(S("9:X'" + h.upper() + "'"), er))
            cases.append(mk({"k": "bytes", "x": h}, e))
    for n in (-1, -2, -256, -10 ** 9):
        cases.append(mk({"k": "int", "n": n}, "refuse", "station<0"))
        cases.append(mk({"k": "LS", "n": n}, "refuse", "station<0"))
        cases.append(mk({"k": "RS", "net": 9, "n": n}, "refuse", "station<0"))
        cases.append(mk(S(str(n)), "refuse", "sign"))
    return cases


def gen_nets():
    cases = []
    ip6 = bytes([10, 0, 0, 7, 0xBA, 0xC0])
    for n in NETS + [65535 + 65536, 2 ** 32, 2 ** 64 + 5]:
        ok = n <= 65534
        why = None if ok else "net>65534"

        def e(ty, octets):
            return K(ty, n, octets) if ok else "refuse"
        for sn in (str(n), "0" + str(n)):
            cases.append(mk(S(sn + ":*"), e(3, None), why))
            cases.append(mk(S(sn + ":5"), e(4, [5]), why))
            cases.append(mk(S(sn + ":255"), e(4, [255]), why))
            cases.append(mk(S(sn + ":256"), "refuse", "station>255"))
            cases.append(mk(S(sn + ":0x0a0b"), e(4, [10, 11]), why))
            cases.append(mk(S(sn + ":X'0A0b0c'"), e(4, [10, 11, 12]), why))
            cases.append(mk(S(sn + ":10.0.0.7"), e(4, ip6), why))
            cases.append(mk(S(sn + ":10.0.0.7/8:47808"), e(4, ip6), why))
            cases.append(mk(S(sn + ":*\n"), None))
        cases.append(mk({"k": "RB", "net": n}, e(3, None), why))
        cases.append(mk({"k": "RS", "net": n, "n": 5}, e(4, [5]), why))
        cases.append(mk({"k": "RSb", "net": n, "x": "0a0b"}, e(4, [10, 11]), why))
        for inner, ty, octets in (({"k": "int", "n": 5}, 4, [5]), (S("5"), 4, [5]), (S("*"), 3, None),
                                  ({"k": "bytes", "x": "0a0b"}, 4, [10, 11]), (S("0x0a0b"), 4, [10, 11]),
                                  (S("10.0.0.7"), 4, ip6), ({"k": "tups", "h": "10.0.0.7", "p": 47808}, 4, ip6),
                                  ({"k": "bytes", "x": ip6.hex()}, 4, ip6)):
            cases.append(mk({"k": "net2", "net": n, "a": inner}, e(ty, octets), why))
    for n in (-1, -65536, -10 ** 9):
        cases.append(mk({"k": "RB", "net": n}, "refuse", "net<0"))
        cases.append(mk({"k": "RS", "net": n, "n": 5}, "refuse", "net<0"))
        cases.append(mk({"k": "RSb", "net": n, "x": "05"}, "refuse", "net<0"))
        cases.append(mk({"k": "net2", "net": n, "a": {"k": "int", "n": 5}}, "refuse", "net<0"))
        cases.append(mk({"k": "net2", "net": n, "a": S("*")}, "refuse", "net<0"))
    # two-argument forms that are no remote address
    for inner in (S("*:*"), S("6:7"), S("6:*"), S("junk"), {"k": "int", "n": 256}):
        cases.append(mk({"k": "net2", "net": 9, "a": inner}, "refuse", "ctor-form"))
    # `*` as a network is only the global broadcast
    for s in ("*:5", "*:0x05", "*:255", "*:1.2.3.4", "*:1.2.3.4/24:47809", "*:0x0a0b0c"):
        cases.append(mk(S(s), "refuse", "star-net"))
    for c, e in ((S("*"), K(1, None, None)), (S("*:*"), K(5, None, None)), ({"k": "LB"}, K(1, None, None)),
                 ({"k": "GB"}, K(5, None, None)), ({"k": "null"}, K(0, None, None))):
        cases.append(mk(c, e))
    return cases


def ip_pool(ctx, rng):
    edge = [0, 1, 0x01020304, 0x0A000001, 0x7F000001, 0x80000000, 0x7FFFFFFF, 0xC0A801FE,
            0xFFFFFFFE, 0xFFFFFFFF, 0x00FF00FF, 0xAAAAAAAA, 0x55555555, 0xFF000000]
    n = 18 if ctx.quick else 120
    return edge + [rng.getrandbits(32) for _ in range(n)]


def gen_ipv4(ctx, rng):
    cases = []
    for ipint in ip_pool(ctx, rng):
        dotted = str(ipaddress.IPv4Address(ipint))
        for m in [None] + list(range(0, 33)) + [33, 34, 99]:
            for p in PORTS:
                s = dotted + ("" if m is None else "/%d" % m) + ("" if p is None else ":%d" % p)
                mm = 32 if m is None else m
                pp = 47808 if p is None else p
                if mm > 32:
                    e, why = "refuse", "mask>32"
                elif pp > 65535:
                    e, why = "refuse", "port>65535"
                else:
                    e = K(2, None, struct.pack("!LH", ipint, pp))
                    e["ip"] = ip_expect(ipint, mm, p)
                    why = None
                cases.append(mk(S(s), e, why))
                if m in (None, 0, 8, 31, 33) and p in (None, 47809, 65535, 65536):
                    e2 = e
                    if e != "refuse":
                        e2 = K(4, 65534, struct.pack("!LH", ipint, pp))
                        e2["ip"] = e["ip"]
                    cases.append(mk(S("65534:" + s), e2, why))
                    cases.append(mk({"k": "net2", "net": 65534, "a": S(s)}, e2, why))
    # octet values out of range / malformed dotted quads
    for s in ("256.1.1.1", "1.256.1.1", "1.1.256.1", "1.1.1.256", "1.2.3.999", "300.300.300.300",
              "1.2.3", "1.2.3.4.5", "1..2.3", ".1.2.3", "1.2.3.", "1.2.3.4/", "1.2.3.4:", "1.2.3.4/:1",
              "1.2.3.4:1/2", "1.2.3.4/24/24", "1.2.3.4:1:2", "1.2.3.4/-1", "1.2.3.-4"):
        cases.append(mk(S(s), "refuse", "bad-quad"))
    # leading zeros are read by inet_aton as octal: correspondence only
    for s in ("010.1.1.1", "08.1.1.1", "0377.0.0.1", "0400.0.0.1", "00.00.00.00", "1.2.3.04", "1.2.3.09",
              "1.2.3.4/032", "1.2.3.4/08", "1.2.3.4:047808", "0.0.0.0", "00000001.2.3.4"):
        cases.append(mk(S(s)))
    return cases


def octet_samples(ctx, rng, length):
    out = [bytes(length), bytes([255]) * length, bytes(range(1, length + 1))]
    if length == 6:
        for port in (0, 47807, 47808, 47809, 47815, 47823, 47824, 65535):
            out.append(bytes([192, 168, 0, 10]) + struct.pack("!H", port))
            out.append(bytes([0, 0, 0, 0]) + struct.pack("!H", port))
            out.append(bytes([255, 255, 255, 255]) + struct.pack("!H", port))
    if length >= 2:
        out.append(bytes(length - 2) + b"\xba\xc0")
    if length >= 6:
        # the BACnet/IP port range (0xBAC0..0xBACF) sitting at octets 5-6 of strings that are NOT six octets
        # long, and just outside the range in six-octet ones: the printer's dotted form is for length 6 only
        for port in (0xBABF, 0xBAC0, 0xBAC7, 0xBACF, 0xBAD0):
            out.append(bytes([1, 2, 3, 4]) + struct.pack("!H", port) + bytes(range(7, 7 + length - 6)))
            out.append(bytes([10, 0, 0, 1]) + struct.pack("!H", port) + bytes([0xBA, 0xC0][: length - 6]))
    n = 6 if ctx.quick else 200
    out += [bytes(rng.getrandbits(8) for _ in range(length)) for _ in range(n)]
    return out


def gen_octets(ctx, rng):
    cases = []
    for length in range(0, 9):
        for bs in octet_samples(ctx, rng, length):
            h = bs.hex()
            ok = length >= 1
            e, er = K(2, None, bs), K(4, 77, bs)
            cases.append(mk({"k": "bytes", "x": h}, e))
            cases.append(mk({"k": "LSb", "x": h}, e))
            cases.append(mk({"k": "RSb", "net": 77, "x": h}, er))
            cases.append(mk({"k": "net2", "net": 77, "a": {"k": "bytes", "x": h}}, er))
            cases.append(mk(S("0x" + h), e if ok else "refuse"))
            mixed = "".join(c.upper() if rng.random() < 0.5 else c for c in h)
            cases.append(mk(S("X'" + mixed + "'"), e if ok else "refuse"))
            cases.append(mk(S("77:0x" + mixed), er if ok else "refuse"))
            cases.append(mk(S("77:X'" + h + "'"), er if ok else "refuse"))
            if length == 6:
                cases.append(mk(S(":".join(mixed[i:i + 2] for i in range(0, 12, 2))), e))
                cases.append({"op": "unpack", "x": h,
                              "exp": [str(ipaddress.IPv4Address(bs[:4])), struct.unpack("!H", bs[4:])[0]]})
            # odd number of hex digits
            if length >= 1:
                cases.append(mk(S("0x" + h[:-1]), "refuse", "odd-hex"))
                cases.append(mk(S("X'" + h[:-1] + "'"), "refuse", "odd-hex"))
    return cases


def gen_tuples(ctx, rng):
    cases = []
    ips = ip_pool(ctx, rng)[:12]
    for ipint in ips:
        dotted = str(ipaddress.IPv4Address(ipint))
        for p in [0, 1, 47808, 47809, 65535, 65536, 70000, -1, -65536]:
            ok = 0 <= p <= 65535
            e = K(2, None, struct.pack("!LH", ipint, p & 0xFFFF)) if ok else "refuse"
            why = None if ok else "port-range"
            cases.append(mk({"k": "tups", "h": dotted, "p": p}, e, why))
            cases.append(mk({"k": "tupi", "h": ipint, "p": p}, e, why))
            if ok:
                cases.append({"op": "pack", "h": dotted, "p": p, "exp": struct.pack("!LH", ipint, p).hex()})
        # integer hosts are reduced modulo 2^32 by the code (`addr & _long_mask`): correspondence only
        for h in (ipint + 2 ** 32, ipint - 2 ** 32, -1 - ipint):
            cases.append(mk({"k": "tupi", "h": h, "p": 47808}))
    cases.append(mk({"k": "tups", "h": "", "p": 47808}, K(2, None, struct.pack("!LH", 0, 47808))))
    # inet_aton's short forms and refusals: correspondence only
    alphabet = "0123456789."
    hosts = ["1", "1.2", "1.2.3", "1.2.3.4.5", "256", "4294967295", "4294967296", "1.16777215", "1.16777216",
             "1.2.65535", "1.2.65536", "255.255.255.255", "256.0.0.0", "0.0.0.256", "1.", ".1", "1..2", ".",
             "010.010.010.010", "08", "0", "00", "037777777777", "040000000000", "1.2.3.08"]
    n = 200 if ctx.quick else 5000
    for _ in range(n):
        hosts.append("".join(rng.choice(alphabet) for _ in range(rng.randrange(1, 12))))
    for h in hosts:
        cases.append(mk({"k": "tups", "h": h, "p": 47808}))
        cases.append({"op": "pack", "h": h, "p": 1})
    return cases


def spellings(canon, rng):
    """ctor specs that all denote the same address; canon = (ty, net, octets)"""
    ty, net, bs = canon
    out = []
    if ty == 1:
        return [S("*"), {"k": "LB"}, S("*\n")]
    if ty == 5:
        return [S("*:*"), {"k": "GB"}, S("*:*\n")]
    if ty == 3:
        return [S("%d:*" % net), S("0%d:*" % net), {"k": "RB", "net": net},
                {"k": "net2", "net": net, "a": S("*")}, S("%d:*\n" % net)]
    h = bs.hex()
    loc = [{"k": "bytes", "x": h}, {"k": "LSb", "x": h}, S("0x" + h), S("0x" + h.upper()), S("X'" + h + "'")]
    if len(bs) == 1:
        loc += [S(str(bs[0])), S("0" + str(bs[0])), {"k": "int", "n": bs[0]}, {"k": "LS", "n": bs[0]}]
    if len(bs) == 6:
        ipint, port = struct.unpack("!LH", bs)
        d = str(ipaddress.IPv4Address(ipint))
        loc += [S("%s:%d" % (d, port)), S("%s/%d:%d" % (d, rng.randrange(33), port)),
                {"k": "tups", "h": d, "p": port}, {"k": "tupi", "h": ipint, "p": port},
                {"k": "tupi", "h": ipint - 2 ** 32, "p": port},
                S(":".join(h[i:i + 2] for i in range(0, 12, 2)))]
        if port == 47808:
            loc += [S(d), S("%s/%d" % (d, rng.randrange(33)))]
    if ty == 2:
        return loc
    out = [{"k": "RSb", "net": net, "x": h}]
    for c in loc:
        if c["k"] in ("str", "int", "bytes", "tups", "tupi"):
            out.append({"k": "net2", "net": net, "a": c})
        if c["k"] == "str" and c["s"].count(":") < 5 and not c["s"].endswith("\n"):
            out.append(S("%d:%s" % (net, c["s"])))
        if c["k"] == "LS":
            out.append({"k": "RS", "net": net, "n": c["n"]})
    return out


def gen_pools(ctx, rng):
    canons = [(1, None, None), (5, None, None), (3, 0, None), (3, 1, None), (3, 65534, None),
              (2, None, b"\x00"), (2, None, b"\x05"), (2, None, b"\xff"), (2, None, b"\x00\x05"),
              (2, None, b"\x05\x00"), (2, None, bytes([1, 2, 3, 4, 0xBA, 0xC0])),
              (2, None, bytes([1, 2, 3, 4, 0xBA, 0xC1])), (2, None, bytes([1, 2, 3, 4, 0, 0])),
              (2, None, bytes(7)), (4, 0, b"\x05"), (4, 1, b"\x05"), (4, 5, b"\x01"), (4, 65534, b"\xff"),
              (4, 1, bytes([1, 2, 3, 4, 0xBA, 0xC0])), (4, 2, bytes([1, 2, 3, 4, 0xBA, 0xC0])),
              (4, 1, bytes([1, 2, 3, 4, 0xBA, 0xCF])), (4, 1, b"\x00\x05")]
    n = 6 if ctx.quick else 60
    for _ in range(n):
        ty = rng.choice([2, 2, 4, 4, 3])
        net = None if ty == 2 else rng.choice([0, 1, 255, 256, 65534, rng.randrange(65535)])
        if ty == 3:
            canons.append((3, net, None))
            continue
        ln = rng.choice([1, 1, 2, 3, 6, 6, 7])
        bs = bytes(rng.getrandbits(8) for _ in range(ln))
        if ln == 6 and rng.random() < 0.7:
            bs = bs[:4] + struct.pack("!H", rng.choice([47808, 47809, 47823, 47824, 0]))
        canons.append((ty, net, bs))
    canons = list(dict.fromkeys(canons))
    pools = [(c, spellings(c, rng)) for c in canons]
    cases = []
    for c, sp in pools:
        for a, b in itertools.product(sp, repeat=2):
            cases.append({"op": "eq", "a": a, "b": b, "same": True})
    for (c1, s1), (c2, s2) in itertools.permutations(pools, 2):
        k = 2 if ctx.quick else 4
        for _ in range(k):
            cases.append({"op": "eq", "a": rng.choice(s1), "b": rng.choice(s2), "same": False})
    return cases, pools


def valid_texts(rng):
    out = ["*", "*:*", "5", "255", "0", "12:*", "65534:*", "1:2", "65534:255", "0x01", "0xABcd", "0x0102030405",
           "X'01'", "X'aBcD'", "3:0x0a", "3:X'0a0b'", "1.2.3.4", "1.2.3.4:47809", "1.2.3.4/24", "1.2.3.4/24:1",
           "10.0.0.255/8:65535", "7:1.2.3.4", "7:1.2.3.4/16:47810", "01:02:03:0a:0B:ff", "aa:bb:cc:dd:ee:ff"]
    for _ in range(20):
        out.append("%d:%d" % (rng.randrange(70000), rng.randrange(300)))
        out.append("%d.%d.%d.%d/%d:%d" % (rng.randrange(260), rng.randrange(256), rng.randrange(256),
                                            rng.randrange(256), rng.randrange(35), rng.randrange(70000)))
    return out


MUT = "0123456789abcdefABCDEFxX'*:./ \n-+,;_gG\t\\\"#"


def gen_malformed(ctx, rng):
    cases = []
    seeds = valid_texts(rng)
    n = 15000 if ctx.quick else 200000
    for _ in range(n):
        s = list(rng.choice(seeds))
        for _k in range(rng.choice([1, 1, 1, 2, 3])):
            kind = rng.randrange(5)
            if kind == 0 and s:
                s[rng.randrange(len(s))] = rng.choice(MUT)
            elif kind == 1 and s:
                del s[rng.randrange(len(s))]
            elif kind == 2:
                s.insert(rng.randrange(len(s) + 1), rng.choice(MUT))
            elif kind == 3 and s:
                i = rng.randrange(len(s))
                s.insert(i, s[i])
            else:
                t = list(rng.choice(seeds))
                i = rng.randrange(len(s) + 1)
                s = s[:i] + t[rng.randrange(len(t) + 1):]
        cases.append(mk(S("".join(s))))
    m = 5000 if ctx.quick else 60000
    for _ in range(m):
        cases.append(mk(S("".join(rng.choice(MUT) for _ in range(rng.randrange(0, 9))))))
    return cases


SHORT = "0129*:./x'Xaf\nA "


SHORT_IP = "01.:/*x"       # long enough strings over this reach the dotted-quad branch ("1.1.1.1", "0:1.0.1.1/1")


def gen_short(length, lo, hi, alphabet=SHORT):
    """all strings of the given length over the alphabet whose index is in [lo,hi)"""
    a = sorted(set(alphabet))
    out = []
    for idx in range(lo, hi):
        v, s = idx, []
        for _ in range(length):
            s.append(a[v % len(a)])
            v //= len(a)
        out.append(mk(S("".join(s))))
    return out


# ---------------------------------------------------------------- object reuse (wave 4)

def reinit(a, spec, via):
    """re-initialise the SAME object every way the library offers: decode_address() (what
    Address.__init__ itself calls), __init__ called again, the typed subclasses' __init__"""
    from bacpypes import pdu
    k = spec["k"]
    if k in ("str", "int", "bytes", "tups", "tupi"):
        if via == "decode":
            a.decode_address(raw_arg(spec))
        else:
            pdu.Address.__init__(a, raw_arg(spec))
    elif k == "net2":
        pdu.Address.__init__(a, spec["net"], raw_arg(spec["a"]))
    elif k == "LS":
        pdu.LocalStation.__init__(a, spec["n"])
    elif k == "LSb":
        pdu.LocalStation.__init__(a, bytes.fromhex(spec["x"]))
    elif k == "RS":
        pdu.RemoteStation.__init__(a, spec["net"], spec["n"])
    elif k == "RSb":
        pdu.RemoteStation.__init__(a, spec["net"], bytes.fromhex(spec["x"]))
    elif k == "LB":
        pdu.LocalBroadcast.__init__(a)
    elif k == "RB":
        pdu.RemoteBroadcast.__init__(a, spec["net"])
    elif k == "GB":
        pdu.GlobalBroadcast.__init__(a)
    elif k == "null":
        pdu.Address.__init__(a)
    else:
        raise core.Infra("bad ctor " + k)


def jlite(a):
    d = jaddr(a, with_ip=False)
    d.pop("ip", None)       # helper fields of an earlier IP notation are left behind by decode_address: not compared
    return d


def run_reuse_case(ctx, case):
    """one long-lived object, hashed / stored, then re-initialised with the next spelling.
    Returns the per-step replies (compared with the model's reply for a FRESH address)."""
    from bacpypes import pdu
    a = pdu.Address()
    hash(a)
    seen, aset, out = {}, set(), []
    for i, st in enumerate(case["steps"]):
        spec, via = st["c"], st.get("via", "decode")
        try:
            fresh = build(spec)
            fk = None
        except Exception as e:
            fresh, fk = None, ek(e)
        try:
            reinit(a, spec, via)
            rk = None
        except Exception as e:
            rk = ek(e)
        if (fk is None) != (rk is None) or fk != rk:
            ctx.fail("object-reuse", case, "step %d %r: a fresh address gives %s, the re-used object %s" % (
                i, spec, fk or "ok", rk or "ok"), step=i)
        if rk is not None:
            out.append({"r": "err", "k": rk})
            shadow_check(ctx, case, a, "step %d (refused %r)" % (i, spec))
        else:
            out.append(jlite(a))
            if fresh is not None:
                try:
                    sa, sf = str(a), str(fresh)
                except Exception:
                    sa = sf = None
                bad = []
                if key(a) != key(fresh):
                    bad.append("fields %r != %r" % (key(a), key(fresh)))
                if not (a == fresh and fresh == a) or (a != fresh):
                    bad.append("== is false")
                if hash(a) != hash(fresh):
                    bad.append("hash differs")
                if {fresh: i}.get(a) != i or {a: i}.get(fresh) != i or a not in {fresh} or fresh not in {a}:
                    bad.append("dict/set lookup misses")
                if sa != sf:
                    bad.append("prints %r, fresh prints %r" % (sa, sf))
                if bad:
                    ctx.fail("object-reuse", case, "step %d: object re-initialised (%s) with %r vs a fresh address: %s" % (
                        i, via, spec, "; ".join(bad)), step=i)
                else:
                    shadow_check(ctx, case, a, "step %d" % i)
        # use it the way tables do (this hashes the object)
        try:
            seen[a] = i
            aset.add(a)
            hash(a)
        except Exception as e:
            ctx.fail("object-reuse", case, "step %d: hashing raised %s" % (i, type(e).__name__), step=i)
    return out


def gen_reuse(ctx, rng, pools):
    flat = [(c, sp) for c, sps in pools for sp in sps]
    bad = [S("256"), S("70000:5"), S("junk"), {"k": "int", "n": -1}, {"k": "RB", "net": 65535},
           {"k": "net2", "net": 9, "a": S("*:*")}, S("1.2.3.4/33"), {"k": "tups", "h": "1.2.3.4", "p": 70000}]
    cases = []
    # the witness shape first: every ordered pair of distinct canonical values, both ways of re-decoding
    reps = [(c, sps[0]) for c, sps in pools]
    for (c1, s1), (c2, s2) in itertools.permutations(reps[:14], 2):
        cases.append({"op": "reuse", "steps": [{"c": s1, "via": "decode"}, {"c": s2, "via": "decode"}]})
    n = 700 if ctx.quick else 12000
    for _ in range(n):
        steps = []
        for _k in range(rng.choice([2, 2, 3, 4, 6])):
            spec = rng.choice(bad) if rng.random() < 0.12 else rng.choice(flat)[1]
            steps.append({"c": spec, "via": rng.choice(["decode", "init"])})
        cases.append({"op": "reuse", "steps": steps})
    return cases


def run_reuse(ctx, cases):
    setup()
    flat, impl_r = [], []
    for case in cases:
        rs = run_reuse_case(ctx, case)
        for st, r in zip(case["steps"], rs):
            flat.append({"op": "mk", "c": st["c"], "reuse": True})
            impl_r.append(r)
    if ctx.model_ok:
        b = core.Driver("drv_c18").ask([{"op": "mk", "c": c["c"]} for c in flat])
        for m in b:
            if isinstance(m, dict):
                m.pop("ip", None)
        ctx.compare_stream("reuse", flat, impl_r, b, sig=lambda c, m: ("reuse", c["c"]["k"], m.get("r"), m.get("ty")))
    else:
        ctx.count("reuse", n=len(flat))
    for c in cases[:2]:
        ctx.sample({"stream": "reuse", "case": c})


def route_aware_reuse(ctx):
    """outside the default settings, kept small: an address whose route is replaced, or whose
    process switches settings.route_aware, must hash as what it is worth now"""
    from bacpypes import pdu
    from bacpypes.settings import settings
    try:
        for text, r1, r2 in (("5:12", 1, 3), ("7:0x0102", 9, None), ("2:1.2.3.4", 4, 5)):
            case = {"op": "route-reuse", "text": text, "routes": [r1, r2]}
            settings.route_aware = True
            a = pdu.Address(text)
            a.addrRoute = pdu.Address(r1)
            hash(a); {a: 1}
            a.addrRoute = None if r2 is None else pdu.Address(r2)
            ctx.count("reuse-route", ("route", r2 is None))
            if not shadow_check(ctx, case, a, "route replaced under route_aware"):
                continue
            hash(a)
            settings.route_aware = False
            shadow_check(ctx, case, a, "settings.route_aware switched off after hashing")
    finally:
        settings.route_aware = False


# ---------------------------------------------------------------- settings history (wave 6)

WAYS = ("attr", "item", "dict", "os")


def set_route_aware(way, value, rng=None):
    """the supported ways to change the setting"""
    import os
    from bacpypes import settings as sm
    if way == "attr":
        sm.settings.route_aware = value
    elif way == "item":
        sm.settings["route_aware"] = value
    elif way == "dict":
        sm.dict_settings(route_aware=value)
    elif way == "os":
        words = ("true", "set", "True", "SET") if value else ("false", "reset", "False", "RESET")
        os.environ["BACPYPES_ROUTE_AWARE"] = words[0] if rng is None else rng.choice(words)
        try:
            sm.os_settings()
        finally:
            del os.environ["BACPYPES_ROUTE_AWARE"]
    else:
        raise core.Infra("bad way")


def restore_settings():
    """default again, through every way (a stale copy anywhere must not leak into the other streams)"""
    for way in WAYS:
        set_route_aware(way, False)


SET_PAIRS = [  # (a spec, a route, b spec, b route)
    ({"k": "RS", "net": 1, "n": 2}, {"k": "int", "n": 3}, S("1:2"), None),
    ({"k": "RS", "net": 1, "n": 2}, {"k": "int", "n": 3}, {"k": "RS", "net": 1, "n": 2}, {"k": "int", "n": 3}),
    ({"k": "RS", "net": 1, "n": 2}, {"k": "int", "n": 3}, {"k": "RSb", "net": 1, "x": "02"}, {"k": "int", "n": 4}),
    (S("1:2"), None, {"k": "net2", "net": 1, "a": {"k": "int", "n": 2}}, None),
    ({"k": "LS", "n": 5}, {"k": "tups", "h": "10.0.0.9", "p": 47808}, S("5"), None),
    ({"k": "LSb", "x": "0a000005bac0"}, {"k": "int", "n": 9}, S("10.0.0.5"), None),
    (S("1:2"), {"k": "bytes", "x": "0a000009bac0"}, S("1:0x02"), {"k": "tups", "h": "10.0.0.9", "p": 47808}),
    (S("1:2"), None, S("1:3"), None),
]


def gen_settings(ctx, rng):
    seqs = []
    for n in (1, 2, 3):
        for ways in itertools.product(WAYS, repeat=n):
            for vals in itertools.product((False, True), repeat=n):
                seqs.append([[w, v] for w, v in zip(ways, vals)])
    if ctx.quick:
        long = [q for q in seqs if len(q) == 3]
        seqs = [q for q in seqs if len(q) < 3] + rng.sample(long, 150)
    return [{"op": "settings", "seq": q} for q in seqs]


def run_settings(ctx, cases):
    """after each history of changes: both views of the setting agree, and ==/hash/dict/DeviceInfoCache are
    coherent under the setting the stack REPORTS"""
    setup()
    import logging
    logging.getLogger("bacpypes").setLevel(logging.ERROR)
    from bacpypes import settings as sm
    from bacpypes.app import DeviceInfoCache, DeviceInfo
    flat, impl_r = [], []
    rng = ctx.sub_rng("c18-settings-words")
    try:
        for case in cases:
            restore_settings()
            for way, v in case["seq"]:
                set_route_aware(way, v, rng)
            want = case["seq"][-1][1]
            ctx.count("settings", (tuple(w for w, _ in case["seq"]), want))
            rep_attr, rep_item = sm.settings.route_aware, sm.settings["route_aware"]
            if not (rep_attr is want and rep_item is want):
                ctx.fail("settings-history", case, "after %r: settings.route_aware is %r, settings['route_aware'] is %r" % (
                    case["seq"], rep_attr, rep_item))
            for a_sp, a_rt, b_sp, b_rt in SET_PAIRS:
                a = build(dict(a_sp, route=a_rt) if a_rt else a_sp)
                b = build(dict(b_sp, route=b_rt) if b_rt else b_sp)
                eq = bool(a == b and b == a)
                flat.append({"op": "eqr", "a": a_sp, "ar": a_rt, "b": b_sp, "br": b_rt, "aware": want, "seq": case["seq"]})
                impl_r.append({"r": "ok", "eq": eq, "hk": a._tuple() == b._tuple()})
                # what must hold under the reported setting (route aware: only for pairs that both carry a
                # route or both carry none; a routed and an unrouted spelling then hash apart by design)
                if eq and (not want or (a_rt is None) == (b_rt is None)):
                    cache = DeviceInfoCache()
                    info = DeviceInfo(12, b)
                    cache.update_device_info(info)
                    bad = []
                    if hash(a) != hash(b):
                        bad.append("hash differently")
                    if {b: 1}.get(a) != 1 or {a: 1}.get(b) != 1:
                        bad.append("miss each other as dict keys")
                    if cache.get_device_info(a) is not info:
                        bad.append("DeviceInfoCache record stored under one is not found with the other")
                    if bad:
                        ctx.fail("settings-history", dict(case, pair=[a_sp, a_rt, b_sp, b_rt]),
                                 "after %r the stack reports route_aware=%r; %s and %s are equal but %s" % (
                                     case["seq"], want, a, b, "; ".join(bad)))
                        break
                if want and a_rt is not None and b_rt is not None and not eq and a._tuple() == b._tuple() \
                        and key(a) == key(b):
                    ctx.fail("settings-history", dict(case, pair=[a_sp, a_rt, b_sp, b_rt]),
                             "after %r the stack reports route_aware=True but %s and %s (different routes) have one _tuple()" % (
                                 case["seq"], a, b))
                    break
    finally:
        restore_settings()
    if ctx.model_ok and flat:
        b = core.Driver("drv_c18").ask([{k: v for k, v in c.items() if k != "seq"} for c in flat])
        ctx.compare_stream("settings", flat, impl_r, b,
                           sig=lambda c, m: ("settings", c["aware"], c["ar"] is None, c["br"] is None, m.get("eq"), m.get("hk")))
    for c in cases[:2]:
        ctx.sample({"stream": "settings", "case": c})


# ---------------------------------------------------------------- == with non-address arguments (wave 6)

def gen_coerce(ctx, rng, pools):
    raw = [(c, sp) for c, sps in pools for sp in sps if sp["k"] in ("str", "int", "bytes", "tups", "tupi")]
    raw += [((2, None, bytes(4) + struct.pack("!H", p)), {"k": "tups", "h": "", "p": p}) for p in (47808, 1)]
    cases = []
    for c, sps in pools:
        mine = [t for cc, t in raw if cc == c]
        for a in sps:
            for t in mine:
                cases.append({"op": "coerce", "a": a, "b": t, "same": True})
            for _ in range(2 if ctx.quick else 6):
                cc, t = rng.choice(raw)
                cases.append({"op": "coerce", "a": a, "b": t, "same": cc == c})
    if ctx.quick and len(cases) > 6000:
        keep = [x for x in cases if x["b"]["k"] in ("tups", "tupi")]
        rest = [x for x in cases if x["b"]["k"] not in ("tups", "tupi")]
        cases = keep[:3000] + rng.sample(rest, min(len(rest), 3000))
    return cases


def run_coerce(ctx, cases):
    setup()
    impl_r = []
    for case in cases:
        try:
            a = build(case["a"])
        except Exception as e:
            impl_r.append({"r": "err", "k": ek(e)})
            continue
        t = raw_arg(case["b"])
        if case["b"]["k"] == "bytes" and len(impl_r) % 2:
            t = bytearray(t)
        e1 = _outcome(lambda: a == t)
        n1 = _outcome(lambda: a != t)
        try:
            ref = build(case["b"])
        except Exception as e:
            impl_r.append({"r": "err", "k": ek(e)})
            continue
        e2, n2 = bool(a == ref), bool(a != ref)
        if e1 != e2 or n1 != n2 or e1 is not case["same"]:
            ctx.fail("coercion", case, "%s == %r is %r, == Address(%r) is %r, the spellings denote %s address (!=: %r / %r)" % (
                a, t, e1, t, e2, "the same" if case["same"] else "different", n1, n2))
        impl_r.append({"r": "ok", "eq": e1 if isinstance(e1, bool) else None, "hk": a._tuple() == ref._tuple()})
    if ctx.model_ok:
        b = core.Driver("drv_c18").ask([{"op": "eq", "a": c["a"], "b": c["b"]} for c in cases])
        ctx.compare_stream("coerce", cases, impl_r, b, sig=lambda c, m: ("coerce", c["a"]["k"], c["b"]["k"], m.get("eq")))
    else:
        ctx.count("coerce", n=len(cases))
    for c in cases[:2]:
        ctx.sample({"stream": "coerce", "case": c})


# ---------------------------------------------------------------- addresses the stack produces (wave 4)

def enc_npdu(dnet=None, dadr=b"", snet=None, sadr=b"", apdu=b"\x10\x08", hop=255):
    """NPDU octets written by hand (clause 6.2): version, control, DNET/DLEN/DADR, SNET/SLEN/SADR, hop count"""
    ctrl = (0x20 if dnet is not None else 0) | (0x08 if snet is not None else 0)
    o = bytes([1, ctrl])
    if dnet is not None:
        o += dnet.to_bytes(2, "big") + bytes([len(dadr)]) + dadr
    if snet is not None:
        o += snet.to_bytes(2, "big") + bytes([len(sadr)]) + sadr
    if dnet is not None:
        o += bytes([hop])
    return o + apdu


def stack_expect(rig, f):
    """independent reference: is the APDU handed up, and with which (source, destination) keys.
    rig A: one adapter, station 2, network unknown.  rig B: router, local adapter net 1 station 2,
    second adapter net 2.  f: arrival net `on`, link source `via`, link destination 'u'/'b', dnet/dadr/snet/sadr."""
    my = 2
    via_key = [2, None, "%02x" % f["via"]]
    src = via_key if f["snet"] is None else [4, f["snet"], f["sadr"]]
    link_dst = [2, None, "%02x" % (my if rig == "A" or f["on"] == 1 else 3)] if f["dst"] == "u" else [1, None, None]
    if rig == "A":
        if f["dnet"] is None:
            return src, link_dst
        if f["dnet"] == 0xFFFF:
            return src, [5, None, None]
        return None
    nets = (1, 2)
    if f["snet"] in nets or f["dnet"] == f["on"]:
        return None                                     # path errors
    routed_look = f["on"] != 1
    if routed_look and f["snet"] is None:
        src = [4, f["on"], "%02x" % f["via"]]
    if f["dnet"] is None:
        return None if routed_look else (src, link_dst)
    if f["dnet"] == 0xFFFF:
        return src, [5, None, None]
    if f["dnet"] != 1:
        return None
    if f["dadr"] == "":
        return src, [1, None, None]
    if f["dadr"] == "%02x" % my:
        return src, [2, None, "%02x" % my]
    return None


def typed_spec(k):
    ty, net, h = k
    if ty == 1:
        return {"k": "LB"}
    if ty == 5:
        return {"k": "GB"}
    if ty == 3:
        return {"k": "RB", "net": net}
    if ty == 2:
        return {"k": "LSb", "x": h}
    return {"k": "RSb", "net": net, "x": h}


class _Rig:
    def __init__(self, rig):
        from bacpypes.comm import Client, Server, bind
        from bacpypes.pdu import Address
        from bacpypes.netservice import NetworkServiceAccessPoint

        class Wire(Server):
            def indication(self, pdu):
                pass

        class Catcher(Client):
            def __init__(self):
                Client.__init__(self)
                self.got = []

            def confirmation(self, apdu):
                self.got.append(apdu)
        self.nsap = NetworkServiceAccessPoint()
        self.wires = {}
        if rig == "A":
            self.wires[None] = Wire()
            self.nsap.bind(self.wires[None], address=Address(2))
        else:
            self.wires[1], self.wires[2] = Wire(), Wire()
            self.nsap.bind(self.wires[1], 1, Address(2))
            self.nsap.bind(self.wires[2], 2)
        self.top = Catcher()
        bind(self.top, self.nsap)

    def feed(self, rig, f):
        from bacpypes.pdu import Address, PDU, LocalBroadcast
        octets = enc_npdu(f["dnet"], bytes.fromhex(f["dadr"]), f["snet"], bytes.fromhex(f["sadr"]))
        me = 2 if (rig == "A" or f["on"] == 1) else 3
        dst = Address(me) if f["dst"] == "u" else LocalBroadcast()
        n = len(self.top.got)
        self.wires[None if rig == "A" else f["on"]].response(PDU(octets, source=Address(f["via"]), destination=dst))
        return self.top.got[n:]


def gen_stack(ctx, rng):
    """scenarios = list of frames through one rig; the same station is sighted through several routers"""
    sadrs = ["0c", "0c0d", "010203040506", "c0a80007bac0", "ff", "00"]
    cases = []
    for rig in ("A", "B"):
        for snet, sadr in [(None, "")] + [(n, x) for n in (5, 6, 65534) for x in sadrs[:4]] + [(1, "0c"), (2, "0c")]:
            for dnet, dadr in ((None, ""), (0xFFFF, ""), (1, ""), (1, "02"), (1, "07"), (2, ""), (9, "01")):
                frames = []
                for via in (1, 3, 1, 200):
                    for on in ((None,) if rig == "A" else (1, 2)):
                        frames.append({"on": on, "via": via, "dst": rng.choice("ub"), "dnet": dnet, "dadr": dadr,
                                       "snet": snet, "sadr": sadr})
                cases.append({"op": "stack", "rig": rig, "frames": frames})
    n = 40 if ctx.quick else 600
    for _ in range(n):
        rig = rng.choice("AB")
        frames = []
        stations = [(rng.choice([5, 6, 77, 65534]), rng.choice(sadrs)) for _i in range(2)] + [(None, "")]
        for _k in range(rng.randrange(4, 12)):
            snet, sadr = rng.choice(stations)
            dnet, dadr = rng.choice([(None, ""), (None, ""), (0xFFFF, ""), (1, ""), (1, "02"), (9, "01")])
            frames.append({"on": None if rig == "A" else rng.choice([1, 2]), "via": rng.choice([1, 3, 9, 254]),
                           "dst": rng.choice("ub"), "dnet": dnet, "dadr": dadr, "snet": snet, "sadr": sadr})
        cases.append({"op": "stack", "rig": rig, "frames": frames})
    return cases


def delivered_checks(ctx, case, i, role, a, want):
    """one address handed up by the stack (default settings) against the typed address it denotes"""
    from bacpypes import pdu
    one = {"op": "stack", "rig": case.get("rig"), "frames": case["frames"][:i + 1]} if "frames" in case else case
    if a.addrRoute is not None:
        ctx.fail("stack-route", one, "frame %d: %s handed up as %s carries a route (%s) although settings.route_aware "
                 "is off" % (i, role, a, a.addrRoute), frame=i)
        return False
    if key(a) != want:
        ctx.fail("stack-fields", one, "frame %d: %s is %r, the frame denotes %r" % (i, role, key(a), want), frame=i)
        return False
    typed = build(typed_spec(want))
    texts = [typed]
    try:
        texts.append(pdu.Address(str(typed)))
    except Exception:
        pass
    for t in texts:
        if not (a == t and t == a) or (a != t) or hash(a) != hash(t) or {t: 1}.get(a) != 1 or {a: 1}.get(t) != 1:
            ctx.fail("stack-eq", one, "frame %d: %s %s vs the typed address %s: ==/hash/dict disagree" % (i, role, a, t),
                     frame=i)
            return False
    generic_checks(ctx, one, a)
    return True


def run_stack_case(ctx, case, flat, impl_r):
    from bacpypes.app import DeviceInfoCache, DeviceInfo
    rig = _Rig(case["rig"])
    sightings = {}
    for i, f in enumerate(case["frames"]):
        try:
            got = rig.feed(case["rig"], f)
        except Exception as e:
            ctx.fail("stack-exception", case, "frame %d raised %s: %s" % (i, type(e).__name__, e), frame=i)
            continue
        want = stack_expect(case["rig"], f)
        ctx.count("stack", (case["rig"], f["snet"] is not None, f["dnet"], want is not None, f["on"]))
        if (want is None) != (len(got) == 0) or len(got) > 1:
            ctx.fail("stack-delivery", {"op": "stack", "rig": case["rig"], "frames": [f]},
                     "frame %r: %d APDUs handed up, reference expects %s" % (f, len(got), "none" if want is None else "one"))
            continue
        if want is None:
            continue
        apdu = got[0]
        for role, a, w in (("pduSource", apdu.pduSource, want[0]), ("pduDestination", apdu.pduDestination, want[1])):
            ok = delivered_checks(ctx, case, i, role, a, w)
            flat.append({"op": "mk", "c": typed_spec(w), "stack": role})
            impl_r.append(jlite(a))
            if role == "pduSource" and (ok or key(a) == w):
                sightings.setdefault(tuple(w), []).append((i, a))
    # two sightings of one station: equal, same hash, same table entry, same device-cache record
    for w, lst in sightings.items():
        (i0, a0) = lst[0]
        cache = DeviceInfoCache()
        info = DeviceInfo(1234, a0)
        cache.update_device_info(info)
        for (i1, a1) in lst[1:]:
            bad = []
            if not (a0 == a1 and a1 == a0):
                bad.append("not ==")
            if hash(a0) != hash(a1) or {a0: 1}.get(a1) != 1:
                bad.append("hash/dict differ")
            if cache.get_device_info(a1) is not info or not cache.has_device_info(a1):
                bad.append("DeviceInfoCache record stored under the first is not found with the second")
            if str(a0) != str(a1):
                bad.append("print %r / %r" % (str(a0), str(a1)))
            if bad:
                ctx.fail("stack-sightings", {"op": "stack", "rig": case["rig"],
                                             "frames": [case["frames"][i0], case["frames"][i1]]},
                         "station %r sighted in frames %d and %d (%s, %s): %s" % (list(w), i0, i1, a0, a1, "; ".join(bad)))
                break
        typed = build(typed_spec(list(w)))
        if cache.get_device_info(typed) is not info:
            ctx.fail("stack-sightings", {"op": "stack", "rig": case["rig"], "frames": [case["frames"][i0]]},
                     "DeviceInfoCache record stored under the sighted %s is not found under the typed %s" % (a0, typed))


def gen_bip(ctx, rng):
    hosts = [0x0A000009, 0xC0A80007, 0x01020304, 0xFFFFFFFE, 0x00000001] + [rng.getrandbits(32) for _ in range(4 if ctx.quick else 60)]
    cases = []
    for h in hosts:
        for port in (47808, 47809, 47823, 47824, 1, 65535):
            for fn in (0x0A, 0x0B, 0x04):
                cases.append({"op": "bip", "fn": fn, "udp": [str(ipaddress.IPv4Address(h)), port],
                              "orig": struct.pack("!LH", h ^ 0x0101, port).hex()})
    return cases


def run_bip_case(ctx, case, rig, flat, impl_r):
    """what BIPSimple hands up from the (host, port) tuple of the UDP layer / the address inside Forwarded-NPDU"""
    from bacpypes.pdu import Address, PDU
    bot, top = rig
    body = (bytes.fromhex(case["orig"]) if case["fn"] == 0x04 else b"") + enc_npdu()
    octets = bytes([0x81, case["fn"]]) + (4 + len(body)).to_bytes(2, "big") + body
    n = len(top.got)
    udp = (case["udp"][0], case["udp"][1])
    try:
        bot.response(PDU(octets, source=Address(udp), destination=Address(("192.168.0.2", 47808))))
    except Exception as e:
        ctx.fail("stack-exception", case, "raised %s: %s" % (type(e).__name__, e))
        return
    got = top.got[n:]
    ctx.count("stack-bip", (case["fn"], case["udp"][1]))
    if len(got) != 1:
        ctx.fail("stack-delivery", case, "%d PDUs handed up, expected one" % len(got))
        return
    if case["fn"] == 0x04:
        want_src = [2, None, case["orig"]]
        o = bytes.fromhex(case["orig"])
        spec = {"k": "tups", "h": str(ipaddress.IPv4Address(o[:4])), "p": struct.unpack("!H", o[4:])[0]}
    else:
        want_src = [2, None, (ipaddress.IPv4Address(udp[0]).packed + struct.pack("!H", udp[1])).hex()]
        spec = {"k": "tups", "h": udp[0], "p": udp[1]}
    want_dst = [2, None, "c0a80002bac0"] if case["fn"] == 0x0A else [1, None, None]
    a = got[0].pduSource
    delivered_checks(ctx, case, 0, "pduSource", a, want_src)
    delivered_checks(ctx, case, 0, "pduDestination", got[0].pduDestination, want_dst)
    # every spelling of that B/IP address finds it
    for other in (build(spec), build(S("%s:%d" % (spec["h"], spec["p"]))), build({"k": "bytes", "x": want_src[2]})):
        if not (a == other and other == a) or hash(a) != hash(other) or {other: 1}.get(a) != 1:
            ctx.fail("stack-eq", case, "B/IP source %s vs %s: ==/hash/dict disagree" % (a, other))
            break
    flat.append({"op": "mk", "c": spec, "stack": "bip"})
    impl_r.append(jaddr(a))


def run_stack(ctx, cases, bip_cases):
    setup()
    import logging
    logging.getLogger("bacpypes").setLevel(logging.ERROR)      # the NSAP reports path errors as warnings
    from bacpypes.comm import Client, Server, bind
    from bacpypes.bvllservice import BIPSimple, AnnexJCodec
    flat, impl_r = [], []
    for case in cases:
        run_stack_case(ctx, case, flat, impl_r)
    nflat = len(flat)

    class Wire(Server):
        def indication(self, pdu):
            pass

    class Catcher(Client):
        def __init__(self):
            Client.__init__(self)
            self.got = []

        def confirmation(self, pdu):
            self.got.append(pdu)
    bot, top = Wire(), Catcher()
    bind(top, BIPSimple(), AnnexJCodec(), bot)
    for case in bip_cases:
        run_bip_case(ctx, case, (bot, top), flat, impl_r)
    if ctx.model_ok and flat:
        b = core.Driver("drv_c18").ask([{"op": "mk", "c": c["c"]} for c in flat])
        for m in b[:nflat]:
            if isinstance(m, dict):
                m.pop("ip", None)
        ctx.compare_stream("stack", flat, impl_r, b, sig=lambda c, m: ("stack", c["stack"], c["c"]["k"], m.get("ty")))
    for c in cases[:1] + bip_cases[:1]:
        ctx.sample({"stream": "stack", "case": c})


# ---------------------------------------------------------------- transaction queues by destination (wave 5)

def pump():
    """run what the IOCB machinery deferred (next request of a queue), no sockets, no clock"""
    import bacpypes.core as bc
    n = 0
    while bc.deferredFns and n < 1000:
        fns, bc.deferredFns = bc.deferredFns, []
        for fn, args, kwargs in fns:
            fn(*args, **kwargs)
            n += 1


def _app_rig():
    from bacpypes.comm import ServiceAccessPoint, bind
    from bacpypes.app import ApplicationIOController

    class StubSAP(ServiceAccessPoint):
        def __init__(self):
            ServiceAccessPoint.__init__(self)
            self.sent = []

        def sap_indication(self, apdu):
            self.sent.append(apdu)

        def sap_confirmation(self, apdu):
            self.sent.append(apdu)
    app, sap = ApplicationIOController(), StubSAP()
    bind(app, sap)
    return app, sap


def _request(dest):
    from bacpypes.apdu import ReadPropertyRequest
    r = ReadPropertyRequest(objectIdentifier=("analogValue", 1), propertyIdentifier="presentValue")
    r.pduDestination = dest
    return r


def _reply(kind, request, source):
    from bacpypes.apdu import SimpleAckPDU, Error, RejectPDU, AbortPDU
    if kind == "ack":
        r = SimpleAckPDU(context=request)
    elif kind == "error":
        r = Error(errorClass="object", errorCode="unknownObject", context=request)
    elif kind == "reject":
        r = RejectPDU(reason=1, context=request)
    else:
        r = AbortPDU(reason=1, context=request)
    r.pduSource = source
    return r


def stack_source(canon):
    """the source Address object as the network layer hands it up for that station (rig A), else typed"""
    ty, net, bs = canon
    if ty == 4:
        rig = _Rig("A")
        got = rig.feed("A", {"on": None, "via": 1, "dst": "u", "dnet": None, "dadr": "", "snet": net, "sadr": bs.hex()})
        if len(got) == 1:
            return got[0].pduSource
    if ty == 2 and len(bs) == 1:
        rig = _Rig("A")
        got = rig.feed("A", {"on": None, "via": bs[0], "dst": "u", "dnet": None, "dadr": "", "snet": None, "sadr": ""})
        if len(got) == 1:
            return got[0].pduSource
    return None


ROUTES = [{"k": "int", "n": 9}, {"k": "bytes", "x": "0a000009bac0"}, {"k": "tups", "h": "10.0.0.9", "p": 47808},
          {"k": "tups", "h": "10.0.0.9", "p": 47809}]


def routed_spellings(canon, sps, rng):
    """the pool's spellings + the same destinations written with an explicit route"""
    ty, net, bs = canon
    out = []
    for sp in sps:
        if sp["k"] == "str" and not sp["s"].endswith("\n") and sp["s"].count(":") < 5 and not sp["s"].startswith("X'") \
                and ":X'" not in sp["s"] and "/" not in sp["s"]:
            out.append(dict(sp, route=rng.choice(ROUTES)))
        elif sp["k"] in ("LS", "LSb", "RS", "RSb"):
            out.append(dict(sp, route=rng.choice(ROUTES)))
        elif sp["k"] in ("bytes", "tups", "net2") and rng.random() < 0.5:
            out.append(dict(sp, route=rng.choice(ROUTES)))       # route attached to the object afterwards
    return out


def gen_app(ctx, rng, pools):
    cases = []
    stations = [(c, sps) for c, sps in pools if c[0] in (2, 4) and len(c[2]) >= 1]
    for c, sps in stations:
        allsp = sps + routed_spellings(c, sps, rng)
        lim = 10 if ctx.quick else 40
        picks = allsp if len(allsp) <= lim else rng.sample(allsp, lim)
        # keep at least the routed ones of every kind
        routed = [x for x in allsp if x.get("route")]
        for x in routed[:6]:
            if x not in picks:
                picks.append(x)
        for d in picks:
            cases.append({"op": "app", "canon": [c[0], c[1], c[2].hex()], "dest": d, "src": rng.choice(sps),
                          "reply": rng.choice(["ack", "ack", "error", "reject", "abort"]),
                          "stack_src": rng.random() < 0.5})
        # two spellings of one station in flight: one queue, served in order
        for _ in range(3 if ctx.quick else 12):
            d1 = rng.choice(allsp)
            d2 = rng.choice(allsp)
            if d1.get("route") and d2.get("route") and d1["route"] != d2["route"]:
                # two DIFFERENT explicit routes: __eq__ compares routes when both sides have one (outside the claim)
                d2 = dict(d2, route=d1["route"]) if rng.random() < 0.5 else strip_route(d2)
            cases.append({"op": "app2", "canon": [c[0], c[1], c[2].hex()], "dest": [d1, d2],
                          "src": [rng.choice(sps), rng.choice(sps)]})
    return cases, stations


def app_fail(ctx, case, what):
    ctx.fail("app-queue", case, what)
    return False


def run_app_case(ctx, case, other, flat, impl_r):
    """a confirmed request to `dest`, answered from the plain source: same queue/transaction entry"""
    from bacpypes.iocb import IOCB
    canon = (case["canon"][0], case["canon"][1], bytes.fromhex(case["canon"][2]))
    app, sap = _app_rig()
    if case["op"] == "app":
        dest = build(case["dest"])
        src = (stack_source(canon) if case.get("stack_src") else None) or build(case["src"])
        flat.append({"op": "eqr", "a": strip_route(case["dest"]), "ar": case["dest"].get("route"),
                     "b": case["src"], "br": None, "app": True})
        impl_r.append({"r": "ok", "eq": bool(dest == src and src == dest), "hk": dest._tuple() == src._tuple()})
        ctx.count("app", (case["dest"]["k"], case["dest"].get("route", {}).get("k"), case["reply"], canon[0], len(canon[2])))
        if not (dest == src and src == dest and hash(dest) == hash(src)):
            return app_fail(ctx, case, "destination %s and reply source %s are not equal / hash differently" % (dest, src))
        req = _request(dest)
        iocb = IOCB(req)
        app.request_io(iocb); pump()
        if len(sap.sent) != 1:
            return app_fail(ctx, case, "request to %s: %d APDUs sent downstream" % (dest, len(sap.sent)))
        if len(app.queue_by_address) != 1:
            return app_fail(ctx, case, "%d destination queues after one request" % len(app.queue_by_address))
        rep = _reply(case["reply"], req, src)
        app.confirmation(rep); pump()
        if not iocb.ioComplete.is_set():
            return app_fail(ctx, case, "request to %s not completed by the %s from the equal address %s "
                            "(transaction queue not found)" % (dest, case["reply"], src))
        if (iocb.ioResponse if case["reply"] == "ack" else iocb.ioError) is not rep:
            return app_fail(ctx, case, "wrong response on the IOCB")
        if app.queue_by_address:
            return app_fail(ctx, case, "queue for %s not released after the reply from %s" % (dest, src))
        iocb2 = IOCB(_request(build(case["src"])))
        app.request_io(iocb2); pump()
        if len(sap.sent) != 2:
            return app_fail(ctx, case, "next request to %s was not sent (queued behind the unanswered one)" % (src,))
        return True
    # app2: two spellings in flight + one request to another station
    d = [build(x) for x in case["dest"]]
    srcs = [build(x) for x in case["src"]]
    ctx.count("app2", (case["dest"][0]["k"], case["dest"][1]["k"], bool(case["dest"][0].get("route")), bool(case["dest"][1].get("route"))))
    reqs = [_request(x) for x in d] + [_request(other)]
    iocbs = [IOCB(r) for r in reqs]
    for i in iocbs:
        app.request_io(i)
    pump()
    if len(app.queue_by_address) != 2:
        return app_fail(ctx, case, "requests to %s and %s (one station) and to %s: %d destination queues, expected 2 "
                        "(one per station)" % (d[0], d[1], other, len(app.queue_by_address)))
    if len(sap.sent) != 2 or sap.sent[0] is not reqs[0] or sap.sent[1] is not reqs[2]:
        return app_fail(ctx, case, "two requests to one station must be serialised: %d sent downstream" % len(sap.sent))
    app.confirmation(_reply("ack", reqs[0], srcs[0])); pump()
    if not iocbs[0].ioComplete.is_set() or iocbs[1].ioComplete.is_set() or len(sap.sent) != 3 or sap.sent[2] is not reqs[1]:
        return app_fail(ctx, case, "ack from %s: first request to %s not completed / second (to %s) not sent next" % (
            srcs[0], d[0], d[1]))
    app.confirmation(_reply("ack", reqs[1], srcs[1])); pump()
    if not iocbs[1].ioComplete.is_set() or iocbs[2].ioComplete.is_set() or len(app.queue_by_address) != 1:
        return app_fail(ctx, case, "ack from %s: second request (to %s) not completed or queue not released" % (srcs[1], d[1]))
    app.confirmation(_reply("ack", reqs[2], other)); pump()
    if not iocbs[2].ioComplete.is_set() or app.queue_by_address:
        return app_fail(ctx, case, "request to the other station not completed")
    return True


def strip_route(spec):
    return {k: v for k, v in spec.items() if k != "route"}


def run_app(ctx, cases, pools):
    setup()
    import logging
    logging.getLogger("bacpypes").setLevel(logging.ERROR)      # 'route provided but not route aware' warnings
    flat, impl_r = [], []
    for case in cases:
        canon = case["canon"]
        other = build({"k": "RSb", "net": 4321, "x": "63"}) if canon[:2] != [4, 4321] else build({"k": "LS", "n": 99})
        try:
            run_app_case(ctx, case, other, flat, impl_r)
        except Exception as e:
            ctx.fail("app-queue", case, "raised %s: %s" % (type(e).__name__, e))
        finally:
            import bacpypes.core as bc
            bc.deferredFns = []
    if ctx.model_ok and flat:
        b = core.Driver("drv_c18").ask([{k: v for k, v in c.items() if k != "app"} for c in flat])
        ctx.compare_stream("app", flat, impl_r, b, sig=lambda c, m: ("app", c["a"]["k"], (c.get("ar") or {}).get("k"), m.get("eq")))
    for c in cases[:2]:
        ctx.sample({"stream": "app", "case": c})


# ---------------------------------------------------------------- ints and addresses in one table (wave 5)

def mixed_pair(ctx, case, a, m):
    """{address: 'a', m: 'b'} keeps two entries, whatever the insertion order; sets too"""
    bad = []
    for d in ({a: "a", m: "b"}, {m: "b", a: "a"}):
        if len(d) != 2 or d.get(a) != "a" or d.get(m) != "b":
            bad.append("dict %r" % ({str(k) if not isinstance(k, int) else k: v for k, v in d.items()},))
            break
    if len({a, m}) != 2 or (m in {a: 1}) or (a in {m: 1}) or (m in {a}) or (a in {m}):
        bad.append("membership across kinds")
    if bad:
        ctx.fail("mixed-keys", case, "the address %s and the int %d are one key of a table that holds both: %s" % (
            a, m, "; ".join(bad)), n=m)
        return False
    return True


def gen_mixed(ctx, rng):
    cases = []
    for n in range(256):
        sps = [{"k": "int", "n": n}, S(str(n)), {"k": "LS", "n": n}, {"k": "bytes", "x": "%02x" % n}, S("0x%02x" % n)]
        ms = {n, (n + 1) % 256, 0, 255, rng.randrange(256), 256 + n, 4194302}
        for m in sorted(ms):
            cases.append({"op": "mixed", "a": sps[(n + m) % len(sps)], "n": m})
    others = [{"k": "RS", "net": 5, "n": 5}, {"k": "RSb", "net": 0, "x": "05"}, S("5:5"), {"k": "LSb", "x": "0005"},
              {"k": "LSb", "x": "0500"}, {"k": "tups", "h": "0.0.0.5", "p": 5}, {"k": "tupi", "h": 5, "p": 47808},
              S("0.0.0.5"), {"k": "RB", "net": 5}, {"k": "LB"}, {"k": "GB"}, {"k": "null"}, {"k": "bytes", "x": "000000000005"}]
    for sp in others:
        for m in (0, 1, 2, 3, 4, 5, 47808, 255, 256, -1, 83886085, 327685):
            cases.append({"op": "mixed", "a": sp, "n": m})
    return cases


def run_mixed(ctx, cases):
    setup()
    impl_r = []
    for case in cases:
        try:
            a = build(case["a"])
        except Exception as e:
            impl_r.append({"r": "err", "k": ek(e)})
            continue
        m = case["n"]
        try:
            eq = bool(a == m)
        except Exception as e:
            eq = {"err": ek(e)}
        same = not mixed_pair(ctx, case, a, m)
        impl_r.append({"r": "ok", "eq": eq, "same": same})
    if ctx.model_ok:
        b = core.Driver("drv_c18").ask(cases)
        ctx.compare_stream("mixed", cases, impl_r, b,
                           sig=lambda c, m: ("mixed", c["a"]["k"], str(m.get("eq")), 0 <= c["n"] < 256))
    else:
        ctx.count("mixed", n=len(cases))
    for c in cases[:2]:
        ctx.sample({"stream": "mixed", "case": c})


def gen_devcache(ctx, rng):
    """devices (instance, address) whose instance numbers hit other devices' station numbers"""
    cases = [{"op": "devcache", "devs": [[5, {"k": "int", "n": 12}], [9, {"k": "LS", "n": 5}]]},
             {"op": "devcache", "devs": [[9, {"k": "LS", "n": 5}], [5, {"k": "int", "n": 12}]]},
             {"op": "devcache", "devs": [[0, S("255")], [255, S("0")], [7, {"k": "RS", "net": 7, "n": 7}], [1, S("0.0.0.1")]]}]
    n = 60 if ctx.quick else 1500
    for _ in range(n):
        k = rng.randrange(2, 7)
        stations = rng.sample(range(256), k)
        insts = []
        for i in range(k):
            r = rng.random()
            cand = stations[(i + 1) % k] if r < 0.6 else stations[i] if r < 0.7 else rng.choice([rng.randrange(256), 1000 + i, 4194302 - i])
            while cand in insts:
                cand = 2000 + rng.randrange(100000)
            insts.append(cand)
        devs = []
        for i in range(k):
            st = stations[i]
            r = rng.random()
            sp = rng.choice([{"k": "int", "n": st}, S(str(st)), {"k": "LS", "n": st}, {"k": "bytes", "x": "%02x" % st},
                             S("X'%02x'" % st)]) if r < 0.75 else \
                {"k": "RS", "net": 1 + st % 3, "n": st} if r < 0.9 else {"k": "tups", "h": "10.0.0.%d" % st, "p": 47808}
            devs.append([insts[i], sp])
        cases.append({"op": "devcache", "devs": devs, "repeat": rng.random() < 0.3})
    return cases


def run_devcache(ctx, cases):
    """the real DeviceInfoCache (int and Address keys in one dict) against two separate reference maps"""
    setup()
    from bacpypes.app import DeviceInfoCache
    from bacpypes.apdu import IAmRequest
    from bacpypes import pdu
    for case in cases:
        cache = DeviceInfoCache()
        by_inst, by_addr = {}, {}
        seq = case["devs"] + (case["devs"][:1] if case.get("repeat") else [])
        try:
            for inst, sp in seq:
                src = build(sp)
                apdu = IAmRequest(iAmDeviceIdentifier=("device", inst), maxAPDULengthAccepted=1024,
                                  segmentationSupported="noSegmentation", vendorID=inst % 1000 + 1)
                apdu.pduSource = src
                cache.iam_device_info(apdu)
                by_inst[inst] = by_addr[tuple(key(src))] = (inst, key(src))
            ctx.count("devcache", (len(case["devs"]), any(i in [x[1].get("n") for x in case["devs"]] for i, _ in case["devs"])))

            def desc(info):
                return None if info is None else (info.deviceIdentifier, key(info.address))
            bad = None
            probes_i = sorted(set(list(by_inst) + [x for x in range(256)]))
            for m in probes_i:
                if desc(cache.get_device_info(m)) != by_inst.get(m) or cache.has_device_info(m) != (m in by_inst):
                    bad = "lookup by device instance %d gives %r, expected %r" % (m, desc(cache.get_device_info(m)), by_inst.get(m))
                    break
            if not bad:
                addrs = [pdu.Address(n) for n in range(256)] + [pdu.LocalStation(n) for n in range(0, 256, 7)] + \
                        [build(sp) for _, sp in case["devs"]] + [pdu.Address(str(build(sp))) for _, sp in case["devs"]]
                for a in addrs:
                    want = by_addr.get(tuple(key(a)))
                    if desc(cache.get_device_info(a)) != want or cache.has_device_info(a) != (want is not None):
                        bad = "lookup by address %s gives %r (has: %r), expected %r" % (
                            a, desc(cache.get_device_info(a)), cache.has_device_info(a), want)
                        break
            if not bad:
                inst, sp = case["devs"][0]
                info = cache.acquire(build(sp))
                if desc(info) != by_inst[inst] or getattr(cache.get_device_info(inst), "_ref_count", None) != 1 or any(
                        getattr(cache.get_device_info(i), "_ref_count", 0) != 0 for i in by_inst if i != inst):
                    bad = "acquire(%s) counted on the wrong record" % (build(sp),)
            if bad:
                ctx.fail("mixed-keys", case, "DeviceInfoCache: " + bad)
        except Exception as e:
            ctx.fail("mixed-keys", case, "DeviceInfoCache raised %s: %s" % (type(e).__name__, e))
    for c in cases[:1]:
        ctx.sample({"stream": "devcache", "case": c})


# ---------------------------------------------------------------- signatures

def sig(case, m):
    if case["op"] == "mk":
        exp = case.get("exp")
        cls = "refuse" if exp == "refuse" else "free" if exp is None else "denote"
        if m.get("r") == "err":
            return ("err", m["k"], case["c"]["k"], case.get("why") or cls)
        return ("ok", case["c"]["k"], m.get("ty"), m.get("len") if (m.get("len") or 0) < 8 else 8,
                m.get("ip") is not None)
    if case["op"] == "eq":
        if m.get("r") == "err":
            return ("err", m["k"])
        return ("eq", m["eq"], case["a"]["k"], case["b"]["k"])
    return (case["op"], m.get("r"))


# ---------------------------------------------------------------- run

def run_cases(ctx, stream, cases):
    setup()
    drv = core.Driver("drv_c18") if ctx.model_ok else None
    replies = []
    for c in cases:
        objs = []
        r = impl(c, objs)
        oracle(ctx, c, r, objs)
        replies.append(r)
    if drv:
        wire = [{k: v for k, v in c.items() if k not in ("exp", "why", "same")} for c in cases]
        b = drv.ask(wire)
        # coverage signature = model branch label where present
        for c, mr in zip(cases, b):
            if isinstance(mr, dict) and "br" in mr:
                ctx.count(stream + "-branch", (mr["br"], mr.get("k")), n=0)
        ctx.compare_stream(stream, cases, replies, b, sig=sig)
    else:
        for c in cases:
            ctx.count(stream)
    for c in cases[:2]:
        ctx.sample({"stream": stream, "case": c})
    return replies


def shard_short(ctx, spec):
    which, length, lo, hi = spec
    if which == "n":
        run_cases(ctx, "short-%d" % length, gen_short(length, lo, hi))
    else:
        run_cases(ctx, "short-ip-%d" % length, gen_short(length, lo, hi, SHORT_IP))


def load_corpus():
    import glob, json, os
    out = []
    for p in sorted(glob.glob(os.path.join(core.VERIF, "corpus", "C18", "*.json"))):
        d = json.load(open(p))
        out.extend(d["cases"] if "cases" in d else [d["case"]])
    return out


def triples(ctx, pools, rng):
    """== is an equivalence on real objects: sampled triples across all spellings"""
    objs = []
    for c, sp in pools:
        for s in sp:
            try:
                objs.append((c, s, build(s)))
            except Exception:
                pass
    n = 3000 if ctx.quick else 60000
    for _ in range(n):
        (c1, s1, a), (c2, s2, b), (c3, s3, c) = (rng.choice(objs) for _ in range(3))
        if rng.random() < 0.5:
            # bias towards related triples
            same = [o for o in objs if o[0] == c1]
            (c2, s2, b), (c3, s3, c) = rng.choice(same), rng.choice(same)
        ctx.count("triples", ("t", c1 == c2, c2 == c3))
        if (a == b) and (b == c) and not (a == c):
            ctx.fail("eq-trans", {"op": "triple", "a": s1, "b": s2, "c": s3}, "== not transitive")
        if (a == b) and (hash(a) != hash(b) or b not in {a: 1}):
            ctx.fail("eq-hash", {"op": "eq", "a": s1, "b": s2}, "equal but hash/dict differ")
        if (a == b) != (c1 == c2):
            ctx.fail("eq-hash", {"op": "eq", "a": s1, "b": s2, "same": c1 == c2},
                     "== is %r for spellings of %r and %r" % (a == b, c1, c2))


def run(ctx):
    setup()
    rng = ctx.sub_rng("c18")
    corpus = load_corpus()
    if corpus:
        run_cases(ctx, "corpus", [c for c in corpus if c["op"] in ("mk", "eq", "pack", "unpack")])
        run_reuse(ctx, [c for c in corpus if c["op"] == "reuse"])
        run_stack(ctx, [c for c in corpus if c["op"] == "stack"], [c for c in corpus if c["op"] == "bip"])
        run_app(ctx, [c for c in corpus if c["op"] in ("app", "app2")], None)
        run_mixed(ctx, [c for c in corpus if c["op"] == "mixed"])
        run_devcache(ctx, [c for c in corpus if c["op"] == "devcache"])
        run_settings(ctx, [c for c in corpus if c["op"] == "settings"])
        run_coerce(ctx, [c for c in corpus if c["op"] == "coerce"])
    run_cases(ctx, "stations", gen_stations())
    run_cases(ctx, "nets", gen_nets())
    run_cases(ctx, "ipv4", gen_ipv4(ctx, rng))
    run_cases(ctx, "octets", gen_octets(ctx, rng))
    run_cases(ctx, "tuples", gen_tuples(ctx, rng))
    pairs, pools = gen_pools(ctx, rng)
    run_cases(ctx, "pairs", pairs)
    triples(ctx, pools, rng)
    run_reuse(ctx, gen_reuse(ctx, ctx.sub_rng("c18-reuse"), pools))
    route_aware_reuse(ctx)
    srng = ctx.sub_rng("c18-stack")
    run_stack(ctx, gen_stack(ctx, srng), gen_bip(ctx, srng))
    arng = ctx.sub_rng("c18-app")
    app_cases, _st = gen_app(ctx, arng, pools)
    run_app(ctx, app_cases, pools)
    mrng = ctx.sub_rng("c18-mixed")
    run_mixed(ctx, gen_mixed(ctx, mrng))
    run_devcache(ctx, gen_devcache(ctx, mrng))
    run_settings(ctx, gen_settings(ctx, ctx.sub_rng("c18-settings")))
    run_coerce(ctx, gen_coerce(ctx, ctx.sub_rng("c18-coerce"), pools))
    run_cases(ctx, "malformed", gen_malformed(ctx, rng))
    specs = []
    step = 40000
    na = len(set(SHORT))
    for length in range(0, (4 if ctx.quick else 5) + 1):
        total = na ** length
        specs += [("n", length, lo, min(lo + step, total)) for lo in range(0, total, step)]
    ni = len(set(SHORT_IP))
    for length in ([6] if ctx.quick else [6, 7, 8]):
        total = ni ** length
        specs += [("ip", length, lo, min(lo + step, total)) for lo in range(0, total, step)]
    core.run_shards(ctx, "harness.c18", "shard_short", specs)
    ctx.extra["exhaustive_short_strings"] = {
        "alphabet": "".join(sorted(set(SHORT))), "max_length": 4 if ctx.quick else 5,
        "ip_alphabet": SHORT_IP, "ip_lengths": [6] if ctx.quick else [6, 7, 8]}


def search(ctx):
    """focused failing-input search: evaluate the oracle on the disagreeing cases
    and on a wider near-miss stream around them"""
    setup()
    rng = ctx.sub_rng("c18-search")
    for d in ctx.disagreements[:200]:
        objs = []
        r = impl(d["case"], objs)
        oracle(ctx, d["case"], r, objs)
    for c in gen_malformed(ctx, rng) + gen_stations() + gen_nets() + gen_ipv4(ctx, rng) + gen_tuples(ctx, rng):
        objs = []
        r = impl(c, objs)
        oracle(ctx, c, r, objs)


def replay(ctx, payload):
    setup()
    rec = payload.get("failure") or (payload.get("correspondence_disagreements") or [{}])[0]
    case = rec.get("case")
    if not case:
        raise core.Infra("nothing to replay")
    if case.get("op") == "reuse":
        run_reuse(ctx, [case])
        return
    if case.get("op") == "stack":
        run_stack(ctx, [case], [])
        return
    if case.get("op") == "bip":
        run_stack(ctx, [], [case])
        return
    if case.get("op") in ("app", "app2"):
        run_app(ctx, [case], None)
        return
    if case.get("op") == "mixed":
        run_mixed(ctx, [case])
        return
    if case.get("op") == "devcache":
        run_devcache(ctx, [case])
        return
    if case.get("op") == "settings":
        run_settings(ctx, [{"op": "settings", "seq": case["seq"]}])
        return
    if case.get("op") == "coerce":
        run_coerce(ctx, [case])
        return
    if case.get("op") == "route-reuse":
        route_aware_reuse(ctx)
        return
    if case.get("op") == "triple":
        a, b, c = build(case["a"]), build(case["b"]), build(case["c"])
        if (a == b) and (b == c) and not (a == c):
            ctx.fail("eq-trans", case, "== not transitive")
        return
    run_cases(ctx, "replay", [case])
