"""
C10 — a device answers every well-framed request and stays healthy under garbage.

Implementation side (this file + c10_impl.py): a REAL device stack on a vlan
under virtual time; frames injected as raw octets; replies read off the LAN by
an independent decoder.  Streams:
  mutate     : every single-octet substitution (all 255 values at every position for
               frames <= 16 octets, 16..40 sampled values otherwise), every truncation,
               single-octet insertions of each valid template frame
  random     : random octets at link level, behind a valid NPCI, behind a valid APCI type
  interleave : garbage and a valid request queued in the same instant (both orders): the
               valid one must be answered with exactly the baseline reply
  followup   : after each garbage batch a valid ReadProperty must be answered correctly
Model side (c10_model.py): the SAME batches (`batches`) + constructed histories on an
instrumented real device and, in lockstep, on lean/Drv/C10.lean (Model.Device: the
receive pipeline as a total function; theorems in Props/C10.lean) — frames compared
octet for octet per datagram, transaction lists before/after quiescence; see notes/C10.md.
"""
import os
from . import core
from . import c10_impl as C

LEAN_TARGETS = ["BacVerif.Props.C10", "drv_c10"]
LEANCHECKER = ["BacVerif.Props.C10"]
LEVEL = "proof"
RULE = ("valid request frames of every supported/unsupported service produced by the library's own encoders; "
        "single-octet substitutions, truncations, insertions; random octets at link / network / application "
        "level; same-instant interleavings with a valid request; follow-up valid request.  distinct = "
        "(template, mutation kind, position class, reply class) signatures")
TRUSTED = ["lean/BacVerif/Model/Device.lean is a hand transcription of the receive path (NetworkAdapter.confirmation, "
           "NetworkServiceAccessPoint.process_npdu/indication, ApplicationServiceAccessPoint.indication) composed "
           "of the C02/C03/C07/C08/C11 models; tied by the model/* lockstep streams of harness/c10_model.py",
           "the application is abstract in the model: its answer (recorded on the real device) is an INPUT of the "
           "model run; a body the model's decoder accepts (leaves checked for tag/length only) but the real decoder "
           "rejects is taken as the application's answer (counted as model/leaf-reject; 0 in 880 k cases)",
           "independent frame classifier/decoder in harness/c10_impl.py + harness/e2e.py",
           "Python exceptions are a runtime notion: the model pipeline is total by construction, the claim "
           "about the code rests on the correspondence + oracle streams"]
ASSUMPTIONS = ["link = vlan.Node frames; B/IP (BVLL) link garbage is exercised by C09/C13",
               "theorem hypotheses: the DCC gate lets the request in (a disabled device is silent by design), no "
               "transaction of the same (sender, invoke id) in progress, proposed window < 256, timeouts non-zero",
               "single adapter without network number, unicast link frames; the application answers every "
               "indication (Application.indication turns every exception into a reply: exercised by the helper/* batches)",
               "only unsegmented confirmed requests are owed a reply by the oracle; segmented-request "
               "fragments are checked for residue only"]


def GENERATED(ctx):
    """tables the model reads from the tree under test: the schema environment + service registries
    (translator/c03.py), the state-machine defaults (translator/tsm.py), the reject-reason table
    (translator/c10.py)"""
    from . import c03
    c03.GENERATED(ctx)
    from translator import tsm, c10 as tr10
    tsm.generate()
    tr10.generate()


def is_dcc(fr):
    kind, _inv = C.classify(fr)
    if kind != "confirmed":
        return False
    # unsegmented confirmed request behind a 2-octet NPCI: service choice is the 4th APDU octet
    return len(fr) >= 6 and fr[5] == 17


def reply_class(out):
    r = []
    for h, _raw in out["replies"]:
        if h and h.get("type") in C.REPLY_TYPES:
            r.append((C.REPLY_TYPES[h["type"]], h.get("reason")))
        elif h and "type" in h:
            r.append(("type%d" % h["type"], None))
        else:
            r.append(("undecodable", None))
    return tuple(r)


def mutations(ctx, rng, name, f):
    out = []
    full = len(f) <= 16 and not ctx.quick
    for pos in range(0, len(f)):
        vals = range(256) if full else rng.sample(range(256), 40 if not ctx.quick else 6) + list(range(0, 9)) + [0xFF, f[pos] ^ 0x08, f[pos] ^ 0x80, (f[pos] + 1) & 255]
        for v in sorted(set(vals)):
            if v != f[pos]:
                out.append(("sub", pos, f[:pos] + bytes([v]) + f[pos + 1:]))
    for k in range(0, len(f)):
        out.append(("trunc", k, f[:k]))
    for pos in range(2, len(f) + 1):
        for v in ([0x00, 0x0E, 0x0F, 0x1E, 0xFF] if ctx.quick else [0x00, 0x09, 0x0E, 0x0F, 0x1E, 0x2E, 0x3F, 0x55, 0xFE, 0xFF]):
            out.append(("ins", pos, f[:pos] + bytes([v]) + f[pos:]))
    # directed: every character-string tag, every charset octet x odd / even / ill-formed content
    for i, m in enumerate(C.string_mutations(name, f)):
        out.append(("str", 6 + i, m))
    return out


def shard(ctx, spec):
    """spec = (stream, template names)"""
    stream, names = spec
    Device = C.build()
    T = C.templates()
    rng = ctx.sub_rng("c10/%s/%s" % (stream, ",".join(names)))
    dev = Device()
    base_rp = T["rp"]
    base_reply = [r for (_h, r) in dev.inject([base_rp])["replies"]]
    if not base_reply:
        ctx.fail("baseline", {"frame": base_rp.hex()}, "valid ReadProperty got no reply on a fresh device")
        return
    count_since_new = 0

    def fresh():
        nonlocal dev, count_since_new
        dev = Device()
        count_since_new = 0

    def one(frames, label, pos, check_valid_at=None):
        nonlocal count_since_new
        out = dev.inject(frames)
        res = dev.residue()
        bad = False
        for i, fr in enumerate(frames):
            pass
        # judge each frame that is owed a reply on its own merits
        owed = [(fr, C.classify(fr)) for fr in frames]
        fails = []
        if not out["terminated"]:
            fails.append(("nontermination", "device still busy after the loop limit"))
        replies = [h for (h, _r) in out["replies"] if h and h.get("type") in C.REPLY_TYPES]
        for fr, (kind, inv) in owed:
            if kind == "confirmed":
                mine = [h for h in replies if h.get("invoke") == inv]
                same_inv = [1 for f2, (k2, i2) in owed if k2 == "confirmed" and i2 == inv]
                if not mine:
                    fails.append(("silence", "confirmed request (invoke %d) got no reply" % inv))
                elif len([h for h in mine if not h.get("seg")]) > len(same_inv):
                    fails.append(("many-replies", "confirmed request (invoke %d) got %d replies" % (inv, len(mine))))
        if res["client"] or res["server"]:
            fails.append(("residue-transaction", "leftover transactions %r" % (res,)))
        if res["ssm_timers"]:
            fails.append(("residue-timer", "leftover transaction timers %r" % (res,)))
        if out["unexpected_tasks"]:
            fails.append(("residue-timer", "still scheduled after every transaction must be over: %r" % (out["unexpected_tasks"],)))
        if check_valid_at is not None:
            want = base_reply
            got = [r for (h, r) in out["replies"] if h and h.get("invoke") == 1]
            if got != want:
                fails.append(("valid-request-disturbed", "a valid ReadProperty queued with garbage was answered %r instead of %r" % (
                    [g.hex() for g in got], [w.hex() for w in want])))
        dcc = [i for i, fr in enumerate(frames) if is_dcc(fr)]
        if dcc and dcc[0] < len(frames) - 1:
            # an earlier frame of this batch is a DeviceCommunicationControl request (possibly a VALID
            # "disable"): silence toward the later requests is then prescribed; only health is judged
            fails = [f for f in fails if f[0] in ("nontermination", "residue-transaction", "residue-timer")]
        case = {"stream": stream, "template": label, "pos": pos, "frames": [fr.hex() for fr in frames]}
        for k, w in fails:
            ctx.fail(k, case, w, errors=[list(e) for e in out["errors"][:2]])
        sigpos = "hdr" if (pos is not None and pos < 6) else "body"
        ctx.count(stream, (label, sigpos, reply_class(out)[:2]))
        count_since_new += 1
        # follow-up: a valid request afterwards must be answered exactly as on a fresh device
        if dcc:
            fresh()
        elif fails or count_since_new % 25 == 0:
            out2 = dev.inject([base_rp])
            got = [r for (_h, r) in out2["replies"]]
            if got != base_reply and not fails:
                ctx.fail("followup", case, "after this input a valid ReadProperty is answered %r instead of %r" % (
                    [g.hex() for g in got], [w.hex() for w in base_reply]))
            fresh()
        return out

    for frames, label, pos, check_valid_at in batches(ctx, rng, stream, names, T):
        one(frames, label, pos, check_valid_at=check_valid_at)
    if stream == "mutate":
        for name in names:
            ctx.sample({"stream": stream, "template": name, "frame": T[name].hex()})
    elif stream == "random":
        ctx.sample({"stream": stream, "example": frames[0].hex()})


def batches(ctx, rng, stream, names, T):
    """the injected batches of one shard: (frames, label, position, index of the valid request or None).
    Shared with the model side (harness/c10_model.py) so that both see the SAME frames."""
    base_rp = T["rp"]
    if stream == "mutate":
        for name in names:
            f = T[name]
            for kind, pos, m in mutations(ctx, rng, name, f):
                yield [m], "%s/%s" % (name, kind), pos, None
    elif stream == "random":
        n = 1500 if ctx.quick else 30000
        for i in range(n):
            layer = i % 3
            ln = rng.choice([1, 2, 3, 4, 5, 6, 8, 12, 20, 60])
            body = bytes(rng.getrandbits(8) for _ in range(ln))
            if layer == 0:
                fr = body
            elif layer == 1:
                fr = b"\x01" + bytes([rng.choice([0x00, 0x04, 0x08, 0x20, 0x24, 0x80, 0x0C, 0x2C])]) + body
            else:
                t = rng.choice([0x00, 0x02, 0x08, 0x0A, 0x0E, 0x10, 0x20, 0x30, 0x38, 0x3C, 0x40, 0x41, 0x42, 0x50, 0x60, 0x70, 0x71, 0x80, 0xF0])
                fr = b"\x01\x04" + bytes([t]) + body
            yield [fr], "random/L%d" % layer, None, None
    elif stream == "interleave":
        for name in names:
            f = T[name]
            muts = mutations(ctx, rng, name, f)
            rng.shuffle(muts)
            for kind, pos, m in muts[: (60 if ctx.quick else 600)]:
                kk, inv = C.classify(m)
                if kk != "other" and inv == 1:
                    continue      # would collide with the valid request's invoke id
                yield [m, base_rp], "%s/%s+valid" % (name, kind), pos, 1
                yield [base_rp, m], "valid+%s/%s" % (name, kind), pos, 0


def specs(ctx):
    T = sorted(C.templates().keys())
    s = [("mutate", [n]) for n in T]
    s += [("random", ["r%d" % i]) for i in range(2 if ctx.quick else 8)]
    s += [("interleave", T[i::4]) for i in range(4)]
    return s


def corpus(ctx):
    d = os.path.join(core.VERIF, "corpus", "C10")
    if not os.path.isdir(d):
        return
    import json
    Device = C.build()
    for fn in sorted(os.listdir(d)):
        rec = json.load(open(os.path.join(d, fn)))
        dev = Device()
        frames = [bytes.fromhex(h) for h in rec["frames"]]
        out = dev.inject(frames)
        for fr in frames:
            for k, w in C.judge(fr, out, dev.residue()):
                ctx.fail(k, {"stream": "corpus", "file": fn, "frames": rec["frames"]}, w)
        ctx.count("corpus", fn)


def run(ctx):
    core.bind_repo()
    corpus(ctx)
    core.run_shards(ctx, "harness.c10", "shard", specs(ctx))
    model_side(ctx)


def model_side(ctx):
    """correspondence with the Lean pipeline model (filled in by c10_model when built)"""
    try:
        from . import c10_model
    except ImportError:
        return
    c10_model.run(ctx)


def search(ctx):
    """the focused failing-input search runs inside the model-side judge: every disagreeing batch is
    re-examined by `c10_model.reference_oracle` (silence / malformed request acknowledged / residue)"""
    pass


def batch_judge(frames, out, residue):
    """property failures of one injected batch (the per-frame `judge` would take the replies
    to the OTHER frames of a batch for foreign ones)"""
    if len(frames) == 1:
        return C.judge(frames[0], out, residue)
    fails = []
    if not out["terminated"]:
        return [("nontermination", "device still busy after the loop limit")]
    replies = [h for (h, _r) in out["replies"] if h and h.get("type") in C.REPLY_TYPES]
    owed = [C.classify(fr) for fr in frames]
    dcc = [i for i, fr in enumerate(frames) if is_dcc(fr)]
    silenced = bool(dcc) and dcc[0] < len(frames) - 1
    for inv in sorted(set(i for (k, i) in owed if k == "confirmed")):
        mine = [h for h in replies if h.get("invoke") == inv]
        same = len([1 for (k, i) in owed if k == "confirmed" and i == inv])
        if not mine and not silenced:
            fails.append(("silence", "confirmed request (invoke %d) got no reply" % inv))
        elif len([h for h in mine if not h.get("seg")]) > same:
            fails.append(("many-replies", "confirmed request (invoke %d) got %d replies" % (inv, len(mine))))
    if residue["client"] or residue["server"]:
        fails.append(("residue-transaction", "leftover transactions %r" % (residue,)))
    if residue["ssm_timers"]:
        fails.append(("residue-timer", "leftover transaction timers %r" % (residue,)))
    if out.get("unexpected_tasks"):
        fails.append(("residue-timer", "still scheduled after every transaction must be over: %r" % (out["unexpected_tasks"],)))
    return fails


def replay(ctx, payload):
    rec = payload.get("failure") or {}
    case = rec.get("case") or {}
    if not case.get("frames") and not case.get("script"):
        raise core.Infra("nothing to replay")
    stream = case.get("stream") or ""
    ctx.count("replay", "replay")
    if stream.startswith("model/"):
        # found by the model-side streams: their oracle (and the comparison with the model) decides
        from . import c10_model
        if case.get("script"):
            c10_model.replay_script(ctx, case)
            return
        c10_model.replay_frames(ctx, c10_model.unhex(case["frames"]), case.get("template") or "replay", stream[6:],
                                [c10_model.unhex(h) for h in case.get("history", [])])
        return
    frames = [bytes.fromhex(h) for h in case.get("frames", [])]
    Device = C.build()
    dev = Device()
    out = dev.inject(frames)
    for k, w in batch_judge(frames, out, dev.residue()):
        ctx.fail(k, case, w)
    if getattr(ctx, "model_ok", False):
        try:
            from . import c10_model
        except ImportError:
            return
        c10_model.replay_frames(ctx, c10_model.norm(frames), "replay", "replay")
