"""
C05 evaluated end-to-end on complete real stacks (implementation side).
Every payload length 0..(4 x segment size + 2) (thorough: every length; quick:
boundary lengths) for each max-APDU size, windows 1..8 on each side, each single
fault {drop, dup, late} at each frame index, long payloads around and beyond 256
segments, random multi-fault runs.  Oracle: harness.e2e_oracle.check_c05
(delivered payload octet-for-octet equal, otherwise abort — never truncated;
consecutive sequence numbers mod 256, more-follows, window respected on the
wire; any single fault still ends in success) + check_c12 (frame lengths).
"""
from . import core
from . import e2e_oracle as O

ACTIONS = ["drop", "dup", ["delay", 0.4], ["delay", 2.5]]
APDUS = [50, 128, 206, 480, 1024, 1476]


def stack(apdu, **kw):
    d = {"max_apdu": apdu, "max_segs": 64, "seg_timeout": 1500}
    d.update(kw)
    return d


def lengths(ctx, apdu):
    size = apdu - 6
    if not ctx.quick:
        if apdu <= 206:
            return list(range(0, 4 * size + 3))
        step = max(1, size // 16)
        pts = set(range(0, 4 * size + 3, step))
    else:
        pts = set()
    for k in range(0, 5):
        for d in (-7, -6, -5, -4, -3, -2, -1, 0, 1, 2, 3):
            v = k * size + d
            if 0 <= v <= 4 * size + 2:
                pts.add(v)
    pts |= {0, 1, 4 * size + 2}
    return sorted(pts)


def shard(ctx, spec):
    rng = ctx.sub_rng("c05/%s" % (spec["label"],))
    kind = spec["kind"]
    if kind == "lengths":
        apdu = spec["apdu"]
        for n in spec["lengths"]:
            # the length is used for the request in one run and for the response in another
            for clen, slen in ((n, 5), (5, n)):
                sc = {"clen": clen, "slen": slen, "a": stack(apdu), "b": stack(apdu), "know": (n % 2 == 0)}
                judge(ctx, sc, O.run_scenario(sc), True)
    elif kind == "faults":
        for sc in spec["scenarios"]:
            r0 = O.run_scenario(sc)
            ok0 = any(c[1] in ("ack", "simple") for c in r0["conf"])
            judge(ctx, sc, r0, True)
            for i in range(len(r0["frames"])):
                for act in ACTIONS:
                    s1 = dict(sc, faults={str(i): act})
                    judge(ctx, s1, O.run_scenario(s1), ok0)
            for _ in range(4 if ctx.quick else 40):
                nf = len(r0["frames"])
                faults = {}
                for _k in range(rng.randrange(2, 5)):
                    faults[str(rng.randrange(0, nf + 2))] = rng.choice(ACTIONS)
                s2 = dict(sc, faults=faults)
                judge(ctx, s2, O.run_scenario(s2), None)
    elif kind == "long":
        for nseg, side in spec["cases"]:
            apdu = 50
            n = (apdu - 6) * nseg - 3
            sc = {"clen": n if side == "req" else 5, "slen": n if side == "resp" else 5,
                  "a": stack(apdu, max_segs=1000, window=8), "b": stack(apdu, max_segs=1000, window=8), "know": False}
            judge(ctx, sc, O.run_scenario(sc, max_loops=400000), True, label="long-%d-%s" % (nseg, side))
            if not ctx.quick or nseg in (257,):
                f = {str(2 * nseg // 3): "drop"}
                s1 = dict(sc, faults=f)
                judge(ctx, s1, O.run_scenario(s1, max_loops=400000), True, label="long-%d-%s-drop" % (nseg, side))
            # the first transmission of segment 255 / 256 / 257 (sequence number wrap) is lost, for several windows
            if nseg > 256:
                sender, typ = (10, 0) if side == "req" else (20, 3)
                for w in ([1, 3] if ctx.quick else [1, 2, 3, 5, 8]):
                    for idx in ([256] if ctx.quick else [255, 256, 257]):
                        s2 = dict(sc, a=stack(apdu, max_segs=1000, window=w), b=stack(apdu, max_segs=1000, window=w),
                                  faults={"abs:%d:%d:%d" % (sender, typ, idx): "drop"})
                        judge(ctx, s2, O.run_scenario(s2, max_loops=400000), True,
                              label="long-%d-%s-w%d-drop%d" % (nseg, side, w, idx))


def sig(sc, res):
    f = sc.get("faults", {})
    kinds = tuple(sorted(str(a if isinstance(a, str) else a[0]) for a in f.values()))
    apdu = sc["a"]["max_apdu"]
    size = max(1, apdu - 6)
    return (apdu, min(sc.get("clen", 0) // size, 5), min(sc.get("slen", 0) // size, 5),
            sc["a"].get("window"), sc["b"].get("window"), kinds, tuple(c[1] for c in res["conf"]))


def judge(ctx, sc, res, baseline_ok, label=None):
    ctx.count("c05-e2e", sig(sc, res))
    for k, w in O.check_c05(sc, res, baseline_ok) + O.check_c12(sc, res):
        ctx.fail(k, {"scenario": sc, "observed": O.brief(res)}, w,
                 n_faults=len(sc.get("faults", {})),
                 segments=max(sc.get("clen", 0), sc.get("slen", 0)) // max(1, sc["a"]["max_apdu"] - 6))
    if baseline_ok is True and not sc.get("faults") and sc.get("mode", "ack") in ("ack", "simple") \
            and not any(c[1] in ("ack", "simple") for c in res["conf"]):
        # fault-free transfers within the negotiated limits must succeed
        segs = max(sc.get("clen", 0), sc.get("slen", 0)) // max(1, sc["a"]["max_apdu"] - 6) + 1
        if segs <= 64 or label:
            ctx.fail("fault-free-failure", {"scenario": sc, "observed": O.brief(res)},
                     "fault-free transfer did not succeed: %r" % (O.brief(res)["conf"],), segments=segs)
    if ctx.evaluations % 500 == 1:
        ctx.sample({"scenario": sc, "outcome": [(c[1], c[2]) for c in res["conf"]], "frames": len(res["frames"])})


def run_impl(ctx):
    rng = ctx.sub_rng("c05")
    specs = []
    apdus = APDUS if not ctx.quick else [50, 206, 1476]
    for apdu in apdus:
        ls = lengths(ctx, apdu)
        chunks = 4 if not ctx.quick else 1
        for c in range(chunks):
            specs.append({"kind": "lengths", "label": "len-%d-%d" % (apdu, c), "apdu": apdu, "lengths": ls[c::chunks]})
    # single faults and multi-fault runs: sizes x windows
    fs = []
    for apdu in ([50, 206] if ctx.quick else [50, 128, 206, 480]):
        size = apdu - 6
        for clen, slen in ((5, 2 * size + 1), (2 * size + 1, 5), (3 * size, 3 * size), (5, 5)):
            fs.append({"clen": clen, "slen": slen, "a": stack(apdu), "b": stack(apdu), "know": True})
    for wa in ([1, 3, 8] if ctx.quick else range(1, 9)):
        for wb in ([1, 2] if ctx.quick else range(1, 9)):
            fs.append({"clen": 5 if (wa + wb) % 2 else 240, "slen": 240, "a": stack(50, window=wa),
                       "b": stack(50, window=wb), "know": False})
            # segmented request of more than window+2 segments answered by ONE short frame: losing that
            # answer makes the client repeat the whole request from segment 0
            if wb == 1 or (wa + wb) % 3 == 0:
                fs.append({"clen": 300, "slen": 5, "a": stack(50, window=wa), "b": stack(50, window=wb), "know": False})
                fs.append({"clen": 300, "slen": 0, "mode": "simple", "a": stack(50, window=wa),
                           "b": stack(50, window=wb), "know": False})
    n = 12
    for i in range(n):
        specs.append({"kind": "faults", "label": "faults-%d" % i, "scenarios": fs[i::n]})
    longs = [(255, "resp"), (256, "resp"), (257, "resp"), (257, "req")] if ctx.quick else \
            [(255, "resp"), (256, "resp"), (257, "resp"), (300, "resp"), (600, "resp"),
             (255, "req"), (256, "req"), (257, "req"), (300, "req"), (600, "req")]
    for c in longs:
        specs.append({"kind": "long", "label": "long-%d-%s" % c, "cases": [c]})
    core.run_shards(ctx, "harness.c05_impl", "shard", specs)


def replay_impl(ctx, case):
    sc = case["scenario"]
    judge(ctx, sc, O.run_scenario(sc, max_loops=400000), True if len(sc.get("faults", {})) <= 1 else None)
