"""
harness.vt — virtual time and fault injection for the REAL bacpypes scheduler.

No source hooks: `bacpypes.task._time` is replaced by a virtual clock, the real
`TaskManager` singleton is created first (its wake-up pipe is closed), and
`asyncore.loop` as seen by `bacpypes.core` is replaced by a stub that jumps the
clock to the next due task.  `core.run` / `core.run_once`, `TaskManager.
get_next_task/process_task/install_task/suspend_task` and every `_Task`
subclass are the repository's own code.

    vt = VT.install()            # once per process, before any stack is built
    vt.run()                     # run the real core.run() until quiescent
    vt.run(until=vt.now + 5.0)   # ... or until a virtual instant
    vt.errors                    # exceptions core.run logged (it swallows them)

Fault injection: `FaultNet` (a vlan.Network subclass) consults a policy for
every frame: deliver / drop / duplicate / delay.
"""
import sys


class VT:
    _inst = None

    def __init__(self):
        self.now = 1_000_000_000.0
        self.errors = []
        self.loops = 0
        self.max_loops = 200000
        self.until = None
        self.overrun = False

    # ------------------------------------------------------------------
    @classmethod
    def install(cls, start=1_000_000_000.0):
        if cls._inst is not None:
            cls._inst.reset(start)
            return cls._inst
        import bacpypes.task as btask
        import bacpypes.core as bcore
        vt = cls()
        vt.now = start
        btask._time = vt.time
        if btask._task_manager is not None:
            tm = btask._task_manager
        else:
            tm = btask.TaskManager()
        if getattr(tm, "trigger", None) is not None:
            try:
                tm.trigger.close()      # removes the pipe from asyncore's map
            except Exception:
                pass
            tm.trigger = None
        vt.tm = tm
        vt.btask = btask
        vt.bcore = bcore
        bcore.taskManager = tm

        class _AsyncoreStub:
            """what bacpypes.core sees as `asyncore`"""
            def __init__(self, real):
                self._real = real
            def __getattr__(self, k):
                return getattr(self._real, k)
            def loop(self_inner, timeout=30.0, use_poll=False, map=None, count=None):
                vt._idle(timeout)
        bcore.asyncore = _AsyncoreStub(bcore.asyncore)

        # core.run / run_once swallow exceptions into their logger: record them
        def rec(fmt, *args):
            et, ev, _tb = sys.exc_info()
            vt.errors.append((type(ev).__name__ if ev is not None else "?", str(ev)))
        bcore.run._exception = rec
        bcore.run_once._exception = rec
        cls._inst = vt
        return vt

    def reset(self, start=1_000_000_000.0):
        """forget every scheduled task and deferred function; restart the clock"""
        for _when, _n, task in list(self.tm.tasks):
            task.isScheduled = False
        del self.tm.tasks[:]
        self.bcore.deferredFns[:] = []
        self.bcore.deferredFns = []
        self.now = start
        self.errors = []
        self.overrun = False

    # ------------------------------------------------------------------
    def time(self):
        return self.now

    def _idle(self, timeout):
        """called where core.run would wait for socket activity"""
        bcore = self.bcore
        self.loops += 1
        if self.loops > self.max_loops:
            self.overrun = True
            bcore.stop()
            return
        if bcore.deferredFns:
            return                       # run() drains them right after, no time passes
        if not self.tm.tasks:
            self.quiesced_at = self.now          # nothing left to do: the instant activity ended
            if self.until is not None and self.until > self.now:
                self.now = self.until
            bcore.stop()
            return
        nxt = self.tm.tasks[0][0]
        if self.until is not None and nxt > self.until:
            self.now = max(self.now, self.until)
            bcore.stop()
            return
        if nxt > self.now:
            self.now = nxt
        # else: due already; run() picks it up on the next iteration

    def run(self, until=None, max_loops=200000):
        """run the real core.run() in virtual time until nothing is left to do
        (or until the given instant).  Returns False if max_loops was hit."""
        self.until = until
        self.loops = 0
        self.max_loops = max_loops
        self.overrun = False
        self.quiesced_at = None              # set when the run ended because no task was left
        self.bcore.run(spin=1.0e9, sigterm=None, sigusr1=None)
        return not self.overrun

    def advance(self, seconds):
        return self.run(until=self.now + seconds)

    def pending(self):
        """(due time, task) of everything still scheduled — for quiescence checks"""
        return [(w, t) for (w, _n, t) in sorted(self.tm.tasks, key=lambda x: (x[0], x[1]))]


def make_faultnet():
    """returns the FaultNet class (defined lazily: bacpypes must be bound first)"""
    from copy import deepcopy
    from bacpypes.vlan import Network
    from bacpypes.task import OneShotFunction, FunctionTask

    class FaultNet(Network):
        """vlan.Network with a per-frame policy:
             policy(index, pdu) -> "ok" | "drop" | "dup" | ("delay", seconds)
           every frame seen is appended to .log as (index, src, dst, bytes, action, virtual time)"""

        def __init__(self, *a, policy=None, **kw):
            Network.__init__(self, *a, **kw)
            self.policy = policy
            self.log = []
            self.index = 0

        def process_pdu(self, pdu):
            i = self.index
            self.index += 1
            action = self.policy(i, pdu) if self.policy else "ok"
            self.log.append((i, pdu.pduSource, pdu.pduDestination, bytes(pdu.pduData), action, VT._inst.now if VT._inst else None))
            if action == "drop":
                return
            if action == "dup":
                Network.process_pdu(self, deepcopy(pdu))
                Network.process_pdu(self, pdu)
                return
            if isinstance(action, tuple) and action[0] == "delay":
                t = FunctionTask(Network.process_pdu, self, pdu)
                t.install_task(delta=action[1])
                return
            Network.process_pdu(self, pdu)

    return FaultNet
